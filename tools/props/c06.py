"""C06 - derive_more::Debug without attributes is indistinguishable from std Debug.

proofs : coq/theories/C06 (derive_more's DebugTuple/Padded vs core's DebugTuple/PadAdapter, value trees of any depth,
         the decision logic of impl/src/fmt/debug.rs vs rustc's derive; `_partial`/`_refuted` for pretty + options
         and the positive statement for raw-identifier names on the current tree)
oracle : the REAL macro in a generated crate: every shape twice with identical definitions (derive_more::Debug /
         std #[derive(Debug)] or a hand-written std builder impl for attribute cases), 11 format specs, byte-for-byte
tie 1  : Coq model's predicted text (leaf texts measured on the real formatter) vs the real text, both flavours
         Each value is ONE Coq program term (Model.dval); Model.dm_val / Model.std_val give the two sides, so
         generate_body_now, std_derive_body, reference_body (hand-written std impl) and known_class are tied on every run
tie 2  : Coq generate_body vs the real expansion (in-process harness): builder kind, names, fields, finish kind
tie 3  : Coq generate_bounds vs the where clause of the real expansion (generic items, also with skip / format attributes)
T-gen  : the four name sites of generate_body (unraw or not) are read off debug.rs on every run and must equal
         Model.current_sites (all unraw since fix 0354bd6); a site losing its unraw() shows up as `tie-name-sites`
         and, on raw-identifier cases, as `raw-ident-name` (run-time text) / `raw-ident-name-literal` (expansion).
         The translator is fail-soft: an unrecognised site is a `tie-name-sites` record, the run continues with
         Model.current_sites, and the run-time oracle (model-independent) names the concrete failing input
"""
import json
import os
import re

from lib import common
from lib import c06gen as G
from lib.common import coq_str, py_str

TRUSTED = [
    "Coq 8.16.1 kernel + vm_compute (coqc full .vo build); no axioms (Print Assumptions: closed)",
    "hand-written Gallina model coq/theories/C06/Model.v of core::fmt::builders (PadAdapter, DebugTuple, DebugStruct, "
    "DebugList), core::fmt::write, /repo/src/fmt.rs and debug.rs generate_body; tied to the code by differential runs",
    "std's #[derive(Debug)] and hand-written core builder chains as the oracle; rustc 1.95 / core semantics",
    "tools/lib/c06gen.py (generators, renderers to Rust and Coq), tools/props/c06.py (expansion parser, name-site "
    "translator, classifier); leaf Debug impls only call write_str (writes_only) - their texts are measured",
    "Rust match/field-projection semantics for enums (the variant arm is chosen by python)",
]

DEBUG_RS = os.path.join(common.REPO, "impl", "src", "fmt", "debug.rs")


# ------------------------------------------------------------------ T-gen: name sites

def read_name_sites():
    """(sites, lines, problems) from the source of Expansion::generate_body.  FAIL-SOFT: a site that is not in a
    recognised form is None (and named in `problems`); the caller records a broken tie and goes on with the model's
    own switch value, so the run-time oracle still gets to show the concrete failing input."""
    sites = {"unit": None, "tuple": None, "named": None, "field": None}
    lines = {}
    problems = []
    try:
        src = open(DEBUG_RS).read()
    except OSError as e:
        return sites, lines, ["cannot read %s: %r" % (DEBUG_RS, e)]
    m = re.search(r"fn generate_body\(&self\).*?\n    }\n", src, re.S)
    if not m:
        return sites, lines, ["generate_body not found in debug.rs"]
    body = m.group(0)
    off = m.start()
    i_unit = body.find("syn::Fields::Unit =>")
    i_unn = body.find("syn::Fields::Unnamed(")
    i_nam = body.find("syn::Fields::Named(")
    if not (0 <= i_unit < i_unn < i_nam):
        return sites, lines, ["the three arms of generate_body were not found in order"]
    arms = {"unit": (i_unit, i_unn), "tuple": (i_unn, i_nam), "named": (i_nam, len(body))}
    for k, (a, b) in arms.items():
        ms = list(re.finditer(r"self\s*\.\s*ident\s*(\.\s*unraw\(\)\s*)?\.\s*to_string\(\)", body[a:b]))
        if len(ms) != 1:
            problems.append("expected one `self.ident...to_string()` in the %s arm (line %d ff.), found %d" % (
                k, src.count("\n", 0, off + a) + 1, len(ms)))
            continue
        sites[k] = ms[0].group(1) is not None
        lines[k] = src.count("\n", 0, off + a + ms[0].start()) + 1
    a, b = arms["named"]
    ms = list(re.finditer(r"field_ident\s*(\.\s*unraw\(\)\s*)?\.\s*to_string\(\)", body[a:b]))
    if len(ms) != 1:
        problems.append("expected one `field_ident...to_string()` in the named arm, found %d" % len(ms))
    else:
        sites["field"] = ms[0].group(1) is not None
        lines["field"] = src.count("\n", 0, off + a + ms[0].start()) + 1
    return sites, lines, problems


def sites_coq(s):
    b = lambda x: "true" if x else "false"
    return "(mksites %s %s %s %s)" % (b(s["unit"]), b(s["tuple"]), b(s["named"]), b(s["field"]))


ALL_UNRAW = "(mksites true true true true)"


# ------------------------------------------------------------------ parsing the real expansion

_TOK = re.compile(r'\s*("(?:[^"\\]|\\.)*"|r#\w+|\'\w+|\w+|::|=>|->|.)', re.S)


def tokens(s):
    out = []
    pos = 0
    s = s.strip()
    while pos < len(s):
        m = _TOK.match(s, pos)
        out.append(m.group(1))
        pos = m.end()
    return out


class P:
    def __init__(self, toks):
        self.t = toks
        self.i = 0

    def peek(self, k=0):
        return self.t[self.i + k] if self.i + k < len(self.t) else None

    def next(self):
        x = self.t[self.i]
        self.i += 1
        return x

    def expect(self, x):
        y = self.next()
        if y != x:
            raise ValueError("expected %r, got %r at %d: %s" % (x, y, self.i, " ".join(self.t[max(0, self.i - 8):self.i + 8])))

    def group(self, op, cl):
        """skip a balanced group starting at op; returns the tokens inside"""
        self.expect(op)
        depth = 1
        out = []
        while depth:
            x = self.next()
            if x in "([{":
                depth += 1
            elif x in ")]}":
                depth -= 1
            if depth:
                out.append(x)
        return out

    def expr(self):
        x = self.peek()
        if x == "&":
            self.next()
            if self.peek() == "mut":
                self.next()
            return ("ref", self.expr())
        if x.startswith('"'):
            return ("lit", self.next())
        path = [self.next()]
        while self.peek() == "::":
            self.next()
            path.append(self.next())
        path = "::".join(path)
        if self.peek() == "!":
            self.next()
            return ("macro", path, self.group("(", ")"))
        if self.peek() == "(":
            self.next()
            args = []
            while self.peek() != ")":
                args.append(self.expr())
                if self.peek() == ",":
                    self.next()
            self.next()
            return ("call", path, args)
        return ("path", path)


def lit_value(tok):
    """value of a Rust string literal token made of an identifier (names) - escapes are not expected"""
    return tok[1:-1]


def name_of(x):
    """the name argument of a builder constructor / write_str: a string literal, or stringify!(ident)"""
    if x[0] == "lit":
        return lit_value(x[1])
    if x[0] == "macro" and x[1].endswith("stringify"):
        return "".join(x[2])
    raise ValueError("name is neither a literal nor stringify!: %r" % (x,))


def chain(e):
    """builder-call tree -> (kind, name, [(field name | None, value expr)], exhaustive)"""
    assert e[0] == "call", e
    p = e[1]
    if p.endswith("Formatter::write_str"):
        return ("unit", name_of(e[2][1]), [], True)
    fin = p.rsplit("::", 1)[1]
    assert fin in ("finish", "finish_non_exhaustive"), p
    owner = p.rsplit("::", 1)[0]
    fields = []
    x = e[2][0]
    while x[0] == "call":
        assert x[1] == owner + "::field", x[1]
        if owner.endswith("DebugStruct"):
            fields.append((name_of(x[2][1]), x[2][2]))
        else:
            fields.append((None, x[2][1]))
        x = x[2][0]
    assert x[0] == "ref" and x[1][0] == "call", x
    ctor = x[1][1]
    name = name_of(x[1][2][1])
    fields.reverse()
    if owner == "derive_more::__private::DebugTuple" and ctor == "derive_more::__private::debug_tuple":
        kind = "dm_tuple"
    elif owner == "derive_more::core::fmt::DebugStruct" and ctor == "derive_more::core::fmt::Formatter::debug_struct":
        kind = "core_struct"
    elif owner.endswith("fmt::DebugTuple") and ctor.endswith("Formatter::debug_tuple"):
        kind = "core_tuple"
    else:
        raise ValueError("unknown builder %s / %s" % (owner, ctor))
    return (kind, name, fields, fin == "finish")


def parse_expansion(body_tokens, item):
    """real expansion -> list (one per struct / variant) of chain()"""
    p = P(tokens(body_tokens))
    p.expect("{")
    out = []
    if item["kind"] == "struct":
        while p.peek() == "let":
            while p.next() != ";":
                pass
        out.append(chain(p.expr()))
        return out
    p.expect("match")
    p.expect("self")
    p.expect("{")
    while p.peek() != "}":
        p.expect("Self")
        p.expect("::")
        p.next()
        if p.peek() == "(":
            p.group("(", ")")
        elif p.peek() == "{":
            p.group("{", "}")
        p.expect("=>")
        p.expect("{")
        out.append(chain(p.expr()))
        p.expect("}")
        if p.peek() == ",":
            p.next()
    return out


def real_canon(ch, fs):
    """chain() -> the shape of Model.body: (kind, name, [(fname, ('field', i) | ('args', i))], exhaustive)"""
    kind, name, fields, ex = ch
    bind = {G.binding(fs, i): i for i in range(len(fs["list"]))}
    lits = []
    for i, f in enumerate(fs["list"]):
        if f["attr"] and f["attr"][0] == "fmt":
            lits.append((i, " ".join(tokens(G.fmt_attr_tokens(fs, f["attr"][1])))))
    out = []
    last = -1
    for (fname, v) in fields:
        assert v[0] == "ref", v
        if v[1][0] == "path":
            last = bind[v[1][1]]
            out.append((fname, ("field", last)))
        else:
            assert v[1][0] == "macro" and v[1][1].endswith("format_args"), v
            got = " ".join(t for t in v[1][2])
            got = got[:-2] if got.endswith(" ,") else got
            # the first field after the previous one whose attribute has exactly these tokens (fields come in order)
            last = [i for (i, toks) in lits if i > last and toks == got][0]
            out.append((fname, ("args", last)))
    return (kind, name, out, ex)


def model_canon(t):
    """parsed Coq [body] -> same shape"""
    def fe(x):
        return ("field", x[1]) if x[0] == "FeField" else ("args", x[1])
    b = lambda x: x == "true"
    if t[0] == "BWriteStr":
        return ("unit", py_str(t[1]), [], True)
    if t[0] in ("BDmTuple", "BCoreTuple"):
        return ("dm_tuple" if t[0] == "BDmTuple" else "core_tuple", py_str(t[1]), [(None, fe(x)) for x in t[2]], b(t[3]))
    return ("core_struct", py_str(t[1]), [(py_str(n), fe(x)) for (n, x) in t[2]], b(t[3]))


# ------------------------------------------------------------------ cases

def build_cases(gen, rng, tier):
    """list of cases {"items": [...], "values": [{"ty":..., "v":...}], "tag": str}"""
    cases = []
    LT = lambda k: ["leaf", k]

    def add(tag, items, roots, per_variant=True, nvals=1):
        case = {"tag": tag, "items": items, "values": []}
        for t in roots:
            vals = gen.all_variant_values(case, t) if per_variant and t[0] == "adt" else []
            for _ in range(nvals if not vals else 0):
                vals.append(gen.value(case, t))
            for v in vals:
                case["values"].append({"ty": t, "v": v})
        cases.append(case)
        return case

    A = lambda i, args=(): ["adt", i, list(args)]
    nm = lambda i: G.ident("A%d" % i)

    # --- A. systematic attribute-free shapes
    c = {"items": []}
    add("unit", [{"kind": "struct", "name": nm(0), "params": [], "fields": {"kind": "unit", "list": []}}], [A(0)])
    add("empty-tuple", [{"kind": "struct", "name": nm(0), "params": [], "fields": {"kind": "tuple", "list": []}}], [A(0)])
    add("empty-braces", [{"kind": "struct", "name": nm(0), "params": [], "fields": {"kind": "named", "list": []}}], [A(0)])
    for kind in ("tuple", "named"):
        for n in range(1, 5):
            for rep in range(3 if tier == "quick" else 8):
                case = {"items": []}
                it = gen.struct(case, nm(0), kind, n, [], depth=rep % 2, p_adt=0)
                add("%s-%d" % (kind, n), [it], [A(0)], nvals=2)
    # more than 5 fields (std's derive switches to debug_*_fields_finish there)
    for kind in ("tuple", "named"):
        for n in (5, 6, 7) if tier == "quick" else (5, 6, 7, 8, 9):
            case = {"items": []}
            it = gen.struct(case, nm(0), kind, n, [], depth=0, p_adt=0)
            if kind == "named":
                for i, f in enumerate(it["fields"]["list"]):
                    f["name"] = G.ident("f%d" % i)
            add("%s-%d" % (kind, n), [it], [A(0)])
    # every value of the edge-case leaf (empty output, leading/trailing/only newline, blank line, CRLF, wide chars)
    for expr in G.LEAF_TYPES["Edge"][1]:
        lid = gen.leaves.get("Edge", expr)
        its = [{"kind": "struct", "name": nm(0), "params": [], "fields": {"kind": "tuple", "list": [
            {"name": None, "ty": LT("Edge"), "attr": None}, {"name": None, "ty": LT("u8"), "attr": None}]}},
            {"kind": "struct", "name": nm(1), "params": [], "fields": {"kind": "named", "list": [
                {"name": G.ident("a"), "ty": A(0), "attr": None}, {"name": G.ident("b"), "ty": LT("Edge"), "attr": None}]}},
            {"kind": "struct", "name": nm(2), "params": [], "fields": {"kind": "tuple", "list": [
                {"name": None, "ty": A(1), "attr": None}, {"name": None, "ty": LT("Edge"), "attr": ["skip"]}]}}]
        case = {"tag": "edge-leaf", "items": its, "values": []}
        v0 = ["adt", 0, -1, [["leaf", lid], ["leaf", gen.leaves.get("u8", "7u8")]]]
        v1 = ["adt", 1, -1, [v0, ["leaf", lid]]]
        v2 = ["adt", 2, -1, [v1, ["leaf", lid]]]
        case["values"] = [{"ty": A(0), "v": v0}, {"ty": A(2), "v": v2}]
        cases.append(case)
    # every leaf type once, in a 1-tuple and a 1-named struct
    for key in G.LEAF_TYPES:
        if key == "Fail":
            continue
        its = [{"kind": "struct", "name": nm(0), "params": [], "fields": {"kind": "tuple", "list": [{"name": None, "ty": LT(key), "attr": None}]}},
               {"kind": "struct", "name": nm(1), "params": [], "fields": {"kind": "named", "list": [{"name": G.ident("a"), "ty": LT(key), "attr": None}]}}]
        add("leaf-" + key, its, [A(0), A(1)])
    # a failing field (fmt::Error propagation through both builders)
    its = [{"kind": "struct", "name": nm(0), "params": [], "fields": {"kind": "tuple", "list": [
        {"name": None, "ty": LT("i32"), "attr": None}, {"name": None, "ty": LT("Fail"), "attr": None}, {"name": None, "ty": LT("u8"), "attr": None}]}},
        {"kind": "struct", "name": nm(1), "params": [], "fields": {"kind": "named", "list": [
            {"name": G.ident("a"), "ty": LT("Fail"), "attr": None}, {"name": G.ident("b"), "ty": LT("u8"), "attr": None}]}},
        {"kind": "struct", "name": nm(2), "params": [], "fields": {"kind": "tuple", "list": [{"name": None, "ty": ["vec", A(0)], "attr": None}]}}]
    add("failing-field", its, [A(0), A(1), A(2)])
    F, U8 = LT("Fail"), LT("u8")
    fl = lambda kind, tys: {"kind": kind, "list": [{"name": G.ident("f%d" % i) if kind == "named" else None, "ty": t, "attr": None}
                                                   for i, t in enumerate(tys)]}
    for kind in ("tuple", "named"):
        its = [{"kind": "struct", "name": nm(0), "params": [], "fields": fl(kind, [F])},
               {"kind": "struct", "name": nm(1), "params": [], "fields": fl(kind, [U8, F])},
               {"kind": "struct", "name": nm(2), "params": [], "fields": fl(kind, [F, U8, U8])},
               {"kind": "enum", "name": nm(3), "params": [], "variants": [
                   {"name": G.ident("V0"), "fields": fl("tuple", [U8, F, U8])}, {"name": G.ident("V1"), "fields": fl("named", [F, U8])},
                   {"name": G.ident("V2"), "fields": fl(kind, [U8, F])}]},
               {"kind": "struct", "name": nm(4), "params": [], "fields": fl(kind, [U8, A(1), U8])},
               {"kind": "struct", "name": nm(5), "params": [], "fields": fl(kind, [["vec", A(3)], ["opt", A(0)]])}]
        its[2]["fields"]["list"][2]["attr"] = ["skip"]
        add("failing-field-" + kind, its, [A(0), A(1), A(2), A(3), A(4), A(5)])
    # enums mixing variant kinds
    shapes_pool = [("unit", 0), ("tuple", 0), ("named", 0), ("tuple", 1), ("tuple", 2), ("tuple", 3), ("named", 1), ("named", 2), ("named", 4), ("tuple", 4)]
    for rep in range(6 if tier == "quick" else 20):
        case = {"items": []}
        shapes = rng.sample(shapes_pool, rng.randrange(2, 6))
        it = gen.enum(case, nm(0), shapes, [], depth=1, p_adt=0, raw_variants=0.0)
        add("enum-mixed", [it], [A(0)])
    # generics
    for rep in range(6 if tier == "quick" else 20):
        case = {"items": []}
        np_ = rng.randrange(1, 3)
        params = ["T", "U"][:np_]
        kind = rng.choice(["tuple", "named"])
        it = gen.struct(case, nm(0), kind, rng.randrange(np_, 4), [], params, depth=1, p_adt=0)
        args = [gen.ty(case, 1, [], (), 0) for _ in params]
        add("generic-struct", [it], [A(0, args)], nvals=2)
    for rep in range(3 if tier == "quick" else 10):
        case = {"items": []}
        it = gen.enum(case, nm(0), [("unit", 0), ("tuple", 2), ("named", 2)], [], ["T"], depth=1, p_adt=0)
        add("generic-enum", [it], [A(0, [gen.ty(case, 1, [], (), 0)])])
    # --- raw identifiers for type / variant / field names
    for raw in G.RAW_NAMES[:5]:
        for kind, n in (("unit", 0), ("tuple", 0), ("tuple", 2), ("named", 0), ("named", 2)):
            case = {"items": []}
            it = gen.struct(case, G.ident(raw, True), kind, n, [], depth=0, p_adt=0, **({"raw_p": 0.5} if kind == "named" else {}))
            add("raw-type-" + kind, [it], [A(0)])
    for rep in range(5 if tier == "quick" else 15):
        case = {"items": []}
        it = gen.enum(case, G.ident(rng.choice(G.RAW_NAMES), True) if rng.random() < 0.5 else nm(0), rng.sample(shapes_pool, 4), [], depth=0, p_adt=0,
                      raw_variants=0.7, raw_p=0.4)
        add("raw-variants", [it], [A(0)])
    for rep in range(4 if tier == "quick" else 10):
        case = {"items": []}
        it = gen.struct(case, nm(0), "named", rng.randrange(1, 5), [], depth=0, p_adt=0, raw_p=0.8)
        add("raw-fields", [it], [A(0)])
    # raw-named UNIT structs / unit variants (plus S() / S {}), top-level and nested in tuple/named structs and containers
    for rep in range(6 if tier == "quick" else 20):
        raws = rng.sample(G.RAW_NAMES, 5)
        items = [{"kind": "struct", "name": G.ident(raws[0], True), "params": [], "fields": {"kind": "unit", "list": []}},
                 {"kind": "enum", "name": G.ident(raws[1], True) if rep % 2 else nm(1), "params": [], "variants": [
                     {"name": G.ident(raws[2], True), "fields": {"kind": "unit", "list": []}},
                     {"name": G.ident(raws[3], True), "fields": {"kind": rng.choice(["tuple", "named"]), "list": []}},
                     {"name": G.ident("Plain"), "fields": {"kind": "unit", "list": []}}]}]
        case = {"items": items}
        outer_kind = ["tuple", "named"][rep % 2]
        names = [G.ident("u"), G.ident(raws[4], True), G.ident("w")]
        tys = [A(0), rng.choice([["vec", A(1)], ["opt", A(1)], ["tup", [A(1), A(0)]]]), A(1)]
        items.append({"kind": "struct", "name": nm(2), "params": [], "fields": {"kind": outer_kind, "list": [
            {"name": names[i] if outer_kind == "named" else None, "ty": tys[i], "attr": None} for i in range(3)]}})
        add("raw-unit", items, [A(0), A(1)])
        add("raw-unit-nested", items, [A(2), ["vec", A(2)]], per_variant=False, nvals=2)
    # --- B. nesting 3 deep, mixed with std containers
    for rep in range(30 if tier == "quick" else 200):
        case = {"items": []}
        items = case["items"]
        depth_n = 3 + (rep % 2)
        for lvl in range(depth_n):
            adts = list(range(len(items)))
            # make sure level k contains level k-1
            kind = rng.choice(["tuple", "tuple", "named", "enum"])
            if kind == "enum":
                it = gen.enum(case, nm(lvl), [("unit", 0), ("tuple", rng.randrange(1, 3)), ("named", rng.randrange(1, 3))], adts,
                              depth=1, p_adt=0.6)
            else:
                it = gen.struct(case, nm(lvl), kind, rng.randrange(1, 4), adts, depth=1, p_adt=0.6)
            if lvl > 0:
                fs = it["fields"] if it["kind"] == "struct" else it["variants"][1]["fields"]
                inner = A(lvl - 1)
                wrap = rng.choice([None, "vec", "opt", "tup", "box", None])
                fs["list"][0]["ty"] = inner if wrap is None else (["tup", [inner, gen.leaf_ty()]] if wrap == "tup" else [wrap, inner])
            items.append(it)
        top = A(depth_n - 1)
        root = rng.choice([top, top, ["vec", top], ["opt", top], ["tup", [top, ["leaf", "i32"]]]])
        add("nested", items, [root], per_variant=False, nvals=2)
    # --- C. skipped-field subsets vs hand-written finish_non_exhaustive
    for kind in ("tuple", "named"):
        for n in range(1, 5):
            masks = list(range(1, 2 ** n))
            if tier == "quick" and len(masks) > 5:
                masks = rng.sample(masks, 5)
            for mask in masks:
                case = {"items": []}
                it = gen.struct(case, nm(0), kind, n, [], depth=1, p_adt=0)
                for i, f in enumerate(it["fields"]["list"]):
                    if mask >> i & 1:
                        f["attr"] = [rng.choice(["skip", "ignore"])]
                add("skip-%s-%d" % (kind, n), [it], [A(0)])
    for rep in range(8 if tier == "quick" else 30):
        case = {"items": []}
        inner = gen.struct(case, nm(0), rng.choice(["tuple", "named"]), 2, [], depth=0, p_adt=0)
        case["items"].append(inner)
        it = gen.enum(case, nm(1), [("unit", 0), ("tuple", 3), ("named", 3), ("tuple", 1)], [0], depth=1, p_adt=0.5, raw_variants=0.2)
        for v in it["variants"]:
            gen.add_attrs(v["fields"], p_skip=0.4, p_fmt=0.0)
        case["items"].append(it)
        add("skip-enum", case["items"], [A(1)])
    # --- D. field-level formats vs hand-written format_args!
    for rep in range(30 if tier == "quick" else 120):
        case = {"items": []}
        inner = gen.struct(case, nm(0), rng.choice(["tuple", "tuple", "named"]), rng.randrange(1, 3), [], depth=0, p_adt=0)
        case["items"].append(inner)
        kind = rng.choice(["tuple", "named"])
        it = gen.struct(case, nm(1), kind, rng.randrange(1, 4), [0], depth=1, p_adt=0.4)
        gen.add_attrs(it["fields"], p_skip=0.15, p_fmt=0.6)
        if not G.has_attrs(it["fields"]):
            it["fields"]["list"][0]["attr"] = ["fmt", gen.pieces(it["fields"], 0)]
        case["items"].append(it)
        add("field-format", case["items"], [A(1)], nvals=1)
    # --- E. field-level formats that are exactly ONE placeholder (`{_0:?}`, `{:?}` + one argument, `{name:?}`, `{0:?}`,
    #        `{v0:?}`, also `{_0}` / `{:x}` / `{_0:#?}` ...) on fields whose output reacts to the outer formatter (nested
    #        structs for `#`, integers for `x?`/width/sign, floats for precision, padding-aware leaves): the literal must
    #        behave as `&format_args!(..)` - a fresh formatter - and never inherit the outer options
    reactive = [lambda: A(0), lambda: A(0), lambda: LT("i32"), lambda: LT("u8"), lambda: LT("f64"), lambda: ["vec", LT("i32")],
                lambda: ["opt", A(0)], lambda: ["tup", [LT("i32"), A(0)]], lambda: LT("Pad"), lambda: ["vec", A(0)],
                lambda: LT("i64"), lambda: LT("AltAware")]
    for rep in range(36 if tier == "quick" else 150):
        case = {"items": []}
        inner = gen.struct(case, nm(0), rng.choice(["tuple", "named"]), rng.randrange(1, 3), [], depth=0, p_adt=0)
        for f in inner["fields"]["list"]:
            f["ty"] = LT(rng.choice(["i32", "u8", "i32", "f64"]))
        case["items"].append(inner)
        shape = ["tuple", "named", "enum"][rep % 3]

        def mkfields(kind, n):
            names = gen.field_names(n, 0.15) if kind == "named" else [None] * n
            fs = {"kind": kind, "list": [{"name": names[i], "ty": rng.choice(reactive)(), "attr": None} for i in range(n)]}
            marked = rng.sample(range(n), rng.randrange(1, n + 1))
            for i in range(n):
                if i in marked:
                    fs["list"][i]["attr"] = ["fmt", gen.bare_pieces(fs, i, 0.45 if rep % 4 else 1.0)]
                elif rng.random() < 0.25:
                    fs["list"][i]["attr"] = [rng.choice(["skip", "ignore"])]
            return fs

        if shape == "enum":
            it = {"kind": "enum", "name": nm(1), "params": [], "variants": [
                {"name": G.ident("V0"), "fields": mkfields("tuple", rng.randrange(1, 4))},
                {"name": G.ident("V1"), "fields": mkfields("named", rng.randrange(1, 4))},
                {"name": G.ident("V2"), "fields": {"kind": "unit", "list": []}}]}
        else:
            it = {"kind": "struct", "name": nm(1), "params": [], "fields": mkfields(shape, rng.randrange(1, 4))}
        case["items"].append(it)
        add("bareformat-" + shape, case["items"], [A(1)], nvals=1)
    # --- F. skip/ignore markers COMBINED with field-level formats in every order (skip before / after / between
    #        formatted fields, several skips; tuple and named; structs and enum variants): the hand-written reference
    #        feeds &format_args!(..) to std's builder and closes with finish_non_exhaustive() iff any field is skipped
    import itertools
    pats = []
    for n in (2, 3, 4):
        ps = [p for p in itertools.product("psf", repeat=n) if "s" in p and "f" in p]     # p plain, s skip, f format
        if n == 4 and tier == "quick":
            ps = rng.sample(ps, 10)
        pats += ps
    simple_tys = ["i32", "u8", "i64", "f64", "str", "bool"]

    def pat_fields(kind, pat):
        n = len(pat)
        names = [G.ident("f%d" % i) for i in range(n)] if kind == "named" else [None] * n
        fs = {"kind": kind, "list": [{"name": names[i], "ty": A(0) if rng.random() < 0.2 else LT(rng.choice(simple_tys)), "attr": None}
                                      for i in range(n)]}
        for i, c in enumerate(pat):
            if c == "s":
                fs["list"][i]["attr"] = [rng.choice(["skip", "ignore"])]
            elif c == "f":
                fs["list"][i]["attr"] = ["fmt", gen.pieces(fs, i) if rng.random() < 0.7 else gen.bare_pieces(fs, i, 0.3)]
        return fs

    def inner_item():
        return {"kind": "struct", "name": nm(0), "params": [], "fields": {"kind": "tuple", "list": [
            {"name": None, "ty": LT("i32"), "attr": None}, {"name": None, "ty": LT("u8"), "attr": None}]}}

    for kind in ("tuple", "named"):
        # structs: one pattern per case; enums: the same patterns as variants, six to an enum
        for pat in pats:
            items = [inner_item(), {"kind": "struct", "name": nm(1), "params": [], "fields": pat_fields(kind, pat)}]
            add("skipfmt-%s-%s" % (kind, "".join(pat)), items, [A(1)])
        for k in range(0, len(pats), 6):
            vs = [{"name": G.ident("V%d" % i), "fields": pat_fields(kind, pat)} for i, pat in enumerate(pats[k:k + 6])]
            items = [inner_item(), {"kind": "enum", "name": nm(1), "params": [], "variants": vs}]
            add("skipfmt-enum-%s" % kind, items, [A(1)])
    # --- G. generic items: type / lifetime / const parameters, inline bounds AND user-written where clauses in all
    #        combinations; the derive must add its inferred `FieldTy: Debug` predicates to whatever the user wrote
    #        (compiled twice as usual: a missing bound is a compile error of the derive_more twin only)
    combos = [(lt, cn, inl, wh) for lt in (0, 1) for cn in (0, 1) for inl in (0, 1) for wh in (0, 1)]
    for rep, (lt, cn, inl, wh) in enumerate(combos * (2 if tier == "quick" else 6)):
        case = {"items": []}
        params = ["T", "U"][:1 + rep % 2] if (rep % 5) else []
        shape = ["tuple", "named", "enum"][rep % 3]
        if shape == "enum":
            it = gen.enum(case, nm(0), [("unit", 0), ("tuple", 2), ("named", 2)], [], params, depth=0, p_adt=0)
            if params:
                it["variants"][2]["fields"]["list"].append({"name": G.ident("more"), "ty": ["vec", ["param", params[0]]], "attr": None})
        else:
            it = gen.struct(case, nm(0), shape, max(len(params), 1) + rep % 2, [], params, depth=0, p_adt=0)
            if params and len(it["fields"]["list"]) > len(params):
                it["fields"]["list"][-1]["ty"] = rng.choice([["vec", ["param", params[-1]]], ["opt", ["param", params[0]]],
                                                               ["tup", [["leaf", "i32"], ["param", params[0]]]]])
        decorate_generics(rng, it, lt, cn, inl, wh)
        if rep % 4 == 3 and shape != "enum":          # some with a skipped field: the std twin is hand-written
            it["fields"]["list"][-1]["attr"] = [rng.choice(["skip", "ignore"])]
        args = [rng.choice(CLONEABLE) for _ in params]
        add("generics-lt%d-const%d-inline%d-where%d" % (lt, cn, inl, wh), [it], [A(0, args)])
    # --- H. `&'a X` next to a plainly printed `X` mentioning a type parameter (struct / enum, tuple / named, both orders):
    #        derive_more's predicates `X: Debug` and `&'a X: Debug` together make rustc reject the impl ("lifetime may not
    #        live long enough") while std's derive compiles - KNOWN FINDING `ref-to-param-bound-conflict`; if it is ever
    #        repaired these cases simply run like all others
    T_ = ["param", "T"]
    for xi, X in enumerate([T_, T_, ["vec", T_]] if tier == "quick" else [T_, T_, ["vec", T_], ["opt", T_], ["tup", [T_, LT("u8")]]]):
        for kind in ("tuple", "named"):
            for order in (0, 1):
                for as_enum in (0, 1):
                    if tier == "quick" and xi == 1 and (order + as_enum) % 2:
                        continue
                    tys = [X, ["lref", "'a", X]] if order == 0 else [["lref", "'a", X], X]
                    if xi == 1:
                        tys.append(LT("i32"))
                    fs = {"kind": kind, "list": [{"name": G.ident("f%d" % i) if kind == "named" else None, "ty": t, "attr": None}
                                                 for i, t in enumerate(tys)]}
                    if as_enum:
                        it = {"kind": "enum", "name": nm(0), "params": ["T"], "variants": [
                            {"name": G.ident("V0"), "fields": {"kind": "unit", "list": []}}, {"name": G.ident("V1"), "fields": fs}]}
                    else:
                        it = {"kind": "struct", "name": nm(0), "params": ["T"], "fields": fs}
                    it["generics"] = {"lts": ["'a"], "consts": [], "inline": {}, "where": []}
                    add("refparam-%s-%s" % ("enum" if as_enum else "struct", kind), [it], [A(0, [LT(rng.choice(["i32", "u8", "str"]))])])
    # --- I. field types that are qualified paths: the type parameter ONLY in the trait's arguments (`<Heap as Storage<T>>::Of`),
    #        ONLY in the associated type's own arguments (`<Heap as Family>::Of<T>`), ONLY in the self type
    #        (`<Vec<T> as Plain>::Out`), `T::Assoc`, and a concrete control (`<Heap as Storage<i32>>::Of`); each needs its
    #        `FieldTy: Debug` predicate or the derive_more twin does not compile while std's does
    P = ["param", "T"]
    qtys = [["qpath", "trait-arg", P], ["qpath", "gat-arg", P], ["qpath", "self-ty", P], ["assoc", "T"],
            ["vec", ["qpath", "trait-arg", P]], ["qpath", "gat-arg", ["vec", P]]]
    control = ["qpath", "trait-arg", LT("i32")]
    for qi, qt in enumerate(qtys):
        for kind in (("tuple", "named", "enum") if tier != "quick" else (("tuple", "named", "enum")[qi % 3], ("tuple", "named", "enum")[(qi + 1) % 3])):
            tys = [qt] if qi % 2 == 0 else [qt, rng.choice([control, LT("u8"), P])]
            fkind = "tuple" if kind == "enum" and qi % 2 else ("named" if kind == "enum" else kind)
            fs = {"kind": fkind, "list": [{"name": G.ident("f%d" % i) if fkind == "named" else None, "ty": t, "attr": None}
                                          for i, t in enumerate(tys)]}
            if kind == "enum":
                it = {"kind": "enum", "name": nm(0), "params": ["T"], "variants": [
                    {"name": G.ident("V0"), "fields": {"kind": "unit", "list": []}}, {"name": G.ident("V1"), "fields": fs}]}
            else:
                it = {"kind": "struct", "name": nm(0), "params": ["T"], "fields": fs}
            if qt == ["assoc", "T"]:
                it["generics"] = {"lts": [], "consts": [], "inline": {"T": ["crate::HasAssoc"]}, "where": []}
                arg = LT(rng.choice(["i32", "String"]))
            else:
                if qi % 3 == 0:
                    it["generics"] = {"lts": [], "consts": [], "inline": {}, "where": ["T: Clone"]}
                arg = rng.choice([LT("i32"), LT("str"), ["vec", LT("u8")]])
            add("qpath-%s" % kind, [it], [A(0, [arg])])
    return cases


CLONEABLE = [["leaf", "i32"], ["leaf", "u8"], ["leaf", "f64"], ["leaf", "str"], ["leaf", "String"], ["leaf", "bool"], ["leaf", "char"],
             ["vec", ["leaf", "i32"]], ["opt", ["leaf", "u8"]], ["leaf", "ML"], ["leaf", "AltAware"], ["leaf", "Pad"], ["leaf", "Edge"],
             ["tup", [["leaf", "i32"], ["leaf", "str"]]], ["box", ["leaf", "i64"]]]


def decorate_generics(rng, it, lt=False, const=False, inline=False, where=False):
    """add a lifetime / const parameter (each used by a new field), inline bounds and a user-written where clause"""
    def target_fields():
        if it["kind"] == "struct":
            return it["fields"] if it["fields"]["kind"] != "unit" else None
        for v in it["variants"]:
            if v["fields"]["kind"] != "unit":
                return v["fields"]
        return None

    def add_field(t):
        fs = target_fields()
        fs["list"].append({"name": G.ident("g%d" % len(fs["list"])) if fs["kind"] == "named" else None, "ty": t, "attr": None})

    g = {"lts": [], "consts": [], "inline": {}, "where": []}
    ps = it["params"]
    if target_fields() is not None:
        if lt:
            g["lts"].append("'a")
            # NOT `&'a T` next to a plainly printed `T`: derive_more's predicates `T: Debug` and `&'a T: Debug` together make
            # rustc pick the where-clause candidate for `&'_ T: Debug` and reject the impl ("lifetime may not live long
            # enough") although std's derive compiles - reported to the coordinator as class `ref-to-param-bound-conflict`
            # and held back from the corpus until it is fixed or listed
            add_field(["lref", "'a", ["opt", ["box", ["param", ps[0]]]] if ps and rng.random() < 0.6 else ["leaf", "i32"]])
        if const:
            g["consts"].append(["N", 2])
            add_field(["carr", ["param", ps[-1]] if ps and rng.random() < 0.6 else ["leaf", "u8"], "N", 2])
    traits = ["Clone", "Default", "PartialEq"]
    if inline and ps:
        for p_ in ps:
            if rng.random() < 0.7:
                g["inline"][p_] = rng.sample(traits, rng.randrange(1, 3))
        if not g["inline"]:
            g["inline"][ps[0]] = ["Clone"]
    if where and ps:
        for p_ in rng.sample(ps, rng.randrange(1, len(ps) + 1)):
            g["where"].append("%s: %s" % (p_, " + ".join(rng.sample(traits, rng.randrange(1, 3)))))
        if rng.random() < 0.4:
            g["where"].append("Vec<%s>: Clone" % ps[0])
        if g["lts"] and rng.random() < 0.5:
            g["where"].append("%s: 'a" % ps[0])
    elif where and g["consts"]:
        g["where"].append("[u8; N]: Clone")
    it["generics"] = g
    return it


def bare_some(gen, rng, fs, p=0.3):
    """turn some of the field-level formats of fs into single-placeholder literals"""
    for i, f in enumerate(fs["list"]):
        if f["attr"] and f["attr"][0] == "fmt" and rng.random() < p:
            f["attr"] = ["fmt", gen.bare_pieces(fs, i)]


def extra_decision_items(gen, rng, n):
    """items exercised only through the in-process expansion (decision tie): no values"""
    out = []
    shapes_pool = [("unit", 0), ("tuple", 0), ("named", 0), ("tuple", 1), ("tuple", 2), ("tuple", 3), ("named", 1), ("named", 2), ("named", 4)]
    for k in range(n):
        case = {"items": []}
        name = G.ident(rng.choice(G.RAW_NAMES), True) if rng.random() < 0.3 else G.ident("X%d" % k)
        if rng.random() < 0.3:
            # generic items (also with skip / format attributes): exercised for generate_bounds
            params = ["T", "U"][:rng.randrange(1, 3)]
            kind = rng.choice(["tuple", "named"])
            it = gen.struct(case, name, kind, rng.randrange(len(params), 6), [], params, depth=1, p_adt=0)
            for f in it["fields"]["list"][len(params):]:
                if rng.random() < 0.4:
                    f["ty"] = rng.choice([["vec", ["param", "T"]], ["opt", ["param", params[-1]]], ["tup", [["leaf", "i32"], ["param", "T"]]],
                                          ["box", ["param", "T"]], ["arr", ["param", params[-1]], 2]])
            for f in it["fields"]["list"][len(params):]:
                if rng.random() < 0.25:
                    f["ty"] = rng.choice([["qpath", "trait-arg", ["param", "T"]], ["qpath", "gat-arg", ["param", params[-1]]],
                                          ["qpath", "self-ty", ["param", "T"]], ["qpath", "trait-arg", ["leaf", "i32"]],
                                          ["qpath", "gat-arg", ["vec", ["param", "T"]]], ["opt", ["qpath", "self-ty", ["leaf", "u8"]]]])
            gen.add_attrs(it["fields"], p_skip=rng.choice([0, 0.3]), p_fmt=rng.choice([0, 0.3]))
            bare_some(gen, rng, it["fields"])
            decorate_generics(rng, it, rng.random() < 0.3, rng.random() < 0.3, rng.random() < 0.4, rng.random() < 0.6)
            # every type parameter must still be used by some field: guaranteed by must_use (attributes do not remove fields)
            case["items"].append(it)
            out.append(case)
            continue
        if rng.random() < 0.5:
            kind = rng.choice(["unit", "tuple", "named"])
            it = gen.struct(case, name, kind, rng.randrange(0, 6), [], depth=0, p_adt=0, **({"raw_p": 0.3} if kind == "named" else {}))
            gen.add_attrs(it["fields"], p_skip=rng.choice([0, 0.3]), p_fmt=rng.choice([0, 0.3]))
            bare_some(gen, rng, it["fields"])
        else:
            it = gen.enum(case, name, rng.sample(shapes_pool, rng.randrange(1, 6)), [], depth=0, p_adt=0, raw_variants=0.3, raw_p=0.3)
            for v in it["variants"]:
                gen.add_attrs(v["fields"], p_skip=rng.choice([0, 0.3]), p_fmt=rng.choice([0, 0.3]))
                bare_some(gen, rng, v["fields"])
        case["items"].append(it)
        out.append(case)
    return out


# ------------------------------------------------------------------ the check

def item_units(it):
    """[(name ident, fields)] : the struct itself or each variant"""
    if it["kind"] == "struct":
        return [(it["name"], it["fields"])]
    return [(v["name"], v["fields"]) for v in it["variants"]]


def item_source(case, it):
    return G.item_rs(case, it, True, derive=False).replace("pub ", "")


def decision_tie(chk, inproc, cases, sites):
    """Coq generate_body vs the real expansion, for every item of every case"""
    work = []
    for ci, case in enumerate(cases):
        for ii, it in enumerate(case["items"]):
            work.append((ci, ii, case, it))
    reqs = [{"cmd": "expand", "derive": "Debug", "item": item_source(case, it)} for (_, _, case, it) in work]
    resps = common.run_jsonl(inproc, reqs)
    exprs = []
    for (_, _, case, it) in work:
        for (name, fs) in item_units(it):
            exprs.append("generate_body %s %s" % (sites_coq(sites), G.expansion_coq(name, fs)))
    terms = common.coq_eval(["Verif.C06.Model"], exprs, batch=300, tag="c06d")
    bexprs = [G.item_where_coq(it, case) for (_, _, case, it) in work]
    bterms = common.coq_eval(["Verif.C06.Model"], bexprs, batch=300, tag="c06b")
    wi = 0
    bad_items = set()
    k = 0
    n = 0
    for (ci, ii, case, it), r in zip(work, resps):
        units = item_units(it)
        mts = terms[k:k + len(units)]
        wt = bterms[wi]
        wi += 1
        k += len(units)
        src = item_source(case, it)
        if "ok" not in r:
            bad_items.add((ci, ii))
            chk.violation("expand-error", {"item": src, "response": r}, "derive_more::Debug does not expand on %s: %s" % (src, str(r)[:200]))
            continue
        try:
            body = [m for i in r["items"] for m in i["members"] if m["kind"] == "fn"][0]["body"]
            real = parse_expansion(body, it)
            assert len(real) == len(units)
            real = [real_canon(ch, fs) for ch, (_, fs) in zip(real, units)]
        except Exception as e:      # the expansion no longer has the shape the parser knows: the tie is broken
            chk.violation("tie-expansion-shape", {"item": src, "error": repr(e), "expansion": r.get("ok")},
                          "cannot read the real expansion of %s as builder calls: %r" % (src, e), no_input=True)
            continue
        # generate_bounds: the model's predicates (per struct / variant, in order) vs the where clause of the real expansion
        inv = {v: kk for kk, v in G.TRAIT_COQ.items()}
        want_where = []
        user_where = (it.get("generics") or {}).get("where", [])
        for wp in wt:          # Model.impl_where_clause: WUser k | WField (unit, (field, trait)), in order
            if wp[0] == "WUser":
                want_where.append(user_where[wp[1]].replace(" ", ""))
            else:
                (u_, (j, tr)) = wp[1]
                want_where.append((G.ty_rs(case, units[u_][1]["list"][j]["ty"]) + ":derive_more::core::fmt::" + inv[tr]).replace(" ", ""))
        got_where = [w_.replace(" ", "") for i_ in r["items"] for w_ in i_.get("where", [])]
        chk.bump("bounds:%s%s" % ("some" if len(want_where) > len(user_where) else "none", "+user-where" if user_where else ""))
        if want_where != got_where:
            chk.violation("tie-bounds-model", {"item": src, "model": want_where, "real": got_where},
                          "Coq generate_bounds disagrees with the where clause of the real expansion of %s: model %s, real %s" % (src, want_where, got_where))
        # oracle (python's own reading): a generic type of a plainly printed field must be bounded by Debug, and a skipped
        # field's type must not be bounded on its own account
        for (name, fs) in units:
            for f in fs["list"]:
                pred = (G.ty_rs(case, f["ty"]) + ":derive_more::core::fmt::Debug").replace(" ", "")
                if f["attr"] is None and G.ty_generic(f["ty"]) and pred not in got_where:
                    chk.violation("missing-debug-bound", {"case": dict(case, values=case.get("values", []), tag=case.get("tag", "extra")), "item": src, "missing": pred},
                                  "the generic type of a printed field has no Debug bound in the expansion of %s: %s" % (src, pred))
        for (name, fs), rc, mt in zip(units, real, mts):
            n += 1
            mc = model_canon(mt)
            chk.bump("decision:" + rc[0] + (":non_exhaustive" if not rc[3] else ""))
            if mc != rc:
                chk.violation("tie-decision-model", {"case": dict(case, values=case.get("values", []), tag=case.get("tag", "extra")), "item": src, "unit": name, "model": mc, "real": rc},
                              "Coq generate_body disagrees with the real expansion on %s (%s): model %s, real %s" % (src, name["n"], mc, rc))
            # the decision-level oracle for field-level formats: the value handed to the builder must be
            # `&format_args!(<the attribute>)` (a fresh formatter), never the field itself
            for (fname, val) in rc[2]:
                if val[0] == "field" and fs["list"][val[1]]["attr"] and fs["list"][val[1]]["attr"][0] == "fmt":
                    chk.violation("field-format-not-format-args",
                                  {"case": dict(case, values=case.get("values", []), tag=case.get("tag", "extra")), "item": src,
                                   "unit": name, "field_index": val[1], "attribute": G.fmt_attr_tokens(fs, fs["list"][val[1]]["attr"][1])},
                                  "field %d of `%s` in %s carries #[debug(%s)] but the expansion hands the field itself to the "
                                  "builder instead of &format_args!(..): it will be formatted with the outer formatter's options" % (
                                      val[1], G.id_rs(name), src, G.fmt_attr_tokens(fs, fs["list"][val[1]]["attr"][1])))
            # the decision-level oracle for the closing call: finish_non_exhaustive() iff some field is skipped
            if rc[0] != "unit":
                want_ex = not any(f["attr"] and f["attr"][0] in ("skip", "ignore") for f in fs["list"])
                if rc[3] != want_ex:
                    chk.violation("finish-kind-wrong",
                                  {"case": dict(case, values=case.get("values", []), tag=case.get("tag", "extra")), "item": src, "unit": name,
                                   "expansion_closes_with": "finish" if rc[3] else "finish_non_exhaustive"},
                                  "`%s` in %s: the expansion closes the builder with %s() but %s" % (
                                      G.id_rs(name), src, "finish" if rc[3] else "finish_non_exhaustive",
                                      "a field is skipped (`..` must be printed)" if rc[3] else "no field is skipped"))
            # the decision-level oracle for names: std prints the identifier without r#
            if rc[1] != name["n"]:
                chk.violation("raw-ident-name-literal", {"case": dict(case, values=case.get("values", []), tag=case.get("tag", "extra")), "item": src, "unit": name, "printed_name": rc[1], "std_name": name["n"]},
                              "name literal %r emitted for `%s` (std's derive uses %r)" % (rc[1], G.id_rs(name), name["n"]))
            for (fname, _), f in zip(rc[2], [f for f in fs["list"] if not (f["attr"] and f["attr"][0] in ("skip", "ignore"))]):
                if fname is not None and fname != f["name"]["n"]:
                    chk.violation("raw-ident-name-literal", {"case": dict(case, values=case.get("values", []), tag=case.get("tag", "extra")), "item": src, "field": f["name"], "printed_name": fname},
                                  "field name literal %r emitted for `%s`" % (fname, G.id_rs(f["name"])))
    return n, bad_items


HASH_M = 2 ** 61 - 1


def text_hash(s):
    h = 7
    for c in s:
        h = (h * 257 + ord(c) + 1) & HASH_M
    return h


def flat3(t):
    """Coq ((a, b), c) or (a, b, c) -> (a, b, c)"""
    return (t[0][0], t[0][1], t[1]) if len(t) == 2 else tuple(t)


_NE = [(re.compile(r"\n *\.\.\n"), "\n"), (re.compile(r", \.\.\)"), ")"), (re.compile(r"\(\.\.\)"), ""),
       (re.compile(r", \.\. \}"), " }"), (re.compile(r" \{ \.\. \}"), "")]


def strip_non_exhaustive(t):
    """the text with every `..` marker a builder's finish_non_exhaustive() writes removed"""
    for rx, rep in _NE:
        t = rx.sub(rep, t)
    return t


def has_ref_param_conflict(it):
    """a plainly printed field of type `&'lt X` next to a plainly printed field of type `X`, X mentioning a type parameter"""
    units = [it["fields"]] if it["kind"] == "struct" else [v["fields"] for v in it["variants"]]
    for fs in units:
        plain = [f["ty"] for f in fs["list"] if f["attr"] is None]
        for t in plain:
            if t[0] == "lref" and G.ty_generic(t[2]) and any(u == t[2] for u in plain):
                return True
    return False


def mode_of(spec):
    if not spec["alt"]:
        return "compact"
    return "pretty-only" if spec == G.TOP[1] else "pretty-with-options"


def run(tier, seed, replay):
    chk = common.Check("C06", tier, seed)
    rng = chk.rng
    inproc = common.build_inproc()
    read_sites, site_lines, site_problems = read_name_sites()
    chk.notes.append("name sites read from debug.rs (unraw applied? None = not recognised): %s at lines %s" % (read_sites, site_lines))
    st = common.check_proofs(chk, "C06")
    # Model.current_sites (what the theorems about the current tree are stated for) must be what the source says
    try:
        cs = common.coq_eval(["Verif.C06.Model"], ["current_sites"], tag="c06s")[0]
        model_sites = {k: cs[k + "_unraw"] == "true" for k in ("unit", "tuple", "named", "field")}
    except Exception as e:       # Model.v does not build: check_proofs has already recorded that
        model_sites = None
        chk.notes.append("current_sites could not be evaluated: %r" % (e,))
    fallback = model_sites or {"unit": True, "tuple": True, "named": True, "field": True}
    # fail-soft: unreadable sites take the model's value, the broken tie is recorded, the differential run goes on
    sites = {k: (fallback[k] if v is None else v) for k, v in read_sites.items()}
    if site_problems:
        chk.violation("tie-name-sites", {"problems": site_problems, "debug_rs_reading": read_sites, "model_current_sites": model_sites},
                      "the name sites of generate_body are no longer in a form the translator recognises (%s); continuing with "
                      "Model.current_sites for them - see the run-time classes for a concrete failing input" % "; ".join(site_problems),
                      no_input=True)
    elif model_sites is not None and model_sites != read_sites:
        chk.violation("tie-name-sites", {"model_current_sites": model_sites, "debug_rs": read_sites, "lines": site_lines},
                      "Model.current_sites %s is not what debug.rs does now %s (lines %s); the differential run below uses "
                      "the source's reading" % (model_sites, read_sites, site_lines), no_input=True)

    leaves = G.Leaves()
    gen = G.Gen(rng, leaves)
    if replay:
        rp = json.load(open(replay))["replay"]
        cases = [rp["case"]]
        for (key, expr) in rp.get("leaves", []):
            leaves.get(key, expr)
        extra = []
    else:
        cases = build_cases(gen, rng, tier)
        extra = extra_decision_items(gen, rng, 600 if tier == "quick" else 6000)
    chk.log("%d cases (%d values), %d extra items for the decision tie" % (
        len(cases), sum(len(c["values"]) for c in cases), len(extra)))

    # ---- tie 2: decision logic (also pre-screens the items that go into the crate)
    n_dec, bad = decision_tie(chk, inproc, cases + extra, sites)
    chk.log("decision tie on %d structs/variants" % n_dec)
    bad_cases = {ci for (ci, _) in bad if ci < len(cases)}
    live = [ci for ci in range(len(cases)) if ci not in bad_cases]

    # ---- the real macro: one generated crate
    name = "c06_rt"

    def attempt_build(cur, crate_name, last=False):
        """build+run a crate holding the cases `cur`; on a compile error classify per case.  -> (ok, stdout, dropped cases)"""
        src = G.main_rs([cases[ci] for ci in cur], leaves)
        d = common.make_crate(crate_name, src)
        rc, err, out = common.run_crate(d, crate_name)
        if rc == 0 and out is not None:
            return True, out, {}
        # a compile error kills the whole crate: find the case modules the error spans point into
        where = {}
        flavour, cid = None, None
        for ln, line in enumerate(src.splitlines(), 1):
            m = re.match(r"pub mod (dm|sd) \{", line)
            if m:
                flavour = m.group(1)
            m = re.match(r"pub mod c(\d+) \{", line)
            if m:
                cid = int(m.group(1))
            if flavour and cid is not None:
                where[ln] = (flavour, cid)
        hit = {}
        kinds = {}
        for block in re.split(r"\n(?=error)", err or ""):
            m = re.search(r"--> src/main\.rs:(\d+):", block)
            if not m or int(m.group(1)) not in where:
                continue
            fl, c = where[int(m.group(1))]
            hit.setdefault(cur[c], set()).add(fl)
            kind = ("lifetime" if "lifetime may not live long enough" in block else
                    "e0283" if "E0283" in block else
                    "e0277-debug" if "E0277" in block and "Debug" in block else "other")
            kinds.setdefault(cur[c], set()).add(kind)
        if not hit or last:
            os.makedirs(os.path.join(common.BUILD, "c06"), exist_ok=True)
            keep = os.path.join(common.BUILD, "c06", "failed_main.rs")
            open(keep, "w").write(src)
            raise common.BuildError("C06 generated crate does not build/run (source kept at %s):\n%s" % (keep, (err or "")[-3000:]))
        for ci, fls in hit.items():
            case = cases[ci]
            rep = {"case": case, "leaves": [list(x) for x in leaves.items], "flavours": sorted(fls), "error_kinds": sorted(kinds[ci]),
                   "items_rust": [G.item_rs(case, it, True) for it in case["items"]], "rustc": (err or "")[-1500:]}
            if fls == {"dm"}:
                # the known class is exactly: only lifetime / E0283 errors, on an item holding `&'lt X` next to a plain `X`
                # that mentions a type parameter
                if kinds[ci] <= {"lifetime", "e0283"} and any(has_ref_param_conflict(it) for it in case["items"]):
                    cls = "ref-to-param-bound-conflict"
                elif kinds[ci] == {"e0277-debug"}:
                    cls = "missing-debug-bound"
                else:
                    cls = "dm-expansion-does-not-compile"
                chk.violation(cls, rep, "only the derive_more twin of %s fails to compile (%s)" % (rep["items_rust"], ", ".join(sorted(kinds[ci]))))
            else:
                chk.violation("generator-compile-error", rep, "generated case does not compile under std's derive either: %s" % rep["items_rust"], no_input=True)
        return False, None, hit

    # the cases of the known compile-time finding go through a small crate of their own first (fails fast in type
    # checking), so that the big crate is normally built once; if they ever compile they stay in the big crate
    pre = [ci for ci in live if any(has_ref_param_conflict(it) for it in cases[ci]["items"])]
    if pre:
        ok_, _, hit = attempt_build(pre, "c06_rt_pre")
        common.cleanup_scratch("c06_rt_pre")
        live = [ci for ci in live if ci not in hit]
    for attempt in range(3):
        ok_, out, hit = attempt_build(live, name, last=(attempt == 2))
        if ok_:
            break
        live = [ci for ci in live if ci not in hit]
    obs = {}
    ltab = {}
    for line in out.splitlines():
        p = line.split("\t")
        if p[0] == "V":
            obs[(p[1], live[int(p[2])], int(p[3]), int(p[4]))] = G.unesc(p[5] if len(p) > 5 else "")
        elif p[0] == "L":
            ltab.setdefault((int(p[1]), p[2]), {})[int(p[3])] = G.unesc(p[4] if len(p) > 4 else "")
    common.cleanup_scratch(name)
    chk.log("crate ran: %d observations, %d leaf tables" % (len(obs), len(ltab)))

    # ---- tie 1: the model's text
    pre = []
    for tr, cfgs in G.CFGS.items():
        for k, sp in enumerate(cfgs):
            pre.append("Definition %s := %s." % (G.cfg_name(tr, k), G.spec_coq(sp)))
    pre.append("Definition TOPS := [%s]." % "; ".join(G.cfg_name("Debug", k) for k in range(len(G.TOP))))
    for (lid, tr), tab in sorted(ltab.items()):
        rows = []
        for k, text in sorted(tab.items()):
            rows.append("(%s, %s)" % (G.cfg_name(tr, k), coq_str(text.replace("\x01ERR", ""))))
        pre.append("Definition LT%d_%s : list (cfg * str) := [%s]." % (lid, tr, "; ".join(rows)))
    # texts are compared through (length, polynomial hash, result): printing kilobytes of code points is what costs
    pre.append("Definition HM : N := %d." % HASH_M)
    pre.append("Definition hash (s : str) : N := fold_left (fun h c => N.land (h * 257 + c + 1) HM) s 7.")
    pre.append("Definition R (v : val) := map (fun c => let r := render_res v c in (length (fst r), hash (fst r), snd r)) TOPS.")
    pre.append("Definition RT (v : val) := map (render_res v) TOPS.")
    pre.append("Definition SF (v : val) := map (fun c => safeb c v) TOPS.")
    jobs = []
    exprs = []
    cur = sites_coq(sites)
    for ci in live:
        case = cases[ci]
        for vi, vv in enumerate(case["values"]):
            # ONE program term; Model.dm_val / Model.std_val are the two sides (generate_body_now at every derive_more node,
            # std's derive or the hand-written reference on the std side)
            D = G.dval_coq(case, leaves, vv["v"])
            exprs.append("(let d := %s in (R (dm_val d), R (std_val d), map (known_class d) TOPS))" % D)
            jobs.append((ci, vi))
    terms = common.coq_eval(["Verif.Base.Chars", "Verif.C06.Model"], exprs, preamble="\n".join(pre), batch=max(8, (len(exprs) + 15) // 16), tag="c06t")
    chk.log("model evaluated on %d values x %d specs x 2 flavours" % (len(jobs), len(G.TOP)))

    def mtext(t):
        return py_str(t[0]) + ("" if t[1] == "true" else "\x01ERR")

    def sig(text):
        """what R prints for a real text"""
        ok = not text.endswith("\x01ERR")
        body = text[:-4] if not ok else text
        return (len(body), text_hash(body), "true" if ok else "false")

    # second pass: full model texts, only where a signature differs from the real text (expected: nowhere)
    full = {}
    want = []
    for (ci, vi), t, e in zip(jobs, terms, exprs):
        mdm, msd = t[0], t[1]
        for k in range(len(G.TOP)):
            rdm, rsd = obs.get(("dm", ci, vi, k)), obs.get(("sd", ci, vi, k))
            if rdm is None or rsd is None:
                continue
            if flat3(mdm[k]) != sig(rdm) or flat3(msd[k]) != sig(rsd):
                want.append((ci, vi))
                break
    want = want[:24]
    if want:
        ex2 = []
        for (ci, vi) in want:
            vv = cases[ci]["values"][vi]
            ex2.append("(let d := %s in (RT (dm_val d), RT (std_val d)))" % G.dval_coq(cases[ci], leaves, vv["v"]))
        for key, t2 in zip(want, common.coq_eval(["Verif.Base.Chars", "Verif.C06.Model"], ex2, preamble="\n".join(pre), batch=2, tag="c06f")):
            full[key] = t2

    n_tie = 0
    for (ci, vi), t in zip(jobs, terms):
        case = cases[ci]
        vv = case["values"][vi]
        mdm, msd, mkc = t
        mfx = None
        nfields = G.value_printed_fields(case, vv["v"])
        rootk = G.value_root_kind(case, vv["v"])
        for k, spec in enumerate(G.TOP):
            rdm = obs.get(("dm", ci, vi, k))
            rsd = obs.get(("sd", ci, vi, k))
            if rdm is None or rsd is None:
                chk.violation("missing-observation", {"case": case, "value": vi, "spec": G.TOP_TXT[k]}, "no output line", no_input=True)
                continue
            mode = mode_of(spec)
            chk.count((G.canon(case), vi, k), nfields > 0)
            chk.bump("spec:" + G.TOP_TXT[k])
            chk.bump("shape:" + case["tag"].split("-")[0] + ":" + mode)
            dm_same, sd_same = flat3(mdm[k]) == sig(rdm), flat3(msd[k]) == sig(rsd)
            if (ci, vi) in full:
                pdm, psd = mtext(full[(ci, vi)][0][k]), mtext(full[(ci, vi)][1][k])
            else:
                pdm = rdm if dm_same else "<model text differs (signature %s); not fetched>" % (flat3(mdm[k]),)
                psd = rsd if sd_same else "<model text differs (signature %s); not fetched>" % (flat3(msd[k]),)
            safe = mkc[k] != "true"         # Model.known_class d c = negb (safeb c (dm_val d))
            rep = {"case": case, "leaves": [list(x) for x in leaves.items], "value_index": vi, "spec": G.TOP_TXT[k],
                   "value_rust": G.val_rs(case, leaves, vv["v"]), "type_rust": G.ty_rs(case, vv["ty"]),
                   "items_rust": [G.item_rs(case, it, True) for it in case["items"]],
                   "derive_more": rdm, "std": rsd, "model_derive_more": pdm, "model_std": psd, "model_safeb": safe}
            tie_ok = True
            n_tie += 2
            if pdm != rdm:
                tie_ok = False
                chk.violation("tie-text-model-dm", rep, "Coq model of derive_more's output disagrees with the real macro: %s of %s: model %r, real %r" % (
                    G.TOP_TXT[k], rep["value_rust"], pdm, rdm))
            if psd != rsd:
                tie_ok = False
                chk.violation("tie-text-model-std", rep, "Coq model of std's output disagrees with std: %s of %s: model %r, real %r" % (
                    G.TOP_TXT[k], rep["value_rust"], psd, rsd))
            # ---- the oracle: byte-for-byte against std
            if rdm != rsd:
                causes = []
                if rdm.endswith("\x01ERR") != rsd.endswith("\x01ERR"):
                    # model-independent: one side returns Err(fmt::Error) from `fmt`, the other Ok(())
                    causes.append("fmt-result-mismatch")
                elif strip_non_exhaustive(rdm) == strip_non_exhaustive(rsd):
                    # model-independent: the two texts differ only in `..` markers (finish vs finish_non_exhaustive)
                    causes.append("non-exhaustive-marker-mismatch")
                elif G.value_has_raw(case, vv["v"]) and rdm.replace("r#", "") == rsd:
                    # model-independent: the only difference is an `r#` prefix on a name
                    causes.append("raw-ident-name")
                elif tie_ok:
                    # all three model signatures equal the real ones here, so compare signatures
                    fixed = flat3(mfx[k]) if mfx else flat3(mdm[k])
                    if fixed != flat3(mdm[k]):
                        causes.append("raw-ident-name")
                    if not safe and fixed != flat3(msd[k]):
                        causes.append("tuple-pretty-with-options")
                    if safe and fixed != flat3(msd[k]):
                        causes = []        # the model itself says equal-when-safe: cannot happen if the proofs hold
                if not causes:
                    causes = ["%s:%s:%s" % ("field-format-mismatch" if G.value_has_fmt_attr(case, vv["v"]) else "mismatch", mode, rootk)]
                for cls in causes:
                    chk.violation(cls, rep, "format!(\"%s\", %s): derive_more prints %r, std prints %r" % (
                        G.TOP_TXT[k], rep["value_rust"], rdm, rsd))
            elif not safe and tie_ok:
                chk.bump("unsafe-but-equal")
            if len(chk.cov["samples"]) < 10 and nfields > 1 and k in (1, 4, 9):
                chk.sample({"type": rep["items_rust"], "value": rep["value_rust"], "spec": G.TOP_TXT[k], "derive_more": rdm, "std": rsd})
    chk.cov["traces_validated_against_impl"] = n_tie + n_dec

    if getattr(chk, "proof_broken", False) and not chk.violations:
        chk.violation("proof-broken", chk.proof_failure, "a C06 proof obligation no longer checks: %s" %
                      chk.proof_failure["failed"], no_input=True)
    elif getattr(chk, "proof_broken", False):
        chk.notes.append("proof obligation broken at %s; failing inputs found by the differential run" % chk.proof_failure["failed"])

    return chk.finish(
        proof=st,
        rule="shapes: unit, S(), S {}, 1..4 tuple/named fields over 16 leaf types (ints, floats, strings, chars, (), hand-written "
             "multi-line/padding/alternate-aware/chunked/write!/failing Debug impls), enums mixing variant kinds, generics, raw "
             "identifiers for type/variant/field names, derive_more types nested 3-4 deep through Vec/Option/tuple/Box/array, all "
             "(quick: sampled) subsets of skipped fields vs hand-written finish_non_exhaustive chains, field-level formats vs "
             "hand-written format_args!; every value under 11 specs; each definition compiled twice (derive_more / std); "
             "+ random items through the in-process expansion for the decision tie; non-trivial = at least one builder field "
             "is printed; distinct by (case, value, spec)",
        trusted=TRUSTED,
        extra={"name_sites": sites, "name_sites_read": read_sites, "name_site_lines": site_lines, "specs": G.TOP_TXT})


META = {
    "level": "proof",
    "technique": "Coq proof that derive_more's DebugTuple/Padded equals core's DebugTuple/PadAdapter (compact: all options; pretty: "
                 "alternate only; refuted otherwise) + real-macro differential run against std's derive",
    "text": "Theorems over all field lists, names, formatter configurations, writers (any stack of pad adapters) and value trees of "
            "any depth about an executable Gallina transcription of core::fmt::builders, src/fmt.rs and debug.rs generate_body: "
            "chunking irrelevance of padded writing, builder equality in compact mode for every option and in pretty mode when "
            "only `alternate` is set, finish_non_exhaustive, named/unit decision logic = std's derive; the full statement is "
            "refuted in the model (pretty + any other option on a tuple shape) and the exception class is proved exact; "
            "raw-identifier names are proved to print without r# for the current tree. Each run compiles every generated shape twice (derive_more / std) and compares 11 specs byte-for-byte, "
            "and ties the model's predicted text and builder decisions to the real macro.",
    "note": "End-to-end theorem C06_end_to_end: outside known_class (tuple shape + pretty + another option) a program deriving "
            "derive_more::Debug prints what the std-derived / hand-written-reference twin prints. Partial: `{:#x?}`-like configurations on tuple structs/variants differ from std (known finding, no repair at MSRV); "
            "leaf Debug impls are opaque (texts measured); enums: arm selection trusted.",
    "design_ref": "DESIGN.md section 2 / C06",
}
