"""C13 - FromStr: newtypes delegate to the field, enums match variant names.

proofs : coq/theories/C13 (the generated match returns V iff the documented rule selects V, for all variant lists
         and all strings, any hash-map iteration order; newtype delegation), three switches re-read from the source
tie    : Coq model of impl/src/from_str.rs  vs  (a) the in-process expander (arms, guards, error name, newtype body)
         and (b) the REAL derive compiled by rustc and run on all strings up to a length bound + longer ones
oracle : an independent Python implementation of the documented rule (enums); the field type's own `parse`
         executed by the same program (newtypes)
"""
import json
import os
import re
import subprocess

from lib import common
from lib import c13_gen as G
from lib import c12_gen as G12          # shared fail-soft readers (parse_diags, build_dropping, unreadable_class)

TRUSTED = [
    "Coq 8.16.1 kernel + vm_compute (coqc full .vo build); no axioms (Print Assumptions: closed)",
    "hand-written Gallina model coq/theories/C13/Model.v (from_str.rs:19-113) tied to the code by differential runs; "
    "Gen/C13Flags.v re-extracted from from_str.rs by tools/lib/c13_gen.py on every run",
    "`str::to_lowercase` is a Section variable of the theorems; evaluation uses an ASCII instance (plus a per-character "
    "table for a few Latin-1 letters), the oracle uses Python's str.lower()",
    "rustc/cargo 1.95: first-arm match semantics with guards, `?` = From::from on the error (reflexive impl), "
    "PartialEq/Debug of std's parse errors",
    "tools/lib/c13_gen.py (generators, renderers, reference rule), tools/props/c13.py",
]

CRATE = "c13_rt"


def strip_ws(s):
    return "".join(s.split())


_LIT = r'"(?:[^"\\]|\\.)*"'
ARM_RE = re.compile(r'(%s) (?:if \(src == (%s)\) )?=> (\S+) :: (\S+) (\{ \} )?,' % (_LIT, _LIT))
NEW_RE = re.compile(r'FromStrError :: new \((%s)\)' % _LIT)


def unescape(lit):
    s = lit[1:-1]
    out = []
    i = 0
    while i < len(s):
        c = s[i]
        if c == "\\":
            n = s[i + 1]
            if n == "u":
                j = s.index("}", i)
                out.append(chr(int(s[i + 3:j], 16)))
                i = j + 1
                continue
            out.append({"n": "\n", "t": "\t", "r": "\r", "0": "\0"}.get(n, n))
            i += 2
            continue
        out.append(c)
        i += 1
    return "".join(out)


def unhex(h):
    return bytes.fromhex(h).decode("utf-8")


def parse_hits(field):
    out = set()
    for x in field.split(","):
        if x:
            i, _, h = x.partition(":")
            out.add((unhex(h), int(i)))
    return out


def shapes_tie(chk, inproc):
    """variants written `V()` / `V{}` / with fields: which enums the macro accepts (vs enum_accepts_shapes) and whether the
    accepted expansion type-checks (rustc's verdict vs arms_typecheck)"""
    cases = G.SHAPE_CASES
    res = common.run_jsonl(inproc, [{"cmd": "expand", "derive": "FromStr", "item": G.shape_item(sh)} for _, sh in cases])
    braces = "true" if G.read_flags()["arm_braces"] else "false"
    terms = common.coq_eval(["Verif.C13.Model"], ["(enum_accepts_shapes [%s], arms_typecheck %s [%s])" %
                            ("; ".join(G.SHAPE_COQ[x] for x in sh), braces, "; ".join(G.SHAPE_COQ[x] for x in sh)) for _, sh in cases], tag="c13e")
    accepted = []
    for (cid, sh), r, t in zip(cases, res, terms):
        chk.count(("shape", cid), True)
        item = G.shape_item(sh)
        m_acc = t[0] == "true"
        if isinstance(r, dict) and isinstance(r.get("panic"), dict) and "Only enums with no fields" in str(r["panic"].get("msg", "")):
            r_acc = False
        elif isinstance(r, dict) and isinstance(r.get("items"), list) and r["items"] and r["items"][0].get("kind") == "impl":
            r_acc = True
        else:
            cls, why = G12.unreadable_class(r)
            chk.violation(cls, {"rust": item, "response": str(r)[:800]}, "%s: %s" % (item, why))
            continue
        if r_acc != m_acc:
            chk.violation("tie-model-shapes", {"rust": item, "model_accepts": m_acc, "expander_accepts": r_acc},
                          "enum_accepts_shapes and the expander disagree on %s" % item)
        if r_acc:
            accepted.append((cid, sh, t[1] == "true"))
    # rustc's verdict on the accepted ones
    def build(subset):
        mods = "\n".join("mod %s;" % cid for cid, _, _ in subset)
        files = {cid + ".rs": "#![allow(dead_code)]\nuse derive_more::FromStr;\n%s\n" % G.shape_item(sh, with_derive=True) for cid, sh, _ in subset}
        d = common.make_crate(CRATE + "_sh", "#![allow(dead_code)]\n%s\nfn main() {}\n" % mods, extra_files=files)
        return common.cargo(d, ["build", "--message-format=json", "--quiet"])
    live, failed = G12.build_dropping(chk, accepted, lambda u: u[0], build, what="C13 shapes crate")
    common.cleanup_scratch(CRATE + "_sh")
    for cid, sh, m_ok in accepted:
        compiles = cid not in failed
        item = G.shape_item(sh, with_derive=True)
        if compiles != m_ok:
            chk.violation("tie-model-shapes", {"rust": item, "model_typechecks": m_ok, "rustc_accepts": compiles,
                                               "rustc": [(a, b) for a, b, _ in failed.get(cid, [])][:4]},
                          "arms_typecheck and rustc disagree on %s" % item)
        if not compiles:
            chk.violation("empty-fields-variant", {"rust": item, "rustc": [(a, b) for a, b, _ in failed[cid]][:4]},
                          "%s is accepted by the derive but its expansion does not compile (%s): the arm value `E::V` lacks the "
                          "variant's `()` / `{}`" % (item, "; ".join(str(b) for _, b, _ in failed[cid][:2])))
    chk.bump("variant_shape_enums", len(cases))


def run(tier, seed, replay):
    chk = common.Check("C13", tier, seed)
    rng = chk.rng
    flags = G.read_flags()
    G.write_flags(flags)
    chk.notes.append("identifier-to-string sites of enum_from: key `%s`, guard `%s`, type name `%s`" %
                     (flags["key_expr"], flags["guard_expr"], flags["name_expr"]) +
                     "".join("; UNRECOGNISED: " + u for u in flags["unrecognised"]))
    inproc = common.build_inproc()
    st = common.check_proofs(chk, "C13")       # (Gen/C13Flags.v is built as a dependency; other properties' Gen files are not ours to scan)
    ku, gu, nu = ("true" if flags[k] else "false" for k in ("key_unraw", "guard_unraw", "name_unraw"))

    maxlen = 4 if tier == "quick" else 5
    coq_maxlen = 4
    if replay:
        r = json.load(open(replay))["replay"]
        cases = [r["case"]]
        newtypes = []
        maxlen = coq_maxlen = 2
    else:
        cases = G.fixed_enum_cases()
        n_rand = 22 if tier == "quick" else 90
        k = 0
        while k < n_rand:
            c = G.random_enum_case(rng, "e%d" % k)
            if c is not None:
                cases.append(c)
                k += 1
        newtypes = list(G.NEWTYPES)
    alphabets = {}
    extras = {}
    for c in cases:
        alphabets[c["id"]] = G.alphabet_of(c, limit=12 if tier == "quick" else 11)
        extras[c["id"]] = G.extra_inputs(rng, c, alphabets[c["id"]], 150 if tier == "quick" else 1500)
        if replay and "input" in r:
            extras[c["id"]].insert(0, r["input"])
        vs = c["variants"]
        chk.bump("enum_variants:%d" % min(len(vs), 6))
        if any(v[0] for v in vs):
            chk.bump("has_raw_variant")
        if any(len(v) > 2 and v[2] != "unit" for v in vs):
            chk.bump("has_empty_tuple_or_brace_variant")
        if c.get("generic"):
            chk.bump("generic_enum")
        lows = [v[1].lower() for v in vs]
        if len(set(lows)) < len(lows):
            chk.bump("has_case_colliding_group")
        if not c["ascii"]:
            chk.bump("non_ascii_names")
    nt_inputs = G.newtype_inputs(rng, 2000 if tier == "quick" else 20000) if newtypes else []
    chk.log("%d enums (alphabets of %d-%d symbols, all strings of length <= %d), %d newtypes x %d inputs" %
            (len(cases), min(len(a) for a in alphabets.values()), max(len(a) for a in alphabets.values()), maxlen,
             len(newtypes), len(nt_inputs)))

    # ---- 1. in-process expansion: arms, error name, newtype bodies
    reqs = [{"cmd": "expand", "derive": "FromStr", "item": G.enum_item(c, with_derive=False)} for c in cases]
    reqs += [{"cmd": "expand", "derive": "FromStr", "item": nt[1]} for nt in newtypes]
    reqs += [{"cmd": "expand", "derive": "FromStr", "item": nn[1]} for nn in G.NOT_NEWTYPES] if not replay else []
    exp = common.run_jsonl(inproc, reqs)
    real_arms = {}
    real_ename = {}
    real_trait = {}
    real_header = {}
    for c, resp in zip(cases, exp):
        try:
            items = resp.get("items") if isinstance(resp, dict) else None
            if not isinstance(items, list) or not items or items[0].get("kind") != "impl":
                cls, why = G12.unreadable_class(resp)
                chk.violation(cls, {"case": c, "rust": G.enum_item(c), "response": str(resp)[:1500]}, "%s: %s" % (G.enum_item(c, False), why))
                continue
            it0 = items[0]
            want_self = G.ident_src(c["enum"]) + ("<N>" if c.get("generic") else "")      # (defaults never reach an impl)
            want_params = ["constN:usize"] if c.get("generic") else []
            if strip_ws(it0["self_ty"]) != want_self or [strip_ws(x) for x in it0["params"]] != want_params:
                chk.violation("enum-impl-header", {"case": c, "rust": G.enum_item(c), "self_ty": it0["self_ty"], "params": it0["params"]},
                              "the FromStr impl of %s is for `%s` with parameters %s" % (G.enum_item(c, False), it0["self_ty"], it0["params"]))
            real_trait[c["id"]] = strip_ws(it0["trait"])
            real_header[c["id"]] = ([strip_ws(a) for a in it0["attrs"]], [strip_ws(x) for x in it0["params"]], strip_ws(it0["trait"]),
                                    strip_ws(it0["self_ty"]), [strip_ws(w) for w in it0.get("where", [])])
            body = [m for m in it0["members"] if m["kind"] == "fn"][0]["body"]
            arms = []
            for m in ARM_RE.finditer(body):
                arms.append((unescape(m.group(1)), None if m.group(2) is None else unescape(m.group(2)), m.group(4)))
                if (m.group(5) is not None) != flags["arm_braces"]:
                    chk.violation("tie-model-arms", {"case": c, "arm": m.group(0), "arm_braces": flags["arm_braces"]},
                                  "the arm value of %s is spelled %r but the switch read from the source says braces=%s" %
                                  (G.enum_item(c, False), m.group(0), flags["arm_braces"]))
            real_arms[c["id"]] = sorted(arms, key=repr)
            m = NEW_RE.search(body)
            real_ename[c["id"]] = unescape(m.group(1)) if m else None
        except Exception as e:          # a reader of real output must never abort the check
            chk.violation("expander-output-unreadable", {"case": c, "rust": G.enum_item(c), "response": str(resp)[:1500]},
                          "cannot read the expansion of %s: %s: %s" % (G.enum_item(c, False), type(e).__name__, e))

    # ---- 2. the real derive, compiled and run
    units = [("enum", c) for c in cases] + [("newtype", nt) for nt in newtypes]
    unit_id = lambda u: u[1]["id"] if u[0] == "enum" else u[1][0]

    def build(subset, control=False):
        ec = [u[1] for u in subset if u[0] == "enum"]
        nts = [u[1] for u in subset if u[0] == "newtype"]
        main, files = G.crate_sources(ec, alphabets, maxlen, extras, nts, nt_inputs, control=control)
        d = common.make_crate(CRATE + ("_ctl" if control else ""), main, extra_files=files)
        return common.cargo(d, ["build", "--message-format=json", "--quiet"])

    generator_rejects = {}
    live_units, failed = G12.build_dropping(chk, units, unit_id, build, what="C13 crate")
    if failed:
        # control: the same types without the derive must compile, otherwise the generator is at fault
        ctl = [u for u in units if unit_id(u) in failed]
        _, ctl_failed = G12.build_dropping(chk, ctl, unit_id, lambda sub: build(sub, control=True), what="C13 control crate")
        common.cleanup_scratch(CRATE + "_ctl")
        for cid, diags in ctl_failed.items():
            # a generator artefact says nothing about derive_more: dropped from the run and counted, never reported
            generator_rejects[cid] = sorted(set(str(code) for code, _, _ in diags))
            failed.pop(cid, None)
        if generator_rejects:
            chk.bump("generator_rejects", len(generator_rejects))
            chk.notes.append("generator artefacts dropped (rustc rejects the type even without the derive): %s" % sorted(generator_rejects.items()))
        ctl = [u for u in ctl if unit_id(u) not in generator_rejects]
        for u in ctl:
            src = G.enum_item(u[1]) if u[0] == "enum" else "#[derive(FromStr)] " + u[1][1]
            diags = failed[unit_id(u)]
            codes = set(a for a, _, _ in diags)
            cls = "expansion-captures-variant-name" if (u[0] == "enum" and u[1].get("glob") and
                                                        codes & {"E0618", "E0423", "E0532", "E0574", "E0530", "E0164"}) \
                else "expansion-rejected"
            chk.violation(cls, {"case": u[1] if u[0] == "enum" else None, "rust": src + ("\npub use self::%s::*;" % G.ident_src(u[1]["enum"]) if u[0] == "enum" and u[1].get("glob") else ""), "rustc": [(a, b) for a, b, _ in diags][:6],
                                                 "expected": "the expansion compiles (rustc accepts the type itself)"},
                          "FromStr expansion of a valid type does not compile: %s: %s" % (src.replace("\n", " "), "; ".join(str(b) for _, b, _ in diags[:2])))
    cases_all = cases
    cases = [u[1] for u in live_units if u[0] == "enum"]
    newtypes_live = [u[1] for u in live_units if u[0] == "newtype"]
    if not live_units:
        chk.notes.append("no generated module compiled")
    outs = {}
    if live_units:
        binp = os.path.join(common.rt_target_dir(), "debug", CRATE)
        p = subprocess.run([binp], stdout=subprocess.PIPE, stderr=subprocess.PIPE, text=True, timeout=900)
        if p.returncode != 0:
            raise common.BuildError("generated C13 program failed: rc=%s %s" % (p.returncode, p.stderr[-1500:]))
        for line in p.stdout.splitlines():
            f = line.split("\t")
            outs[f[0]] = dict(kv.partition("=")[::2] for kv in f[1:])
    common.cleanup_scratch(CRATE)
    chk.log("real derive compiled and run")

    # ---- 3. the model on the same declarations and inputs
    coq_cases = [c for c in cases if G.coq_lower(c) is not None]
    exprs = ["(run_case %s %s %s %s %s %s [%s] %d %s, enum_header %s %s %s %s, error_message (shown %s %s))" %
             (G.coq_lower(c), ku, gu, nu, G.coq_ident(c["enum"]), G.coq_idents(c["variants"]),
              "; ".join(str(ord(x)) for x in alphabets[c["id"]]), min(maxlen, coq_maxlen), G.coq_strs(extras[c["id"]]),
              common.coq_str(real_trait.get(c["id"], "?")), common.coq_str(G.ident_src(c["enum"])), G.coq_gparams(G.enum_generics(c)[0]),
              common.coq_str(G.enum_generics(c)[1]), nu, G.coq_ident(c["enum"]))
             for c in coq_cases]
    terms = dict(zip([c["id"] for c in coq_cases],
                     common.coq_eval(["Verif.C13.Model"], exprs, batch=max(1, len(exprs) // 32 + 1), tag="c13a")))

    chk.log("model evaluated on %d enums" % len(coq_cases))
    n_tie = 0
    for c in cases:
        try:
            cid = c["id"]
            o = outs.get(cid)
            if o is None:
                chk.violation("program-output-missing", {"case": c, "rust": G.enum_item(c)}, "the compiled program printed no line for %s" % cid)
                continue
            names = [v[1] for v in c["variants"]]           # the variants' names (a raw identifier's name has no `r#`)
            alpha = alphabets[cid]
            total = sum(len(alpha) ** n for n in range(maxlen + 1)) + len(extras[cid])
            if int(o["total"]) != total:
                raise common.BuildError("input enumeration differs between program and oracle for %s: %s vs %d" % (cid, o["total"], total))
            hits, xhits = parse_hits(o["hits"]), parse_hits(o["xhits"])
            # oracle: the documented rule, independently implemented
            ref = G.Reference(names)
            exp_hits = set()
            for s in G.all_strings(alpha, maxlen):
                i = ref.parse(s)
                if i is not None:
                    exp_hits.add((s, i))
            exp_x = set()
            for s in extras[cid]:
                i = G.reference_parse(names, s)
                if i is not None:
                    exp_x.add((s, i))
            nontrivial = len(names) >= 2 or any(v[0] for v in c["variants"])
            chk.count(json.dumps(c, sort_keys=True), nontrivial)
            chk.cov["evaluations"] += total - 1
            diff = sorted((hits ^ exp_hits) | (xhits ^ exp_x), key=lambda x: (len(x[0]), x))
            if diff or int(o["errs"]) != total - len(hits) - len(xhits):
                rawc = any(v[0] for v in c["variants"])
                cls = "raw-identifier-variant" if rawc and not (flags["key_unraw"] and flags["guard_unraw"]) else "enum-match-mismatch"
                shown = []
                for s, i in diff[:6]:
                    got = [j for (t, j) in (hits | xhits) if t == s]
                    want = [j for (t, j) in (exp_hits | exp_x) if t == s]
                    shown.append("%r -> %s (documented: %s)" % (s, "Ok(%s)" % names[got[0]] if got else "Err", "Ok(%s)" % names[want[0]] if want else "Err"))
                chk.violation(cls, {"case": c, "input": diff[0][0] if diff else None, "rust": G.enum_item(c), "differences": shown},
                              "%s: %s" % (G.enum_item(c, False), "; ".join(shown)))
            # error message names the enum
            msgs = [unhex(h) for h in o["msgs"].split(",") if h]
            en_plain, en_shown = c["enum"][1], G.ident_src(c["enum"])
            allowed = ["Invalid `%s` string representation" % en_plain, "Invalid `%s` string representation" % en_shown]
            if int(o["errs"]) > 0 and (len(msgs) != 1 or msgs[0] not in allowed):
                chk.violation("error-does-not-name-enum", {"case": c, "messages": msgs}, "rejections of %s display %r" % (en_shown, msgs[:3]))
            elif msgs and en_plain != en_shown and msgs[0] == allowed[1]:
                chk.notes.append("enum `%s`: the error message spells the type name with its raw prefix: %r" % (en_shown, msgs[0]))

            # tie: model vs expander (arms) and vs compiled derive (hits)
            t = terms.get(cid)
            if t is None:
                chk.bump("oracle_only(no context-free lower instance)")
                continue
            m_arms, m_ename, m_hits, m_x, m_hdr, m_msg = t       # (Coq prints the nested pairs flat)
            if cid in real_header and G.header_view(m_hdr) != real_header[cid]:
                chk.violation("tie-model-header", {"case": c, "model": G.header_view(m_hdr), "code": real_header[cid]},
                              "enum_header and the expander disagree on the impl header of %s" % G.enum_item(c, False))
            if msgs and msgs[0] != common.py_str(m_msg):
                chk.violation("tie-model-error-name", {"case": c, "model": common.py_str(m_msg), "program": msgs},
                              "error_message (src/str.rs Display) and the compiled derive disagree")
            m_arms = sorted(((common.py_str(pat), None if g == "None" else common.py_str(g[1]), common.py_str(v)) for (pat, g, v) in m_arms), key=repr)
            if cid in real_arms and m_arms != real_arms[cid]:
                chk.violation("tie-model-arms", {"case": c, "model": m_arms, "code": real_arms[cid]},
                              "model and expander disagree on the match arms of %s" % G.enum_item(c, False))
            if cid in real_ename and common.py_str(m_ename) != real_ename[cid]:
                chk.violation("tie-model-error-name", {"case": c, "model": common.py_str(m_ename), "code": real_ename[cid]},
                              "model and expander disagree on the type name in the error")
            if msgs and msgs[0] != "Invalid `%s` string representation" % common.py_str(m_ename):
                chk.violation("tie-model-error-name", {"case": c, "model": common.py_str(m_ename), "program": msgs},
                              "model and compiled derive disagree on the error message")
            mh = set((common.py_str(s), i) for (s, i) in m_hits)
            mx = set((common.py_str(s), i) for (s, i) in m_x)
            rh = set((s, i) for (s, i) in hits if len(s) <= coq_maxlen)
            if mh != rh or mx != xhits:
                dd = sorted((mh ^ rh) | (mx ^ xhits))[:6]
                chk.violation("tie-model-hits", {"case": c, "differences": dd},
                              "model and compiled derive disagree on %s: %s" % (G.enum_item(c, False), dd))
            n_tie += 1
            chk.sample({"enum": G.enum_item(c, False), "alphabet": "".join(alpha), "inputs": total, "ok": sorted(hits)[:6]}, limit=8)
        except common.BuildError:
            raise
        except Exception as e:      # a reader of real output must never abort the check
            chk.violation("expander-output-unreadable", {"case": c, "rust": G.enum_item(c)},
                          "cannot read the observation of %s: %s: %s" % (G.enum_item(c, False), type(e).__name__, e))

    chk.log("oracle and ties compared")
    if not replay:
        shapes_tie(chk, inproc)
    # ---- 4. newtypes
    if newtypes:
        nt_resp = exp[len(cases_all):len(cases_all) + len(newtypes)]
        nn_resp = exp[len(cases_all) + len(newtypes):]
        fields_expr = lambda fs: "[" + "; ".join("(%s, %s)" % ("None" if n is None else "Some " + common.coq_str(n), common.coq_str(ty)) for n, ty in fs) + "]"
        sterms = common.coq_eval(["Verif.C13.Model"], ["struct_expand %s" % fields_expr(nt[5]) for nt in newtypes] +
                                 ["struct_expand %s" % fields_expr(nn[2]) for nn in G.NOT_NEWTYPES], tag="c13b")
        def real_trait_of(resp):
            try:
                return strip_ws(resp["items"][0]["trait"])
            except Exception:
                return "?"
        hterms = common.coq_eval(["Verif.C13.Model"], ["struct_header %s %s %s %s" %
                                 (common.coq_str(real_trait_of(resp)), common.coq_str("W"), G.coq_gparams(G.NT_GENERICS.get(nt[0], ([], ""))[0]),
                                  common.coq_str(G.NT_GENERICS.get(nt[0], ([], ""))[1])) for nt, resp in zip(newtypes, nt_resp)], tag="c13d")
        hdr_of = dict((nt[0], h) for nt, h in zip(newtypes, hterms))
        for nt, resp, t in zip(newtypes, nt_resp, sterms[:len(newtypes)]):
          try:
            cid = nt[0]
            chk.count(("newtype", cid), True)
            chk.bump("newtype")
            if cid not in outs:
                if nt in newtypes_live:
                    chk.violation("program-output-missing", {"newtype": nt[1]}, "the compiled program printed no line for %s" % nt[1])
                continue
            o = outs[cid]
            chk.cov["evaluations"] += len(nt_inputs) - 1
            bad = [unhex(h) for h in o["bad"].split(",") if h]
            if bad or int(o["n_ok"]) + int(o["n_err"]) != len(nt_inputs):
                chk.violation("newtype-not-delegating", {"newtype": (nt[6] if len(nt) > 6 else "") + "#[derive(FromStr)] " + nt[1], "inputs": bad[:10]},
                              "`%s` does not parse like its field type `%s` (through `impl FromStr`) on %r" % (nt[1], nt[3], bad[:5]))
            # token-level tie
            if "items" not in resp or t == "None":
                chk.violation("tie-model-newtype", {"newtype": nt[1], "response": resp, "model": t}, "expander/model reject newtype %s" % nt[1])
                continue
            it = resp["items"][0]
            trait = strip_ws(it["trait"])
            b = t[1]
            ty = strip_ws(common.py_str(b["sb_parse_of"]))
            ety = strip_ws(common.py_str(b["sb_err_of"]))
            call = "<%sas%s>::from_str(src)?" % (ty, trait)
            ctor = "W(%s)" % call if b["sb_ctor"] == "SKTuple" else "W{%s:%s}" % (common.py_str(b["sb_ctor"][1]), call)
            want_body = "{derive_more::core::result::Result::Ok(%s)}" % ctor
            want_err = "<%sas%s>::Err" % (ety, trait)
            got_body = strip_ws([m for m in it["members"] if m["kind"] == "fn"][0]["body"])
            got_err = strip_ws([m for m in it["members"] if m["kind"] == "type"][0]["ty"])
            if (got_body, got_err) != (want_body, want_err):
                chk.violation("tie-model-newtype", {"newtype": nt[1], "model": [want_body, want_err], "code": [got_body, got_err]},
                              "model and expander disagree on the expansion of %s" % nt[1])
            real_hdr = ([strip_ws(a) for a in it["attrs"]], [strip_ws(x) for x in it["params"]], trait, strip_ws(it["self_ty"]),
                        [strip_ws(w) for w in it.get("where", [])])
            if G.header_view(hdr_of[cid]) != real_hdr:
                chk.violation("tie-model-header", {"newtype": nt[1], "model": G.header_view(hdr_of[cid]), "code": real_hdr},
                              "struct_header and the expander disagree on the impl header of %s" % nt[1])
            # every type parameter must carry the FromStr bound (what makes `<T as FromStr>::from_str` resolve)
            for x in real_hdr[1]:
                if not x.startswith("const") and not x.startswith("'") and trait not in x.split(":", 1)[-1].split("+"):
                    chk.violation("newtype-missing-bound", {"newtype": nt[1], "params": real_hdr[1]},
                                  "the impl for %s does not bound type parameter `%s` by %s" % (nt[1], x, trait))
            n_tie += 1
            # model evaluated: `bool_parse` instance against the compiled bool newtype
            if nt[3] == "bool" and cid == "nt_bool":
                oks = dict((unhex(a), unhex(b2)) for a, b2 in (x.split(":") for x in o["ok"].split(",") if x))
                mt = common.coq_eval(["Verif.C13.Model"], ["map (fun s => struct_from bool unit (option bool) bool_parse Some (fun e => e) s) %s" %
                                                          G.coq_strs(nt_inputs)], tag="c13c")[0]
                for s, r_ in zip(nt_inputs, mt):
                    want = None if r_[0] == "Err" else r_[1][1]
                    if oks.get(s) != want:
                        chk.violation("tie-model-newtype", {"input": s, "model": want, "code": oks.get(s)},
                                      "struct_from(bool_parse) and the compiled `W(bool)` disagree on %r" % s)
                        break
          except Exception as e:        # a reader of real output must never abort the check
            chk.violation("expander-output-unreadable", {"newtype": nt[1], "response": str(resp)[:1500]},
                          "cannot read the expansion / observation of %s: %s: %s" % (nt[1], type(e).__name__, e))
        for nn, resp, t in zip(G.NOT_NEWTYPES, nn_resp, sterms[len(newtypes):]):
            chk.count(("not-newtype", nn[0]), True)
            rejected = isinstance(resp, dict) and isinstance(resp.get("panic"), dict) and \
                "Only structs with one field" in str(resp["panic"].get("msg", ""))
            if not rejected or t != "None":
                chk.violation("tie-model-newtype", {"struct": nn[1], "response": resp, "model": t},
                              "a struct without exactly one field must be refused (model: %s, expander: %s)" % (t, str(resp)[:120]))
    chk.cov["traces_validated_against_impl"] = n_tie

    if flags["unrecognised"] and not chk.violations:
        chk.violation("source-template-unrecognised", {"unrecognised": flags["unrecognised"]},
                      "from_str.rs no longer has the sites the model's switches are read from (%s) and the differential run "
                      "found no failing input" % "; ".join(flags["unrecognised"]), no_input=True)
    if getattr(chk, "proof_broken", False) and not chk.violations:
        chk.violation("proof-broken", chk.proof_failure, "a C13 proof obligation no longer checks: %s" %
                      chk.proof_failure["failed"], no_input=True)
    elif getattr(chk, "proof_broken", False):
        chk.notes.append("proof obligation broken at %s; failing inputs found by the differential run" % chk.proof_failure["failed"])

    return chk.finish(
        proof=st,
        rule="enums: hand-written layouts (case-colliding groups Foo/FOO/foo/Bar, doc and test enums, raw identifiers r#fn / r#Foo / "
             "r#type groups, raw enum name, `r`/`R`, underscores, digits, prefixes, single, empty, non-ASCII Latin-1 / sharp s / sigma / "
             "dotted I) + random enums of 1-6 variants drawn as random casings of 1-3 base words (so groups collide), 15% raw; inputs per "
             "enum: EVERY string of length <= 4 (quick) / 5 (thorough) over the letters of the variant names in both cases plus `_ - space r #` "
             "(alphabet capped at 12 symbols), each variant name in 9 casings x 9 decorations (r# prefix, spaces, truncations, doubling), "
             "random strings of length 5-12. newtypes over i32 bool IpAddr f64 String u8 char i128 NonZeroU8 SocketAddrV4 and generic T: "
             "hand-picked boundary strings + random numeric-looking strings, each compared with the field type's own parse in the same "
             "program. evaluations = (type, input) pairs; non-trivial = enum with >= 2 variants or a raw variant, every newtype; distinct by declaration",
        trusted=TRUSTED,
        extra={"switches": flags, "exhaustive": True, "generator_rejects": generator_rejects})


META = {
    "level": "proof",
    "technique": "Coq proof about an executable model of the FromStr expander (grouping by lower-cased name, guarded arms, any map "
                 "iteration order; newtype delegation) + differential correspondence with the real derive compiled by rustc on all "
                 "short strings, reference-rule oracle",
    "text": "Theorems for all variant lists and all strings (unbounded, by induction), with str::to_lowercase an arbitrary function: the "
            "generated match returns Ok(V) iff V is a variant and the string equals V's name ignoring case when V's lower-cased name is "
            "unique, exactly otherwise; own names parse back; rejections carry the enum's name; the hash map's iteration order is "
            "irrelevant; a single-field struct parses exactly as its field (Ok wrapped, Err unchanged). The enum statements are "
            "instantiated at the spelling the source has now (`unraw()` at the key and guard sites, re-read from from_str.rs, so a "
            "regression to `to_string()` breaks the proof obligation). The model is re-tied on every run to the in-process expander "
            "(arms, guards, error name, newtype body) and to the compiled derive (every string up to length 4/5 over the names' letters).",
    "note": "Trusted: Coq kernel/vm_compute; ASCII (and small table) instance of to_lowercase for evaluation, Python str.lower() in the "
            "oracle; generators/renderers. Repaired and kept as regressions: raw-identifier-variant (5dcf116), generic enum impl "
            "header (a07fcdf).",
    "design_ref": "DESIGN.md section 2 / C13",
}
