"""C17 - synonymous attribute spellings are equivalent; contradictory ones are rejected.

proofs : coq/theories/C17 (typed attribute algebra, fmt container attributes, into.rs lists, legacy meta
         parser with the allow-lists regenerated from the sources into Gen/C17Allow.v)
oracle : the REAL expanders only (in-process harness): (1) every synonymous rewrite of a well-formed
         attribute set expands to the same tokens modulo the order of impls (and of where-predicates for
         permutations); (2) every single-step corruption is rejected with a diagnostic - never `ok`, and in
         particular never `ok` with the expansion of the item without the offending attribute
tie    : the Coq model's accept/reject verdict vs the real one on the same attribute sets
"""
import json
import re

from lib import common, c17_gen
from lib import c17_items as I
from lib import c17_mut as M

TRUSTED = [
    "Coq 8.16.1 kernel + vm_compute (coqc full .vo build); no axioms (Print Assumptions: closed)",
    "hand-written Gallina model coq/theories/C17/Model.v, tied to the code by the verdict correspondence "
    "(cases.v + vm_compute vs the in-process expanders) on every generated attribute set",
    "syn sub-parsers (Type, WherePredicate, format arguments) are Section variables in the theorems; the tie runs "
    "the model with the simple concrete instances of Model.v (run of tokens up to the next top-level comma)",
    "tools/lib/c17_gen.py (T-gen of the legacy allow-lists), tools/lib/c17_items.py / c17_mut.py (generators, "
    "rewrites, corruptions), proc_macro2 lexing of attribute arguments (harness command `tokens`)",
    "harness/inproc: the unmodified impl/src/*.rs expanders under catch_unwind",
]

DELIBERATE_PANIC = re.compile(r"only works when forwarding to a single field|can only be derived for enums|"
                              r"cannot derive|Only enums can derive|cannot unwrap anonymous records|can only derive|"
                              r"is not a `RefType`")


ARITY = re.compile(r"^expected tuple: |^wrong tuple length: ")


def family(d):
    if d in I.DISPLAY_FAMILY:
        return "Display*"
    if d in I.MUL_FAMILY or d in I.MUL_ASSIGN_FAMILY:
        return "Mul*"
    return d


# ------------------------------------------------------------------ canonical form of an expansion

def _flat(items):
    for x in items:
        if isinstance(x, dict) and x.get("kind") == "const_block":
            for y in _flat(x["items"]):
                yield y
        else:
            yield x


_COMMA_CLOSE = re.compile(r"\s*,\s*\)")


def canon(r, perm, tuples=False):
    """impls as a sorted tuple of JSON strings; perm: where-predicates sorted too; tuples: a comma before a
    closing parenthesis is dropped (a listed tuple type `(A, B,)` is echoed with its comma)"""
    if "ok" not in r:
        return None
    items = r.get("items")
    if not isinstance(items, list):
        return ("raw", r["ok"])
    out = []
    for x in _flat(items):
        x = dict(x)
        if perm and "where" in x:
            x["where"] = sorted(x["where"])
        j = json.dumps(x, sort_keys=True)
        out.append(_COMMA_CLOSE.sub(")", j) if tuples else j)
    return tuple(sorted(out))


def real_verdict(r):
    """-> 'ok' | 'err' | 'panic-diag' | 'panic-internal'"""
    if "ok" in r:
        return "ok"
    if "err" in r:
        return "err"
    if "panic" in r:
        p = r["panic"]
        if "impl/src/" in p.get("loc", "") and "/registry/" not in p.get("loc", "") \
                and DELIBERATE_PANIC.search(p.get("msg", "")):
            return "panic-diag"
        return "panic-internal"
    return "crash"


# ------------------------------------------------------------------ Coq rendering

CASING = {"lowercase": 1, "uppercase": 2, "pascalcase": 3, "camelcase": 4, "snakecase": 5,
          "screamingsnakecase": 6, "kebabcase": 7, "screamingkebabcase": 8}
DELIM = {"Parenthesis": 0, "Bracket": 1, "Brace": 2, "None": 3}


class Interner:
    def __init__(self, legacy_codes):
        self.ids = dict(c17_gen.KW)
        self.ids.update(legacy_codes)
        self.next = 1000
        self.strs = {}
        self.nexts = 1000

    def ident(self, s):
        if s.startswith("r#"):
            s = s[2:]
        if s not in self.ids:
            self.ids[s] = self.next
            self.next += 1
        return self.ids[s]

    def string(self, lit):
        v = lit[1:-1] if lit.startswith('"') else lit
        n = v.replace("-", "").replace("_", "").lower()
        if n in CASING:
            return CASING[n]
        if v not in self.strs:
            self.strs[v] = self.nexts
            self.nexts += 1
        return self.strs[v]

    def toks(self, tt):
        out = []
        for t in tt:
            if "i" in t:
                out.append("TId %d" % self.ident(t["i"]))
            elif "p" in t:
                out.append("TPu %d" % ord(t["p"]))
            elif "l" in t:
                l = t["l"]
                if l.startswith('"') or l.startswith('r"') or l.startswith("r#"):
                    out.append("TStr %d" % self.string(l))
                else:
                    out.append("TLit %d" % self.string(l))
            else:
                out.append("TGr %d %s" % (DELIM.get(t["g"], 3), self.toks(t["s"])))
        return "[" + "; ".join(out) + "]"


def coq_attr(a, tokmap, intern):
    kind, args = I.attr_parts(a)
    name = intern.ident(a["name"])
    if kind == "path":
        meta = "MPath"
    else:
        meta = "%s %s" % ("MList" if kind == "list" else "MNameValue", intern.toks(tokmap[args]))
    return "{| a_name := %d; a_meta := %s |}" % (name, meta)


def coq_item(it, tokmap, intern):
    def attrs(l):
        return "[" + "; ".join(coq_attr(a, tokmap, intern) for a in l) + "]"

    def fields(fs):
        return "[" + "; ".join("{| fd_attrs := %s |}" % attrs(f["attrs"]) for f in fs) + "]"
    if it["kind"] == "struct":
        body = "BStruct %s" % fields(it["fields"])
    else:
        body = "BEnum [%s]" % "; ".join("{| v_attrs := %s; v_fields := %s |}" % (attrs(v["attrs"]), fields(v["fields"]))
                                         for v in it["variants"])
    return "{| i_attrs := %s; i_body := %s |}" % (attrs(it["attrs"]), body)


PREAMBLE = """
Require Import Verif.Gen.C17Allow.
Definition lk (c : N) : lkind := match c with 0 => LSingleField | 1 => LEnumOnly | 2 => LMulLike | _ => LError end.
Definition run_legacy_enabled (name : N) (it : item) : option nat :=
  match find (fun r => fst (fst r) =? name) c17_allow_table with
  | Some (_, k, (e, v, s, f)) =>
      enabled_count (legacy_attrs (lk k) name {| al_enum := e; al_variant := v; al_struct := s; al_field := f |} it)
  | None => None
  end.
Definition run_legacy (name : N) (it : item) : option err :=
  match find (fun r => fst (fst r) =? name) c17_allow_table with
  | Some (_, k, (e, v, s, f)) =>
      verdict (legacy_attrs (lk k) name {| al_enum := e; al_variant := v; al_struct := s; al_field := f |} it)
  | None => Some EPanic
  end.
"""


def coq_call(derive, it, tokmap, intern):
    item = coq_item(it, tokmap, intern)
    n = intern.ident(I.ATTR_OF[derive])
    if derive == "From":
        return "verdict (I_from_attrs %s)" % item
    if derive == "Into":
        return "verdict (I_into_attrs %s)" % item
    if derive in ("AsRef", "AsMut"):
        return "verdict (I_as_ref_attrs %d %s)" % (n, item)
    if derive == "TryFrom":
        return "verdict (I_try_from_attrs %s)" % item
    if derive in I.DISPLAY_FAMILY:
        return "verdict (I_display_attrs %d %s)" % (n, item)
    if derive == "Debug":
        return "verdict (I_debug_attrs %s)" % item
    return "run_legacy %d %s" % (n, item)


def coq_result_call(derive, it, tokmap, intern):
    """model results that are observable in the real expansion (None: nothing tied for this derive)"""
    item = coq_item(it, tokmap, intern)
    n = intern.ident(I.ATTR_OF[derive])
    if derive in I.DISPLAY_FAMILY:
        return "I_display_bounds %d %s" % (n, item)
    if derive == "Debug":
        return "I_debug_bounds %s" % item
    if derive == "IsVariant":
        return "run_legacy_enabled %d %s" % (n, item)
    return None


def render_toks(t, rev):
    """parsed Coq `list tok` -> source text without white space"""
    out = []
    for x in t:
        if x[0] == "TId":
            out.append(rev.get(x[1], "?%d" % x[1]))
        elif x[0] == "TPu":
            out.append(chr(x[1]))
        elif x[0] in ("TStr", "TLit"):
            out.append("<lit%d>" % x[1])
        else:
            o, c = {0: "()", 1: "[]", 2: "{}"}.get(x[1], ("", ""))
            out.append(o + render_toks(x[2], rev) + c)
    return "".join(out)


def is_subsequence(a, b):
    it = iter(b)
    return all(any(x == y for y in it) for x in a)


# ------------------------------------------------------------------ classes of findings

def rewrite_class(derive, kind, outcome):
    if kind == "trailing-comma-kw":
        if derive in ("From", "Into", "AsRef", "AsMut"):
            return "keyword-trailing-comma-reinterpreted-as-type"
        return "keyword-trailing-comma-rejected"
    if kind.startswith("trailing-comma-nested"):
        return "nested-trailing-comma-differs:%s:%s" % (family(derive), outcome)
    if kind == "trailing-comma-lone-literal":
        return "fmt-lone-literal-trailing-comma-double-comma"
    return "synonym-differs:%s:%s:%s" % (family(derive), kind, outcome)


def corruption_class(derive, kind, detail, silent):
    fam = family(derive)
    if kind == "meaningless":
        return "display-%s-ignored" % detail
    if kind == "position" and detail == "container-attr-on-enum":
        return "from-container-attr-on-enum-ignored"
    if kind == "contradiction":
        return "legacy-ignore-with-other-parameter-accepted" if detail == "ignore+other" \
            else "legacy-flag-and-its-negation-accepted"
    if kind == "dup-inside":
        return "into-duplicate-flag-accepted" if derive == "Into" else "legacy-duplicate-parameter-accepted"
    if kind == "dup-attr-into-field-empty":
        return "into-field-duplicate-empty-accepted"
    return "accepted:%s:%s:%s:%s" % (fam, kind, detail, "silently-ignored" if silent else "with-effect")


# ------------------------------------------------------------------ real proc-macro under rustc (sample)

def rustc_crosscheck(chk, sample, R):
    """One generated crate, one module per case; diagnostics of `cargo check --message-format=json` without an
    error code (proc-macro errors, proc-macro panics, syntax errors in the generated code) are attributed to
    the module by line.  In-process `err`  <=> rustc reports that message there; in-process `ok` => rustc
    reports no code-less error there (type errors of the throw-away items carry a code and are ignored)."""
    name = "c17_rustc"
    lines = ["#![allow(warnings)]", "fn main() {}"]
    spans = []
    for k, c in enumerate(sample):
        start = len(lines) + 1
        lines.append("mod m%d {" % k)
        lines.append("    #[derive(derive_more::%s)]" % c["derive"])
        lines.append("    " + c["item_src"])
        lines.append("}")
        spans.append((start, len(lines)))
    d = common.make_crate(name, "\n".join(lines) + "\n")
    rc, out = common.cargo(d, ["check", "--message-format=json", "--quiet"], timeout=1200)
    per = [[] for _ in sample]
    got_any = False
    for l in out.splitlines():
        if not l.startswith("{"):
            continue
        try:
            m = json.loads(l)
        except ValueError:
            continue
        msg = m.get("message")
        if m.get("reason") != "compiler-message" or not msg or msg.get("level") != "error":
            continue
        got_any = True
        if msg.get("code") is not None:
            continue
        for sp in msg.get("spans", []):
            if sp.get("is_primary"):
                ln = sp["line_start"]
                for k, (a, b) in enumerate(spans):
                    if a <= ln <= b:
                        per[k].append(msg["message"])
                break
    common.cleanup_scratch(name)
    if rc != 0 and not got_any:
        chk.violation("rustc-crosscheck-build", {"output": out[-2000:]}, "the cross-check crate did not reach rustc: %s" % out[-300:],
                      no_input=True)
        return
    n = 0
    for c, msgs in zip(sample, per):
        r = R[(c["derive"], c["item_src"])]
        n += 1
        if "err" in r:
            ok = any(_nows(r["err"]) in _nows(m) for m in msgs)
            chk.bump("rustc:err-%s" % ("confirmed" if ok else "MISSING"))
            if not ok:
                chk.violation("rustc-crosscheck:err-not-reported", dict(_rp(c), rustc=msgs, inproc=r["err"]),
                              "in-process error %r of `%s` is not what rustc reports: %s" % (r["err"], c["item_src"], msgs[:3]))
        elif "panic" in r:
            ok = any("panicked" in m or r["panic"]["msg"][:40] in m for m in msgs)
            chk.bump("rustc:panic-%s" % ("confirmed" if ok else "MISSING"))
            if not ok:
                chk.violation("rustc-crosscheck:panic-not-reported", dict(_rp(c), rustc=msgs),
                              "in-process panic of `%s` is not reported by rustc: %s" % (c["item_src"], msgs[:3]))
        else:
            chk.bump("rustc:ok-%s" % ("clean" if not msgs else "codeless-error"))
            if msgs:
                if c.get("kind") == "trailing-comma-lone-literal":
                    chk.violation("fmt-lone-literal-trailing-comma-double-comma", dict(_rp(c), rustc=msgs),
                                  "rustc rejects the code generated for `%s`: %s" % (c["item_src"], msgs[:2]))
                else:
                    chk.violation("rustc-crosscheck:ok-but-error", dict(_rp(c), rustc=msgs),
                                  "in-process expansion of `%s` is ok but rustc reports: %s" % (c["item_src"], msgs[:3]))
    chk.cov["rustc_crosschecked"] = n


# ------------------------------------------------------------------ the check

def run(tier, seed, replay):
    chk = common.Check("C17", tier, seed)
    rng = chk.rng
    inproc = common.build_inproc()
    table, legacy_codes = c17_gen.generate()
    st = common.check_proofs(chk, "C17", extra_dirs=("Gen",))

    gens = I.generators()
    cases = []          # dict(derive, role, kind, detail, item, mode, base, removed)
    if replay:
        rp = json.load(open(replay))["replay"]
        cases.append(dict(rp, role=rp.get("role", "replay")))
    else:
        per = 60 if tier == "quick" else 500
        weight = {"Display": 4, "Into": 3, "Debug": 2, "From": 2, "AsRef": 2}   # grammars with field-wise merging
        for d in sorted(gens):
            for _ in range(per * weight.get(d, 1)):
                it = gens[d](rng)
                cases.append({"derive": d, "role": "base", "kind": "base", "item": it})
                for k, n, mode in M.rewrites(d, it):
                    cases.append({"derive": d, "role": "rewrite", "kind": k, "item": n, "mode": mode, "base": it})
                for c in M.corruptions(d, it, rng):
                    cases.append({"derive": d, "role": "corruption", "kind": c["kind"], "detail": c["detail"],
                                  "item": c["item"], "removed": c["removed"], "base": it})
    chk.log("%d attribute sets (%d derives)" % (len(cases), len(gens)))

    # ---- real expansions (deduplicated by source)
    srcs = {}
    for c in cases:
        for key in ("item", "base", "removed"):
            it = c.get(key)
            if isinstance(it, dict):
                c[key + "_src"] = I.item_src(it)
                srcs[(c["derive"], c[key + "_src"])] = None
    keys = list(srcs)
    res = common.run_jsonl(inproc, [{"cmd": "expand", "derive": d, "item": s} for d, s in keys])
    R = dict(zip(keys, res))

    n_ok = n_rej = 0
    for c in cases:
        d = c["derive"]
        r = R[(d, c["item_src"])]
        v = real_verdict(r)
        c["real"] = v
        fam = family(d)
        if c["role"] in ("base", "replay") and "base" not in c:
            chk.count((d, c["item_src"]), True)
            chk.bump("base:" + fam)
            if v != "ok":
                chk.violation("generator:base-not-accepted:" + fam, _rp(c),
                              "a well-formed %s attribute set is not accepted: %s -> %s" % (d, c["item_src"], str(r)[:200]))
            continue
        if c["role"] == "rewrite" or (c["role"] == "replay" and "mode" in c):
            perm = c["mode"] == "perm"
            tup = c["mode"] == "exact-tuples"
            rb = R[(d, c["base_src"])]
            same = canon(r, perm, tup) == canon(rb, perm, tup) and canon(rb, perm, tup) is not None
            chk.count((d, c["item_src"]), True)
            chk.bump("rewrite:%s:%s" % (c["kind"], "equal" if same else ("rejected" if v != "ok" else "different")))
            if not same:
                cls = rewrite_class(d, c["kind"], "rejected" if v != "ok" else "different")
                chk.violation(cls, _rp(c), "synonymous spelling differs (%s, %s): `%s` vs `%s` -> %s" % (
                    d, c["kind"], c["base_src"], c["item_src"],
                    (r.get("err") or str(r.get("panic")) if v != "ok" else "different expansion")))
            else:
                chk.sample({"derive": d, "rewrite": c["kind"], "a": c["base_src"], "b": c["item_src"]}, limit=8)
            continue
        # corruption
        chk.count((d, c["item_src"]), True)
        if c["kind"] == "regression-bound-kept":
            kept = v == "ok" and any("T : Clone" in (x.get("where") or []) for x in _flat(r.get("items") or []))
            chk.bump("regression:bound-kept:%s" % ("ok" if kept else "LOST"))
            if not kept:
                chk.violation("display-%s-ignored" % c["detail"].replace("bound-on-enum", "bound-on-enum"), _rp(c),
                              "%s: the explicit bound of `%s` does not reach the where clause: %s" % (
                                  d, c["item_src"], str(r)[:200]))
            continue
        if v in ("err", "panic-diag"):
            n_rej += 1
            chk.bump("corruption:%s:rejected" % c["kind"])
            continue
        if v in ("panic-internal", "crash"):
            chk.bump("corruption:%s:internal-panic" % c["kind"])
            cls = "into-missing-comma-internal-panic" if d == "Into" and "push_value" in str(r) \
                else "internal-panic:%s:%s" % (fam, c["kind"])
            chk.violation(cls, _rp(c), "%s: `%s` makes the expander panic internally: %s" % (d, c["item_src"], str(r)[:300]))
            continue
        n_ok += 1
        cr = canon(r, False)
        silent = cr == canon(R[(d, c["base_src"])], False)
        if c.get("removed_src"):
            silent = silent or cr == canon(R[(d, c["removed_src"])], False)
        chk.bump("corruption:%s:%s" % (c["kind"], "silently-ignored" if silent else "accepted-with-effect"))
        cls = corruption_class(d, c["kind"], c.get("detail", ""), silent)
        chk.violation(cls, _rp(c), "%s: corrupted attribute set `%s` (%s: %s) is accepted%s" % (
            d, c["item_src"], c["kind"], c.get("detail"),
            " and the offending argument is silently ignored" if silent else " (expansion changes)"))

    # ---- tie: model verdict vs real verdict on the same sets
    if tier == "quick" and not replay and len(cases) > 9000:
        tie_cases = [c for c in cases if c["role"] == "base"] + rng.sample([c for c in cases if c["role"] != "base"], 7000)
    else:
        tie_cases = cases
    argsrc = {}
    for c in tie_cases:
        for _, lst in I.slots(c["item"]):
            for a in lst:
                kind, args = I.attr_parts(a)
                if kind != "path":
                    argsrc[args] = None
    akeys = list(argsrc)
    tr = common.run_jsonl(inproc, [{"cmd": "tokens", "tokens": s} for s in akeys])
    tokmap = {}
    for s, t in zip(akeys, tr):
        tokmap[s] = t.get("ok")
    intern = Interner(legacy_codes)
    exprs, tied = [], []
    for c in tie_cases:
        try:
            exprs.append(coq_call(c["derive"], c["item"], tokmap, intern))
            tied.append(c)
        except (TypeError, KeyError):
            chk.bump("tie:unlexable")
    terms = common.coq_eval(["Verif.C17.Model"], exprs, preamble=PREAMBLE, batch=300, tag="c17")
    n_tie = 0
    for c, t in zip(tied, terms):
        m_acc = t == "None"
        r_acc = c["real"] == "ok"
        m_cls = None if m_acc else t[1]
        rr = R[(c["derive"], c["item_src"])]
        if m_acc and not r_acc and ARITY.search(rr.get("err", "")):
            # FieldsExt::validate_type (tuple arity of a listed type vs the number of fields) is C08's subject,
            # not part of the attribute grammar; only reachable here when a keyword is re-read as a type
            chk.bump("tie:type-arity-check-outside-the-model")
            continue
        n_tie += 1
        chk.bump("tie:%s" % ("accept" if r_acc else "reject"))
        if m_acc != r_acc:
            chk.violation("tie-model-verdict:%s" % family(c["derive"]),
                          dict(_rp(c), model=str(t), real=c["real"]),
                          "Coq model %s but the real %s expander %s: %s" % (
                              "accepts" if m_acc else "rejects (%s)" % m_cls, c["derive"],
                              "accepts" if r_acc else "rejects", c["item_src"]))
        elif not r_acc and m_cls == "EPanic" and c["real"] != "panic-internal":
            chk.violation("tie-model-panic:%s" % family(c["derive"]), dict(_rp(c), model=str(t), real=c["real"]),
                          "Coq model predicts an internal panic, the real expander reports %s" % c["real"])
    # ---- tie of model RESULTS that are observable in the expansion: the explicit bounds of the fmt derives
    #      (a subsequence of the real where clause, in order) and the enabled variants of IsVariant
    rexprs, rcases = [], []
    for c in tied:
        if c["real"] != "ok":
            continue
        e = coq_result_call(c["derive"], c["item"], tokmap, intern)
        if e is not None:
            rexprs.append(e)
            rcases.append(c)
    rterms = common.coq_eval(["Verif.C17.Model"], rexprs, preamble=PREAMBLE, batch=300, tag="c17r")
    rev = {v: k for k, v in intern.ids.items()}
    n_res = 0
    for c, t in zip(rcases, rterms):
        r = R[(c["derive"], c["item_src"])]
        impls = [x for x in _flat(r.get("items") or []) if x.get("kind") == "impl"]
        n_res += 1
        if t == "None":
            chk.violation("tie-model-result:%s" % family(c["derive"]), dict(_rp(c), model=str(t)),
                          "the model yields no result for the accepted `%s`" % c["item_src"])
            continue
        if c["derive"] == "IsVariant":
            real_n = len(impls[0]["members"]) if impls else -1
            if t[1] != real_n:
                chk.violation("tie-model-result:IsVariant", dict(_rp(c), model=t[1], real=real_n),
                              "model: %s enabled variants, real: %d is_* methods for `%s`" % (t[1], real_n, c["item_src"]))
            continue
        mb = [render_toks(x, rev) for x in (t[1] if isinstance(t[1], list) else [])]
        rw = [_nows(x) for x in (impls[0].get("where") or [])] if impls else []
        chk.bump("tie:result:%s" % ("explicit-bounds" if mb else "no-explicit-bounds"))
        if not is_subsequence(mb, rw):
            chk.violation("tie-model-result:%s" % family(c["derive"]), dict(_rp(c), model=mb, real=rw),
                          "explicit bounds of the model %s are not (in this order) in the real where clause %s of `%s`" % (
                              mb, rw, c["item_src"]))
    chk.cov["results_tied"] = n_res
    chk.cov["traces_validated_against_impl"] = n_tie

    # ---- real proc-macro + rustc on a sample (thorough tier, or VERIF_C17_RUSTC=1: the shared cargo target
    #      directory is locked by whoever builds at the same time, which does not fit the quick budget)
    import os
    if (tier == "thorough" or os.environ.get("VERIF_C17_RUSTC")) and not replay:
        by = {}
        for c in cases:
            by.setdefault((family(c["derive"]), c["role"], c.get("kind")), []).append(c)
        sample = []
        for k in sorted(by, key=str):
            sample += rng.sample(by[k], min(1 if tier == "quick" else 3, len(by[k])))
        sample = sample[:100 if tier == "quick" else 400]
        chk.log("rustc cross-check on %d cases" % len(sample))
        rustc_crosscheck(chk, sample, R)
    chk.bump("corruptions_rejected", n_rej)
    chk.bump("corruptions_accepted", n_ok)

    if getattr(chk, "proof_broken", False) and not chk.violations:
        chk.violation("proof-broken", chk.proof_failure, "a C17 proof obligation no longer checks: %s" %
                      chk.proof_failure["failed"], no_input=True)
    elif getattr(chk, "proof_broken", False):
        chk.notes.append("proof obligation broken at %s; failing inputs found by the differential run" %
                         chk.proof_failure["failed"])
    wr = common.run_jsonl(inproc, [{"cmd": "expand", "derive": "Display", "summary": False,
                                    "item": '#[display("{_0}")] #[display(where(T: Clone))] struct S<T>(T);'}])[0]
    chk.notes.append("observation (not part of C17: the property and impl/doc/*.md name only bound/bounds): the `where(..)` "
                     "spelling mentioned in fmt/mod.rs:32 is currently %s" %
                     ("accepted" if "ok" in wr else "refused: %s" % (wr.get("err") or str(wr)[:120])))
    chk.notes.append("positions the docs do not name (e.g. #[from(..)]/#[display(..)] on a struct field, "
                     "#[is_variant(ignore)] on a field, #[try_from(repr)] on a variant) are outside the property and are "
                     "not generated; Constructor registers no helper attribute (rustc rejects any)")
    return chk.finish(
        proof=st,
        rule="per attribute-taking derive (%d derives): seeded random well-formed attribute sets from the documented grammar "
             "on the documented positions (struct/enum/variant/field shapes varied); every applicable synonymous rewrite "
             "(skip<->ignore, bound<->bounds, merged<->split lists, trailing commas after lists / keywords / a lone "
             "literal and one list level down (inside not(..), owned/ref/ref_mut(..), listed tuple types), reversed order of independent attributes and of list elements) and every applicable single-step "
             "corruption (unknown argument, legacy syntax, duplicate, mixed kinds, contradiction, documented conflict, "
             "wrong position / item kind, meaningless for the item kind); every case is non-trivial; distinct by "
             "(derive, item source)" % len(gens),
        trusted=TRUSTED,
        extra={"legacy_allow_table": [{k: t[k] for k in ("trait", "attr", "entry", "kind", "allow")} for t in table]})


def _nows(x):
    return re.sub(r"\s+", "", x)


def _rp(c):
    out = {"derive": c["derive"], "role": c["role"], "kind": c.get("kind"), "detail": c.get("detail"),
           "item": c["item"], "source": c.get("item_src")}
    for k in ("mode", "base", "removed"):
        if c.get(k) is not None:
            out[k] = c[k]
    return out


META = {
    "level": "proof",
    "technique": "Coq proofs over an executable model of derive_more's attribute grammars (typed ParseMultiple algebra, "
                 "fmt container attributes, into.rs lists, legacy meta parser) + real-vs-real differential oracle on "
                 "synonymous rewrites and single-step corruptions + model/real verdict correspondence",
    "text": "Theorems for all token lists / attribute lists (unbounded, induction): skip==ignore, bound==bounds, one "
            "attribute listing n types == n attributes listing one each, trailing-comma irrelevance for lists, permutation "
            "of independent attributes permutes the result, unknown / duplicate / mixed-kind / legacy / conflicting "
            "arguments are rejected, an accepted list accounts for every token; refutation witnesses for the places "
            "where the faithful model violates the property (legacy `forward, not(forward)`, `ignore, forward`, duplicate "
            "flags, From ignoring attributes on the enum itself, keyword + trailing comma re-read as a type). The real expanders are run on thousands of generated attribute "
            "sets: synonyms must expand token-equal modulo impl order, corruptions must yield a diagnostic, and the "
            "model's verdict must equal the real one.",
    "note": "Trusted: Coq kernel/vm_compute; hand model tied by the verdict correspondence; syn sub-parsers abstract in the "
            "theorems, simple concrete instances in the tie; proc_macro2 lexing; in-process harness over the unmodified "
            "sources. Undocumented positions are out of scope.",
    "design_ref": "DESIGN.md section C17",
}
