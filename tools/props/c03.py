"""C03 - format literals are interpreted exactly as std::fmt interprets them.

proofs : coq/theories/C03 (dm parser model == std parser model on every std-accepted string, every derivation of the
         std::fmt grammar read back by both, closed form of the implicit counter, transparent_call sound and exact, ...)
tie 1  : Coq model of impl/src/fmt/parsing.rs + Placeholder::parse_fmt_string  vs  the real functions
tie 1b : every grammar function / combinator of fmt/parsing.rs on arbitrary inputs, and the literal side of
         FmtAttribute::transparent_call, model vs code (run_sub_ties)
tie 2  : Coq model of rustc_parse_format                                         vs  the real rustc parser
oracle : real derive_more parser vs real rustc parser on the same literal (independent of the models)
"""
import itertools
import json

from lib import common, gen_xid
from lib.common import coq_str, py_str

TRUSTED = [
    "Coq 8.16.1 kernel + vm_compute (coqc full .vo build); no axioms (Print Assumptions: closed)",
    "hand-written Gallina models coq/theories/C03/{DmParse,DmGeneric,Transparent,Utf8,StdParse}.v, tied to the code by "
    "differential runs (cases.v + vm_compute vs in-process harness / rustc_parse_format): whole literals, every grammar "
    "function and combinator of fmt/parsing.rs on arbitrary remaining inputs (harness/inproc appends a child module to a "
    "verbatim copy of the source so that its private functions are callable), byte offsets, transparent_call; "
    "Render.v (the std::fmt grammar as a generator) is specification, not model of code",
    "tools/lib/gen_xid.py (T-gen of the Unicode tables), tools/props/c03.py (generators, canonicalisers)",
    "nightly rustc_parse_format as the std-side oracle; syn::LitStr::value() unescaping; usize::from_str",
]

# ------------------------------------------------------------------ canonical forms

TY_DM = {"Display": "TDisplay", "Debug": "TDebug", "LowerDebug": "TLowerDebug", "UpperDebug": "TUpperDebug",
         "Octal": "TOctal", "LowerHex": "TLowerHex", "UpperHex": "TUpperHex", "Pointer": "TPointer",
         "Binary": "TBinary", "LowerExp": "TLowerExp", "UpperExp": "TUpperExp"}
TRAIT_OF = {"TDisplay": "Display", "TDebug": "Debug", "TLowerDebug": "Debug", "TUpperDebug": "Debug",
            "TOctal": "Octal", "TLowerHex": "LowerHex", "TUpperHex": "UpperHex", "TPointer": "Pointer",
            "TBinary": "Binary", "TLowerExp": "LowerExp", "TUpperExp": "UpperExp"}
TRAIT_COQ = {"TrDisplay": "Display", "TrDebug": "Debug", "TrOctal": "Octal", "TrLowerHex": "LowerHex",
             "TrUpperHex": "UpperHex", "TrPointer": "Pointer", "TrBinary": "Binary",
             "TrLowerExp": "LowerExp", "TrUpperExp": "UpperExp"}


def opt(t):
    """Coq `Some x`/`None` -> x / None"""
    if t == "None":
        return None
    assert t[0] == "Some", t
    return t[1]


def c_arg(t):       # Coq arg
    return ("int", t[1]) if t[0] == "AInt" else ("id", py_str(t[1]))


def c_cnt(t):
    return ("int", t[1]) if t[0] == "CInt" else ("param", c_arg(t[1]))


def c_spec(d):
    al = opt(d["sp_align"])
    pr = opt(d["sp_prec"])
    w = opt(d["sp_width"])
    return {"align": None if al is None else (opt(al[0]), al[1][1:]),
            "sign": None if opt(d["sp_sign"]) is None else opt(d["sp_sign"])[1:],
            "alt": d["sp_alt"] == "true", "zero": d["sp_zero"] == "true",
            "width": None if w is None else c_cnt(w),
            "prec": None if pr is None else ("star" if pr == "PStar" else ("count", c_cnt(pr[1]))),
            "ty": d["sp_ty"]}


def c_format(d):
    a = opt(d["f_arg"])
    s = opt(d["f_spec"])
    return (None if a is None else c_arg(a), None if s is None else c_spec(s))


def c_param(t):
    return ("pos", t[1]) if t[0] == "Positional" else ("name", py_str(t[1]))


def c_placeholder(d):
    return (c_param(d["ph_arg"]), d["ph_mods"] == "true", TRAIT_COQ[d["ph_trait"]])


def r_arg(j):       # real dm arg
    return ("int", int(j["int"])) if "int" in j else ("id", j["id"])


def r_cnt(j):
    return ("int", int(j["int"])) if "int" in j else ("param", r_arg(j["param"]))


def r_spec(j):
    al = j["align"]
    pr = j["prec"]
    return {"align": None if al is None else (al["fill"], al["align"]),
            "sign": j["sign"], "alt": j["alt"], "zero": j["zero"],
            "width": None if j["width"] is None else r_cnt(j["width"]),
            "prec": None if pr is None else ("star" if pr == "star" else ("count", r_cnt(pr["count"]))),
            "ty": TY_DM[j["ty"]]}


def r_format(j):
    return (None if j["arg"] is None else r_arg(j["arg"]), None if j["spec"] is None else r_spec(j["spec"]))


def r_placeholder(j):
    a = j["arg"]
    return (("pos", int(a["pos"])) if "pos" in a else ("name", a["name"]), j["mods"], j["trait"])


DEFAULT_SPEC = {"align": None, "sign": None, "alt": False, "zero": False, "width": None, "prec": None,
                "ty": "TDisplay"}


def norm_spec(s):
    return DEFAULT_SPEC if s is None else s


def has_mods(s):
    return (s["align"] is not None or s["sign"] is not None or s["alt"] or s["zero"] or s["width"] is not None
            or s["prec"] is not None or s["ty"] in ("TLowerDebug", "TUpperDebug"))


def std_real(j):
    """real rustc parser output -> None (rejected) | list of (param, star, spec)"""
    if j["errors"]:
        return None
    out = []
    for a in j["args"]:
        if not a["ty_ok"]:
            return None
        p = a["position"]
        param = ("pos", int(p["pos"])) if "pos" in p else ("name", p["name"])
        ty = a["ty"]
        dh = a["debug_hex"]
        if ty == "?":
            fty = {"Lower": "TLowerDebug", "Upper": "TUpperDebug", None: "TDebug"}[dh]
        else:
            fty = {"": "TDisplay", "e": "TLowerExp", "E": "TUpperExp", "o": "TOctal", "p": "TPointer",
                   "b": "TBinary", "x": "TLowerHex", "X": "TUpperHex"}[ty]
        align = {"AlignLeft": "Left", "AlignRight": "Right", "AlignCenter": "Center", "AlignUnknown": None}[a["align"]]

        def cnt(c):
            if c is None:
                return None
            if "int" in c:
                return ("int", int(c["int"]))
            if "param" in c:
                pa = c["param"]
                return ("param", ("int", int(pa["int"])) if "int" in pa else ("id", pa["id"]))
            raise ValueError(c)
        star = None
        pr = a["prec"]
        if pr is not None and "star" in pr:
            star = int(pr["star"])
            prec = "star"
        else:
            prec = None if pr is None else ("count", cnt(pr))
        if align is None and a["fill"] is not None:
            return "weird"
        spec = {"align": None if align is None else (a["fill"], align),
                "sign": a["sign"], "alt": a["alt"], "zero": a["zero"], "width": cnt(a["width"]),
                "prec": prec, "ty": fty}
        out.append((param, star, spec))
    return out


def std_model(t):
    """Coq std_parse result -> same shape"""
    t = opt(t)
    if t is None:
        return None
    out = []
    for d in t:
        st = opt(d["sa_star"])
        out.append((c_param(d["sa_pos"]), st, c_spec(d["sa_spec"])))
        # sa_empty_dot is model-internal (rustc does not report it); it is exercised by the theorems
    return out


# ------------------------------------------------------------------ generators

ARGS = ["", "0", "1", "12", "x", "_a", "é", "field_1", "_0", "r"]
FILLALIGN = ["", "<", "^", ">", "*<", "0^", "}>", " >", "é<", "🦀^", "{<", "x>"]
SIGN = ["", "+", "-"]
WIDTH = ["", "5", "0", "12", "1$", "w$", "0$", "_w$", "007"]
PREC = ["", ".3", ".0", ".1$", ".p$", ".*", ".", "._p$"]
TYPES = ["", "?", "x?", "X?", "o", "x", "X", "p", "b", "e", "E"]
WS = ["", " ", "\t", "  ", " ", " "]


def grammar_literal(rng):
    arg = rng.choice(ARGS)
    ws1 = rng.choice(WS) if rng.random() < 0.25 else ""
    if rng.random() < 0.15:
        spec = ""
    else:
        spec = ":" + rng.choice(FILLALIGN) * (rng.random() < 0.5) + rng.choice(SIGN) * (rng.random() < 0.4) \
            + "#" * (rng.random() < 0.3) + "0" * (rng.random() < 0.3) + rng.choice(WIDTH) * (rng.random() < 0.5) \
            + rng.choice(PREC) * (rng.random() < 0.5) + rng.choice(TYPES)
    ws2 = rng.choice(WS) if rng.random() < 0.25 else ""
    return "{" + arg + ws1 + spec + ws2 + "}"


def full_grammar():
    """every derivation of the bounded grammar (used by the real-vs-real oracle; cheap)"""
    for arg in ["", "0", "x", "_a"]:
        for ws1 in ["", " "]:
            yield "{" + arg + ws1 + "}"
            for fa in ["", "<", "*^", "}>", "0<"]:
                for sg in SIGN:
                    for alt in ["", "#"]:
                        for z in ["", "0"]:
                            for w in ["", "5", "1$", "w$", "0$"]:
                                for pr in ["", ".3", ".1$", ".p$", ".*", "."]:
                                    for ty in TYPES:
                                        for ws2 in ["", " "]:
                                            yield "{" + arg + ws1 + ":" + fa + sg + alt + z + w + pr + ty + ws2 + "}"


ALPHABET = list("{}:<^>+-#0$.*?xXope _a1r") + ["é", "€", "🦀", " ", "E", "9"]


def one_edit(rng, s):
    k = rng.randrange(3)
    i = rng.randrange(len(s) + 1)
    c = rng.choice(ALPHABET)
    if k == 0:
        return s[:i] + c + s[i:]
    if k == 1 and s:
        i = min(i, len(s) - 1)
        return s[:i] + s[i + 1:]
    if s:
        i = min(i, len(s) - 1)
        return s[:i] + c + s[i + 1:]
    return c


def sequence(rng):
    parts = []
    for _ in range(rng.randrange(1, 5)):
        r = rng.random()
        if r < 0.55:
            parts.append(grammar_literal(rng))
        elif r < 0.7:
            parts.append(rng.choice(["{{", "}}"]))
        else:
            parts.append("".join(rng.choice("ab é🦀:0.") for _ in range(rng.randrange(1, 4))))
    return "".join(parts)


def runs_of(cs):
    """boundaries of the maximal runs of a set of code points: (first, last) of every run"""
    out, prev, first = [], None, None
    for c in sorted(cs):
        if prev is None or c != prev + 1:
            if prev is not None:
                out.append((first, prev))
            first = c
        prev = c
    if prev is not None:
        out.append((first, prev))
    return out


def unicode_ident_literals(rng, d_start, d_cont, n):
    """identifiers (argument names, `name$` widths and precisions) built from the characters on which an identifier
    lexer can plausibly go wrong: XID_Continue characters that are not alphanumeric (combining marks, variation
    selectors, connector punctuation, U+00B7), alphanumerics that are not XID_Continue (superscripts, fractions,
    enclosed letters), XID_Start vs alphabetic, and both sides of every boundary of the XID tables (read from the real
    unicode-xid tables of this run)."""
    def ok(c):
        return c < 0x110000 and not 0xD800 <= c <= 0xDFFF and c not in (0x7B, 0x7D)
    cont_not_alnum = [c for c in d_cont if not chr(c).isalnum()]
    alnum_not_cont = [c for c in range(0x80, 0x30000) if ok(c) and chr(c).isalnum() and c not in d_cont]
    start_not_alpha = [c for c in d_start if not chr(c).isalpha()]
    alpha_not_start = [c for c in range(0x80, 0x30000) if ok(c) and chr(c).isalpha() and c not in d_start]
    cont_not_start = [c for c in d_cont if c not in d_start and c > 0x7f]
    edges = []
    for tab in (d_start, d_cont):
        for (a, b) in runs_of(tab):
            edges += [c for c in (a - 1, a, b, b + 1) if ok(c) and c > 0x7f]
    classes = [("cont-not-alnum", cont_not_alnum), ("alnum-not-cont", alnum_not_cont), ("start-not-alpha", start_not_alpha),
               ("alpha-not-start", alpha_not_start), ("cont-not-start", cont_not_start), ("table-edge", edges),
               ("start", [c for c in d_start if c > 0x7f]), ("cont", [c for c in d_cont if c > 0x7f])]
    classes = [(k, v) for (k, v) in classes if v]
    out = []
    heads = ["a", "_", "é", "न", "x1"]
    while len(out) < n:
        _, cs = rng.choice(classes)
        ch = chr(rng.choice(cs))
        r = rng.random()
        if r < 0.45:
            name = rng.choice(heads) + ch + rng.choice(["", "b", "1", "_"])
        elif r < 0.7:
            name = ch + rng.choice(["", "a", "9", "_x"])
        else:
            _, cs2 = rng.choice(classes)
            name = rng.choice(heads) + ch + chr(rng.choice(cs2)) + rng.choice(["", "z"])
        form = rng.random()
        if form < 0.5:
            out.append("{" + name + "}")
        elif form < 0.65:
            out.append("{" + name + rng.choice([":>5", ":x", ":?", " :e", ":.2"]) + "}")
        elif form < 0.8:
            out.append("{:" + rng.choice(["", "<", "0"]) + name + "$}")
        elif form < 0.9:
            out.append("{:." + name + "$}")
        else:
            out.append(rng.choice(["<", "x=", ""]) + "{" + name + "}" + rng.choice([">", " {}", ""]))
    return out


def derivations(rng, d_start, d_cont, d_ws, avoid, n):
    """random derivations of the std::fmt grammar with unbounded components, the shape of the abstract syntax of
    coq/theories/C03/Render.v: ANY scalar value as fill (braces and alignment characters included), numerals of any
    length with leading zeros (value within u16), identifiers over the real XID tables, white space from the real
    White_Space table, every flag / width form / precision form / type, and sequences with text and escapes"""
    starts = sorted(c for c in d_start if c not in avoid)
    conts = sorted(c for c in d_cont if c not in avoid)
    wss = sorted(d_ws)
    specials = [ord(c) for c in "{}<^>+-#0.$*?:x_ "]

    def scalar():
        r = rng.random()
        if r < 0.35:
            return rng.choice(specials)
        if r < 0.6:
            return rng.randrange(0x20, 0x7f)
        while True:
            c = rng.randrange(0x80, 0x110000)
            if not 0xD800 <= c <= 0xDFFF and c not in avoid:
                return c

    def ident():
        if rng.random() < 0.15:
            return "_" + "".join(chr(rng.choice(conts)) for _ in range(rng.randrange(1, 4)))
        pool = starts if rng.random() < 0.5 else [c for c in range(0x41, 0x7b) if chr(c).isalpha()]
        return chr(rng.choice(pool)) + "".join(chr(rng.choice(conts if rng.random() < 0.5 else [0x61, 0x31, 0x5f]))
                                               for _ in range(rng.randrange(0, 4)))

    def numeral(nonzero_head=False):
        v = rng.choice([0, 1, 7, 10, 42, 255, 65535, rng.randrange(0, 65536)])
        ds = str(v)
        if not nonzero_head and rng.random() < 0.3:
            ds = "0" * rng.randrange(1, 4) + ds
        if nonzero_head and ds[0] == "0":
            ds = "1" + ds
        return ds

    def ws():
        return "".join(chr(rng.choice(wss)) for _ in range(rng.randrange(0, 3))) if rng.random() < 0.35 else ""

    def count(after_zero_flag):
        r = rng.random()
        if r < 0.35:
            return numeral(not after_zero_flag)
        if r < 0.6:
            return (numeral(not after_zero_flag) if rng.random() < 0.8 else "0") + "$"
        return ident() + "$"

    def placeholder():
        arg = rng.choice(["", "", numeral(), ident()])
        out = "{" + arg + ws()
        if rng.random() < 0.85:
            out += ":"
            r = rng.random()
            if r < 0.45:
                out += chr(scalar()) + rng.choice("<^>")
            elif r < 0.6:
                out += rng.choice("<^>")
            out += rng.choice(["", "", "+", "-"]) + rng.choice(["", "#"])
            zero = rng.random() < 0.3
            out += "0" if zero else ""
            if rng.random() < 0.5:
                out += count(zero)
            if rng.random() < 0.5:
                out += "." + ("*" if rng.random() < 0.3 else (numeral() if rng.random() < 0.5 else count(True)))
            out += rng.choice(TYPES)
        return out + ws() + "}"

    res = []
    for _ in range(n):
        parts = []
        for _ in range(rng.choice([1, 1, 1, 2, 3])):
            r = rng.random()
            if r < 0.2:
                parts.append(rng.choice(["{{", "}}", "a", "é", " ", "<"]))
            parts.append(placeholder())
            if rng.random() < 0.2:
                parts.append(rng.choice(["{{", "}}", "b", "x ", ">"]))
        res.append("".join(parts))
    return res


def short_strings(maxlen, alphabet):
    for n in range(0, maxlen + 1):
        for t in itertools.product(alphabet, repeat=n):
            yield "".join(t)


CORPUS = ["", "{}", "{0}", "{x}", "{:?}", "{_0 }", "{ }", "{0 :?}", "{:.*}", "{:.}", "{0:.*}", "{} {:.*} {}",
          "{:>8.3$e}", "{{}}", "{{{}}}", "}", "{", "{:🦀^5}", "{:}>}", "{:0$}", "{:00$}", "{:05}", "{:_}", "{_}",
          "{r#a}", "{:?#}", "{:x?}", "{:#X?}", "{:ee}", "{:70000}", "{70000}", "{99999999999999999999999}",
          "{:99999999999999999999999}", "{:.99999999999999999999999}", "{a.b}", "{0x}", "{:1$.2$}", "{:w$.p$x}",
          "{:+#08.3e}", "{:-}", "{: }", "{:  }", "{ :}", "{ : }", "{ }", "{x :x}", "a{b}c{{d}}e{:p}",
          "{:.*} {:.*}", "{1:.*} {}", "{:.*x?}", "{:#?}", "{é}", "{_é1:<5}", "{:é>3}", "{:<<}", "{:<}", "{:^^^}",
          "{:0}", "{:0x}", "{:#0}", "{:.0}", "{:0.0}", "{:0$.0$}", "{:x$}", "{:.x$}", "{0$}", "{:1x}", "{:e?}"]


def rust_lit(s):
    """Python str -> Rust string literal source"""
    out = ['"']
    for c in s:
        o = ord(c)
        if c in '"\\':
            out.append("\\" + c)
        elif 0x20 <= o < 0x7f:
            out.append(c)
        else:
            out.append("\\u{%x}" % o)
    out.append('"')
    return "".join(out)


import re as _re
_EMPTY_DOT = _re.compile(r"\.(?![0-9*]|[^\W\d]\w*\$|_\w+\$)")


def without_empty_dots(l):
    """the literal with every precision dot that is followed by no count / `*` removed"""
    return _EMPTY_DOT.sub("", l)


# ------------------------------------------------------------------ sub-parser / combinator / transparent_call ties

SUB_FNS = ["identifier", "integer", "argument", "parameter", "count", "precision", "type_", "align", "sign",
           "format_spec", "format", "maybe_format", "text", "any_char", "take_any_char"]
# the Gallina expression of each (I = the input); the last three are the general (fuelled) transcriptions
SUB_COQ = ["bl (identifier unicode_cc I)", "bl (integer I)", "bl (argument unicode_cc I)", "bl (parameter unicode_cc I)",
           "bl (count unicode_cc I)", "bl (precision unicode_cc I)", "bl (type_ unicode_cc I)", "bl (align_p I)",
           "bl (sign_p I)", "bl (format_spec unicode_cc I)", "bl (format_p unicode_cc I)", "bl (maybe_format unicode_cc I)",
           "bl (text I)", "blu (any_char I)", "bl (take_any_char I)",
           "bl (identifier_g unicode_cc F I)", "bl (integer_g F I)", "bl (text_g F I)"]
SUB_PREAMBLE = ("Definition bl {A} (r : option (str * A)) : option (nat * A) := "
                "match r with Some (rest, v) => Some (blen rest, v) | None => None end.\n"
                "Definition blu (r : option str) : option nat := match r with Some rest => Some (blen rest) | None => None end.\n")
SUB_EXTRA = ["", "_", "_a", "__", "é", "0$", "00", "007$x", "18446744073709551616", "18446744073709551615x", "x?", "X?}",
             "?", "? }", " }", "\t}", ".*", ".", "<", "🦀<", "}<", "}}", "{{", "{}", "a{", "{:}<", "{:}>}", "{:{<}", "r#a}",
             "e}", "e }", "ee}", "o$", "_$", "_1$", "1$", "$", "+", "-x", "#", "0", "0}", "00$}", "0$}", "a.b", "é1_}"]


def sub_model(k, t):
    """Coq result of the k-th expression of SUB_COQ -> None | (rest_len, value)"""
    t = opt(t)
    if t is None:
        return None
    if k == 13:                     # any_char: only the rest
        return (t, None)
    n, v = t
    name = SUB_FNS[k] if k < len(SUB_FNS) else ["identifier", "integer", "text"][k - len(SUB_FNS)]
    if name in ("identifier", "text"):
        v = py_str(v)
    elif name in ("argument", "parameter"):
        v = c_arg(v)
    elif name == "count":
        v = c_cnt(v)
    elif name == "precision":
        v = "star" if v == "PStar" else ("count", c_cnt(v[1]))
    elif name in ("align", "sign"):
        v = v[1:]
    elif name == "format_spec":
        v = c_spec(v)
    elif name == "format":
        v = c_format(v)
    elif name == "maybe_format":
        v = None if v == "None" else c_format(v[1])
    return (n, v)


def sub_real(name, r):
    """real result of `fmt_sub` -> None | (rest_len, value) | "missing" """
    if r.get("missing"):
        return "missing"
    if r.get("none"):
        return None
    n, v = r["rest_len"], r.get("value")
    if name == "integer":
        v = int(v)
    elif name in ("argument", "parameter"):
        v = r_arg(v)
    elif name == "count":
        v = r_cnt(v)
    elif name == "precision":
        v = "star" if v == "star" else ("count", r_cnt(v["count"]))
    elif name == "type_":
        v = TY_DM[v]
    elif name == "format_spec":
        v = r_spec(v)
    elif name == "format":
        v = r_format(v)
    elif name == "maybe_format":
        v = None if v is None else r_format(v)
    return (n, v)


COMBS = ["str", "one_of", "char", "check_char_in", "lookahead_one_of", "try_seq_chars", "take_while0_str",
         "take_while0_one_of", "take_while1_one_of", "take_while1_str", "take_until1_any_one_of", "take_until1_char_char"]
COMB_ALPHA = list("ab{}:") + ["é", "🦀"]


def comb_coq(name, s, i):
    S, I, F = coq_str(s), coq_str(i), len(i) + 1
    c1, c2 = ord(s[0]), ord(s[1])
    return {
        "str": "blu (p_str %s %s)" % (S, I),
        "one_of": "blu (one_of %s %s)" % (S, I),
        "char": "blu (p_char %d %s)" % (c1, I),
        "check_char_in": "blu (check_char (fun c => existsb (N.eqb c) %s) %s)" % (S, I),
        "lookahead_one_of": "blu (lookahead (one_of %s) %s)" % (S, I),
        "try_seq_chars": "blu (try_seq [p_char %d; p_char %d] %s)" % (c1, c2, I),
        "take_while0_str": "bl (Some (take_while0_g (p_str %s) %d %s))" % (S, F, I),
        "take_while0_one_of": "bl (Some (take_while0_g (one_of %s) %d %s))" % (S, F, I),
        "take_while1_one_of": "bl (take_while1_g (one_of %s) %d %s)" % (S, F, I),
        "take_while1_str": "bl (take_while1_g (p_str %s) %d %s)" % (S, F, I),
        "take_until1_any_one_of": "bl (take_until1_g any_char (one_of %s) %d %s)" % (S, F, I),
        "take_until1_char_char": "bl (take_until1_g (p_char %d) (p_char %d) %d %s)" % (c1, c2, F, I),
    }[name]


def run_sub_ties(chk, rng, inproc, tie_lits, tier, bare, bres, rej, raw_tr, only=None):
    """ties of the model with the code below the level of whole literals: every grammar function of fmt/parsing.rs on
    arbitrary remaining inputs (byte offsets included), the looping combinators at instances the grammar does not use,
    and the literal side of transparent_call.  One batch of real calls, one batch of model evaluations."""
    quick = tier == "quick"
    if only is not None:
        # replay of one recorded case of these ties
        return _sub_ties(chk, inproc, only.get("inputs", []), only.get("cases", []), only.get("tcases", []))
    # (a) inputs of the grammar functions: suffixes of the tie literals + hand-picked ones
    inputs = list(SUB_EXTRA)
    pool = [l for l in tie_lits if l]
    for _ in range(900 if quick else 12000):
        l = rng.choice(pool)
        inputs.append(l[rng.randrange(len(l) + 1):])
    inputs = list(dict.fromkeys(inputs))
    # (b) combinator instances
    cases = []
    for _ in range(450 if quick else 6000):
        name = rng.choice(COMBS)
        s = "".join(rng.choice(COMB_ALPHA) for _ in range(rng.randrange(2, 4)))
        if rng.random() < 0.7:
            i = "".join(rng.choice(list(s) + COMB_ALPHA[:3]) for _ in range(rng.randrange(0, 7)))
        else:
            i = "".join(rng.choice(COMB_ALPHA) for _ in range(rng.randrange(0, 6)))
        cases.append((name, s, i))
    cases = list(dict.fromkeys(cases))
    # (c) transparent_call: bare std-accepted placeholders (three argument shapes) and std-rejected literals (two)
    tcases = []
    kb = list(range(len(bare)))
    for k in rng.sample(kb, min(len(kb), 500 if quick else 8000)):
        tcases.append((bare[k], [bres[3 * k], bres[3 * k + 1], bres[3 * k + 2]]))
    for l in rng.sample(rej, min(len(rej), 250 if quick else 4000)):
        if l in raw_tr:
            tcases.append((l, [raw_tr[l][0], raw_tr[l][1], None]))
    return _sub_ties(chk, inproc, inputs, cases, tcases)


def _sub_ties(chk, inproc, inputs, cases, tcases):
    reqs = [{"cmd": "fmt_sub", "fn": fn, "input": i} for i in inputs for fn in SUB_FNS]
    n_sub_req = len(reqs)
    reqs += [{"cmd": "fmt_comb", "comb": n, "s": s, "input": i} for (n, s, i) in cases]
    allreal = common.run_jsonl(inproc, reqs)
    real, creal = allreal[:n_sub_req], allreal[n_sub_req:]

    exprs = ["(" + ", ".join(e.replace("I", coq_str(i)).replace("F", str(len(i) + 1)) for e in SUB_COQ) + ")" for i in inputs]
    exprs += [comb_coq(n, s, i) for (n, s, i) in cases]
    exprs += ["(transparent_lit unicode_cc %s [], transparent_lit unicode_cc %s [None], transparent_lit unicode_cc %s [Some %s])" %
              (coq_str(l), coq_str(l), coq_str(l), coq_str("zq")) for (l, _) in tcases]
    mods = ["Verif.C03.DmParse", "Verif.C03.DmGeneric", "Verif.C03.Utf8", "Verif.C03.Transparent", "Verif.Gen.XidTable"]
    allterms = common.coq_eval(mods, exprs, preamble=SUB_PREAMBLE, batch=120, tag="c03sub")
    terms = allterms[:len(inputs)]
    cterms = allterms[len(inputs):len(inputs) + len(cases)]
    tterms = allterms[len(inputs) + len(cases):]

    n_sub = 0
    missing = set()
    for a, (i, t) in enumerate(zip(inputs, terms)):
        for k, fn in enumerate(SUB_FNS):
            r = real[a * len(SUB_FNS) + k]
            if "panic" in r or "crash" in r:
                chk.violation("dm-parser-panic", {"function": fn, "input": i, "dm": r},
                              "fmt/parsing.rs::%s fails internally on %r" % (fn, i))
                continue
            rr = sub_real(fn, r)
            if rr == "missing":
                missing.add(fn)
                continue
            m = sub_model(k, t[k])
            if fn == "any_char" and rr is not None:
                rr = (rr[0], None)
            n_sub += 1
            if m != rr:
                chk.violation("tie-dm-subparser", {"function": fn, "input": i, "model": m, "code": rr},
                              "Coq model of fmt/parsing.rs::%s disagrees with the code on the input %r" % (fn, i))
        # the general (fuelled) transcriptions must give what the specialised ones give
        for k2, k in ((len(SUB_FNS), 0), (len(SUB_FNS) + 1, 1), (len(SUB_FNS) + 2, 12)):
            if sub_model(k2, t[k2]) != sub_model(k, t[k]):
                chk.violation("tie-dm-subparser", {"function": SUB_FNS[k] + "_g", "input": i},
                              "general transcription of %s differs from the specialised model on %r" % (SUB_FNS[k], i))
    if missing:
        chk.violation("tie-dm-subparser", {"missing_functions": sorted(missing)},
                      "grammar functions of fmt/parsing.rs that the model mirrors no longer exist: %s" % sorted(missing),
                      no_input=True)
    chk.cov["subparser_results_compared"] = n_sub

    n_comb = 0
    cmissing = set()
    for (name, s, i), r, t in zip(cases, creal, cterms):
        if "panic" in r or "crash" in r:
            chk.violation("dm-parser-panic", {"combinator": name, "s": s, "input": i, "dm": r},
                          "fmt/parsing.rs combinator %s fails internally on %r" % (name, i))
            continue
        if r.get("missing"):
            cmissing.add(name)
            continue
        rr = None if r.get("none") else (r["rest_len"], r.get("value"))
        m = opt(t)
        if m is not None:
            m = (m[0], py_str(m[1])) if isinstance(m, tuple) else (m, None)
        n_comb += 1
        if m != rr:
            chk.violation("tie-dm-combinator", {"combinator": name, "s": s, "input": i, "model": m, "code": rr},
                          "Coq model of the combinator %s (parameter %r) disagrees with the code on %r" % (name, s, i))
    if cmissing:
        chk.violation("tie-dm-combinator", {"missing": sorted(cmissing)},
                      "combinators of fmt/parsing.rs that the model mirrors no longer exist: %s" % sorted(cmissing), no_input=True)
    chk.cov["combinator_results_compared"] = n_comb

    n_t = 0
    for (l, rs), t in zip(tcases, tterms):
        for j, shape in enumerate(["no argument", "one positional argument", "one aliased argument `zq = ..`"]):
            r = rs[j]
            if r is None or "err" in r or "panic" in r or "crash" in r or "lex_error" in r:
                continue
            got = r.get("transparent")
            got = None if not got else (got["expr"], got["trait"])
            m = opt(t[j])
            if m is not None:
                sel, tr = m
                m = ("field" if sel == "TSArg0" else py_str(sel[1]), TRAIT_COQ[tr])
            n_t += 1
            if m != got:
                chk.violation("tie-dm-transparent", {"literal": l, "arguments": shape, "model": m, "code": got},
                              "Coq model of transparent_call (literal side) disagrees with the code on %r with %s" % (l, shape))
    chk.cov["transparent_call_results_compared"] = n_t


# ------------------------------------------------------------------ enum-level literals that no variant uses

DISPLAY_LIKE = [("Display", "display"), ("Binary", "binary"), ("Octal", "octal"), ("LowerHex", "lower_hex"),
                ("UpperHex", "upper_hex"), ("LowerExp", "lower_exp"), ("UpperExp", "upper_exp"), ("Pointer", "pointer")]


def enum_level_items(attr, attr_src):
    """(kind, item): the attribute body as the enum-level attribute; in the first two every variant has a format of its own
    (the enum-level one is then only an unused default), in the control one variant has none (the literal reaches write!)"""
    return [("all-own-1", '#[%s(%s)] enum E { #[%s("a")] A }' % (attr, attr_src, attr)),
            ("all-own-2", '#[%s(%s)] enum E { #[%s("a")] A, #[%s("b{_0}")] B(i32) }' % (attr, attr_src, attr, attr)),
            ("control", '#[%s(%s)] enum E { #[%s("a")] A, B(i32) }' % (attr, attr_src, attr))]


# std-ACCEPTED enum-level attributes (literal, argument source, (alias, expr.ident()) per argument): only for the tie of
# SharedLit.v (wrapping via `_variant`, delegation, aliases, positions) - they are no oracle cases
SHARED_TIE = [("{_variant}", "", []), ("{_variant:?}", "", []), ("<{_variant}>", "", []), ("{}", "", []), ("{_0}", "", []),
              ("text", "", []), ("{_variant:x}", "", []), ("{_variant:>5}", "", []), ("{_variant} {_variant}", "", []), ("{0}", "", []),
              ("{v}", ", v = _variant", [("v", "_variant")]), ("{}", ", _variant", [(None, "_variant")]),
              ("{0}", ", _variant", [(None, "_variant")]), ("{0}", ", v = _variant", [("v", "_variant")]),
              ("{v:?}", ", v = _variant.len()", [("v", None)]), ("{v} {w}", ", v = _0, w = _variant", [("v", "_0"), ("w", "_variant")]),
              ("{1}", ", _0, _variant", [(None, "_0"), (None, "_variant")]), ("{x}", ", y = _variant", [("y", "_variant")])]
TIE_TRAITS = {"Display": "TrDisplay", "LowerHex": "TrLowerHex"}


def coq_opt_str(x):
    return "None" if x is None else "(Some %s)" % coq_str(x)


def run_enum_level(chk, inproc, rejected):
    """oracle, real expander: a std-rejected literal placed as the enum-level format.  Where every variant has its own
    format the expansion must not succeed without the literal in it (it would never reach format_args!: silently
    accepted).  Control: with a variant that has no format of its own the literal is in the expansion (rustc rejects it).
    Tie: SharedLit.v predicts for every item whether the literal is in the expansion."""
    cases = [(l, "", [], True) for l in rejected] + [(l, a, sl, False) for (l, a, sl) in SHARED_TIE]
    reqs, meta = [], []
    for ci, (l, args_src, sl, is_oracle) in enumerate(cases):
        src = rust_lit(l)
        for (derive, attr) in DISPLAY_LIKE:
            if not is_oracle and derive not in TIE_TRAITS:
                continue
            for (kind, item) in enum_level_items(attr, src + args_src):
                reqs.append({"cmd": "expand", "derive": derive, "item": item, "summary": False})
                meta.append((ci, src, derive, kind, item))
    res = common.run_jsonl(inproc, reqs)
    # model: (reaches own, reaches not-own) per case and tie trait
    exprs = []
    for (l, args_src, sl, _) in cases:
        a = "{| sl_lit := %s; sl_args := [%s] |}" % (coq_str(l), "; ".join("(%s, %s)" % (coq_opt_str(x), coq_opt_str(y)) for (x, y) in sl))
        exprs.append("[" + "; ".join("(shared_literal_reaches unicode_cc (Some %s) %s true, shared_literal_reaches unicode_cc (Some %s) %s false)" %
                                     (a, t, a, t) for t in TIE_TRAITS.values()) + "]")
    terms = common.coq_eval(["Verif.C03.SharedLit", "Verif.Gen.XidTable"], exprs, batch=120, tag="c03shared")
    n_checked = n_diag = n_ctrl_reaches = n_ctrl_other = n_tie = 0
    for (ci, src, derive, kind, item), r in zip(meta, res):
        l, args_src, sl, is_oracle = cases[ci]
        if "crash" in r or "item_unparsable" in r or "bad_request" in r or "panic" in r:
            continue
        ok = r.get("ok")
        present = isinstance(ok, str) and src in ok
        if derive in TIE_TRAITS and isinstance(ok, str):
            own, notown = terms[ci][list(TIE_TRAITS).index(derive)]
            want = (own == "true") if kind != "control" else (own == "true" or notown == "true")
            n_tie += 1
            if want != present:
                chk.violation("tie-dm-shared-literal", {"derive": derive, "item": item, "model_says_literal_in_expansion": want,
                                                        "expansion": ok[:600]},
                              "SharedLit.v (shared_attr_info / generate_body) disagrees with the expansion of `#[derive(%s)] %s`" % (derive, item))
        if not is_oracle:
            continue
        if kind == "control":
            if present:
                n_ctrl_reaches += 1
            else:
                n_ctrl_other += 1          # a diagnostic of the expander itself: not silent either
            continue
        n_checked += 1
        if not isinstance(ok, str):
            n_diag += 1
            continue
        if not present:
            chk.violation("unused-enum-level-literal", {"derive": derive, "item": item, "literal": l, "expansion": ok[:600]},
                          "std rejects the literal %r but `#[derive(%s)] %s` expands without it: it never reaches format_args!" % (
                              l, derive, item))
    chk.bump("enum_level_items_all_variants_own_format", n_checked)
    chk.bump("enum_level_items_rejected_by_expander", n_diag)
    chk.bump("enum_level_control_literal_reaches_write", n_ctrl_reaches)
    chk.bump("enum_level_control_other_outcome", n_ctrl_other)
    chk.cov["shared_literal_flow_results_compared"] = n_tie


# ------------------------------------------------------------------ the check

def run(tier, seed, replay):
    chk = common.Check("C03", tier, seed)
    rng = chk.rng
    inproc = common.build_inproc()
    stdbin, stdenv = common.build_stdfmt()

    # T-gen of the character tables (real unicode-xid / is_whitespace) + A-XID measurement
    tabs = gen_xid.generate(inproc)
    id_reqs = [{"cmd": "idclass", "lo": lo, "hi": min(lo + 0x8000, 0x110000)} for lo in range(0, 0x110000, 0x8000)]
    idr = common.run_jsonl(stdbin, id_reqs, env=stdenv, jobs=8)
    r_start = set(c for r in idr for c in r["start"]) - {0x5f}
    r_cont = set(c for r in idr for c in r["cont"])
    d_start, d_cont, _ = tabs["tables"]
    axid = sorted((r_start ^ d_start) | (r_cont ^ d_cont))
    chk.assumptions.append("A-XID: unicode-xid (derive_more) and rustc_lexer (rustc) classify every scalar value "
                           "alike; measured this run over all 0x110000 code points: %d differences%s" %
                           (len(axid), "" if not axid else " e.g. " + ", ".join(hex(c) for c in axid[:8])))
    avoid = set(axid)

    st = common.check_proofs(chk, "C03", extra_dirs=("Gen",))

    # ---- literals
    sub_only = None
    enum_replay = None
    if replay:
        robj = json.load(open(replay))["replay"]
        if "item" in robj and "derive" in robj:     # an enum-level literal no variant uses
            enum_replay = robj
            robj = {}
        if "function" in robj:                      # a grammar function on one input
            sub_only = {"inputs": [robj["input"]]}
        elif "combinator" in robj:                  # a combinator instance
            sub_only = {"cases": [(robj["combinator"], robj["s"], robj["input"])]}
        elif "arguments" in robj and "model" in robj:   # transparent_call, model vs code
            l = robj["literal"]
            rs = common.run_jsonl(inproc, [{"cmd": "fmt_attr", "tokens": rust_lit(l) + t} for t in ("", ", field", ", zq = field")])
            sub_only = {"tcases": [(l, rs)]}
        lits = [robj["literal"]] if "literal" in robj else []
        tie_lits = lits
    else:
        n_rand = 4000 if tier == "quick" else 60000
        lits = list(CORPUS)
        g = list(full_grammar())
        if tier == "quick":
            g = rng.sample(g, 60000)
        chk.bump("grammar_enumeration", len(g))
        lits += g
        base = [grammar_literal(rng) for _ in range(n_rand)]
        lits += base
        lits += [one_edit(rng, s) for s in base + rng.sample(g, min(len(g), n_rand * 3))]
        lits += [sequence(rng) for _ in range(n_rand)]
        sh = list(short_strings(3 if tier == "quick" else 4, ALPHABET))
        chk.bump("short_strings", len(sh))
        lits += sh
        ui = unicode_ident_literals(rng, d_start, d_cont, 1500 if tier == "quick" else 20000)
        chk.bump("unicode_ident_literals", len(ui))
        lits += ui
        dv = derivations(rng, d_start, d_cont, tabs["tables"][2], avoid, 3000 if tier == "quick" else 40000)
        chk.bump("grammar_derivations_with_unbounded_components", len(dv))
        lits += dv
        lits = [l for l in dict.fromkeys(lits) if not any(ord(c) in avoid for c in l)]
        # the model-vs-code ties run on a subset (Coq evaluation is the slow part)
        n_tie = 6000 if tier == "quick" else 60000
        pool = lits[len(CORPUS):]
        tie_lits = list(CORPUS) + rng.sample(pool, min(n_tie, len(pool)))
    chk.log("%d literals (%d through the Coq models)" % (len(lits), len(tie_lits)))

    # ---- real implementations
    dm = common.run_jsonl(inproc, [{"cmd": "fmt_parse", "lit": l} for l in lits])
    sd = common.run_jsonl(stdbin, [{"lit": l} for l in lits], env=stdenv)
    real = {}
    for l, a, b in zip(lits, dm, sd):
        real[l] = (a, b)

    # second pass for the oracle: (1) literals std rejects, offered to the real transparent_call with the
    # argument shapes under which a literal is NOT handed to rustc; (2) literals with an empty precision dot
    rej = [l for l in lits if std_real(real[l][1]) is None]
    tr_reqs = []
    for l in rej:
        tr_reqs.append({"cmd": "fmt_attr", "tokens": rust_lit(l)})
        tr_reqs.append({"cmd": "fmt_attr", "tokens": rust_lit(l) + ", field"})
    tr = common.run_jsonl(inproc, tr_reqs)
    transparent = {}
    raw_tr = {}
    for k, l in enumerate(rej):
        transparent[l] = [r.get("transparent") for r in (tr[2 * k], tr[2 * k + 1])]
        raw_tr[l] = (tr[2 * k], tr[2 * k + 1])
    dotted = [l for l in lits if without_empty_dots(l) != l]
    dd = common.run_jsonl(inproc, [{"cmd": "fmt_parse", "lit": without_empty_dots(l)} for l in dotted])
    undotted = dict(zip(dotted, dd))

    # third pass: std-ACCEPTED literals that are exactly one placeholder, offered to the real transparent_call under
    # the three argument shapes; the verdict must follow from std's reading (no modifiers; the placeholder refers to the
    # only argument by position 0 / implicitly / by its alias, or - without arguments - to a binding by name)
    bare = []
    for l in lits:
        a, b = real[l]
        if "panic" in a or "crash" in a:
            continue
        s_ = std_real(b)
        if isinstance(s_, list) and len(s_) == 1 and a.get("single") is not None and a["single"]["rest_len"] == 0:
            bare.append(l)
    if len(bare) > (6000 if tier == "quick" else 60000):
        bare = rng.sample(bare, 6000 if tier == "quick" else 60000)
    breqs = []
    for l in bare:
        breqs.append({"cmd": "fmt_attr", "tokens": rust_lit(l)})
        breqs.append({"cmd": "fmt_attr", "tokens": rust_lit(l) + ", field"})
        breqs.append({"cmd": "fmt_attr", "tokens": rust_lit(l) + ", zq = field"})
    bres = common.run_jsonl(inproc, breqs)
    chk.bump("bare_placeholders_offered_to_transparent_call", len(bare))
    for k, l in enumerate(bare):
        (param, star, sp) = std_real(real[l][1])[0]
        mods = has_mods(sp)
        want_trait = TRAIT_OF[sp["ty"]]
        positional0 = param[0] == "pos" and param[1] == 0
        expect = [(not mods) and param[0] == "name",
                  (not mods) and positional0,
                  (not mods) and (positional0 or param == ("name", "zq"))]
        for j, shape in enumerate(["no argument", "one positional argument", "one aliased argument `zq = ..`"]):
            r = bres[3 * k + j]
            if "err" in r or "panic" in r or "crash" in r:
                continue
            got = r.get("transparent")
            if bool(got) != expect[j] or (got and got["trait"] != want_trait):
                chk.violation("transparent-reading", {"literal": l, "arguments": shape, "std": [param, sp],
                                                      "transparent_call": got, "expected_delegation": expect[j]},
                              "for %r with %s std's reading (%s, modifiers=%s, trait %s) %s a delegation, transparent_call says %s" % (
                                  l, shape, param, mods, want_trait, "allows" if expect[j] else "forbids", got))

    # ---- oracle: real derive_more vs real rustc (independent of the models)
    n_acc = 0
    for l in lits:
        a, b = real[l]
        if "panic" in a or "crash" in a:
            chk.violation("dm-parser-panic", {"literal": l, "dm": a}, "derive_more's literal parser fails internally on %r" % l)
            continue
        s = std_real(b)
        if s == "weird":
            continue
        dm_formats = None if a["formats"] is None else [r_format(f) for f in a["formats"]]
        dm_ph = [r_placeholder(p) for p in a["placeholders"]]
        nontrivial = (s is not None and len(s) > 0) or (s is None) != (dm_formats is None)
        chk.count(l, nontrivial)
        if s is not None:
            n_acc += 1
            exp_ph = [(p, has_mods(sp), TRAIT_OF[sp["ty"]]) for (p, star, sp) in s]
            if dm_ph != exp_ph:
                cls = classify(l, s, dm_formats)
                u = undotted.get(l)
                if u is not None and "placeholders" in u and [r_placeholder(p) for p in u["placeholders"]] == exp_ph \
                        and dm_formats is None:
                    # explained exactly by `.` followed by no precision (pinned by the repo's own unit test)
                    cls = "empty-precision-dot"
                chk.violation(cls, {"literal": l, "std": s, "derive_more_placeholders": dm_ph, "derive_more_formats": dm_formats},
                              "std accepts %r with placeholders %s but derive_more sees %s" % (l, exp_ph, dm_ph))
                continue
            if len(s) > 0:
                if dm_formats is None or [norm_spec(f[1]) for f in dm_formats] != [sp for (_, _, sp) in s]:
                    chk.violation("spec-mismatch", {"literal": l, "std": s, "derive_more_formats": dm_formats},
                                  "fill/align/sign/#/0/width/precision differ on %r" % l)
        else:
            # never silently accepted: the only literals not shown to rustc are bare transparent ones
            t = transparent.get(l, [None, None])
            if t[0] or t[1]:
                chk.violation("silent-accept", {"literal": l, "std_errors": b["errors"], "transparent_call": t},
                              "std rejects %r but derive_more delegates (the literal never reaches format_args!)" % l)
    chk.bump("std_accepted", n_acc)
    chk.bump("std_rejected", len(lits) - n_acc)

    # ---- oracle, second path by which a literal may never reach format_args!: an enum-level literal no variant uses
    if replay and enum_replay is not None:
        r = common.run_jsonl(inproc, [{"cmd": "expand", "derive": enum_replay["derive"], "item": enum_replay["item"], "summary": False}])[0]
        src = rust_lit(enum_replay["literal"])
        if isinstance(r.get("ok"), str) and src not in r["ok"]:
            chk.violation("unused-enum-level-literal", enum_replay,
                          "std rejects the literal %r but `#[derive(%s)] %s` expands without it" % (
                              enum_replay["literal"], enum_replay["derive"], enum_replay["item"]))
    elif not replay:
        rej_corpus = [l for l in CORPUS if l in real and std_real(real[l][1]) is None]
        pool_rej = [l for l in rej if l not in set(rej_corpus) and '"' not in l and "\\" not in l]
        n_enum = 250 if tier == "quick" else 4000
        run_enum_level(chk, inproc, rej_corpus + rng.sample(pool_rej, min(len(pool_rej), n_enum)))

    # ---- ties: models vs code, same literals
    exprs = ["(format_string unicode_cc %s, placeholders unicode_cc %s, std_parse unicode_cc %s, format_p unicode_cc %s)" %
             ((coq_str(l),) * 4) for l in tie_lits]
    terms = common.coq_eval(["Verif.C03.DmParse", "Verif.C03.StdParse", "Verif.Gen.XidTable"], exprs, batch=250)
    n_tie = 0
    for l, t in zip(tie_lits, terms):
        a, b = real[l]
        if "panic" in a or "crash" in a:
            continue
        m_formats = opt(t[0])
        m_formats = None if m_formats is None else [c_format(f) for f in m_formats]
        m_ph = [c_placeholder(p) for p in t[1]]
        m_std = std_model(t[2])
        m_single = opt(t[3])
        r_formats = None if a["formats"] is None else [r_format(f) for f in a["formats"]]
        r_ph = [r_placeholder(p) for p in a["placeholders"]]
        r_single = None if a["single"] is None else (len(l.encode()) - a["single"]["rest_len"], r_format(a["single"]["format"]))
        if m_single is not None:
            rest, f = m_single
            m_single = (len(l.encode()) - len(py_str(rest).encode()), c_format(f))
        n_tie += 1
        if m_formats != r_formats or m_ph != r_ph or m_single != r_single:
            chk.violation("tie-dm-model", {"literal": l, "model": [m_formats, m_ph, m_single], "code": [r_formats, r_ph, r_single]},
                          "Coq model of fmt/parsing.rs disagrees with the code on %r" % l)
        s = std_real(b)
        if s != "weird" and m_std != s:
            chk.violation("tie-std-model", {"literal": l, "model": m_std, "rustc": s, "errors": b["errors"]},
                          "Coq model of rustc_parse_format disagrees with rustc on %r" % l)
        chk.sample({"literal": l, "derive_more": r_ph, "std": s if s is None else [x[0] for x in s]}, limit=10)
    chk.cov["traces_validated_against_impl"] = n_tie

    # ---- ties below the level of whole literals (every grammar function, the combinators, transparent_call)
    if not replay:
        chk.log("literal-level ties done; sub-parser / combinator / transparent_call ties")
        run_sub_ties(chk, rng, inproc, tie_lits, tier, bare, bres, rej, raw_tr)
        chk.log("sub-level ties done")
    elif sub_only is not None:
        run_sub_ties(chk, rng, inproc, tie_lits, tier, bare, bres, rej, raw_tr, only=sub_only)

    extra_chk = {}
    if tier == "thorough" and not getattr(chk, "proof_broken", False):
        ok, ax, tail, skipped = common.coqchk_all()
        extra_chk = {"coqchk": {"command": "coqchk -o -silent -Q theories Verif <every Props module that builds>", "axioms": ax,
                                "ok": ok, "directories_not_rechecked_here": skipped}}
        if skipped:
            chk.notes.append("coqchk: the directories %s do not build at this moment (facts regenerated from another tree, or broken "
                             "proofs: their own checks report that) and were left out of this re-check" % ", ".join(skipped))
        if not ok:
            chk.violation("coqchk", {"axioms": ax, "output": tail}, "coqchk does not accept the development / reports axioms: %s" % ax,
                          no_input=True)
    if getattr(chk, "proof_broken", False) and not chk.violations:
        chk.violation("proof-broken", chk.proof_failure, "a C03 proof obligation no longer checks: %s" %
                      chk.proof_failure["failed"], no_input=True)
    elif getattr(chk, "proof_broken", False):
        chk.notes.append("proof obligation broken at %s; failing inputs found by the differential run" % chk.proof_failure["failed"])

    return chk.finish(
        proof=st,
        rule="literals: hand corpus + every derivation of a bounded std::fmt grammar (arg x ws x fill/align x sign x # x 0 x width "
             "x precision x 11 types x trailing ws) + grammar-random literals + one-edit neighbours + placeholder/text/escape "
             "sequences + random derivations with unbounded components (any scalar value as fill, numerals with leading zeros, "
             "identifiers and white space from the real Unicode tables) + all strings of length <=3 (quick) / <=4 (thorough) over a 30-symbol alphabet with 2-,3-,4-byte chars; "
             "non-trivial = std accepts with >=1 placeholder, or the two parsers disagree on acceptance; distinct by literal",
        trusted=TRUSTED,
        extra={**extra_chk, "unicode_tables": {"xid_start": tabs["start"], "xid_continue": tabs["cont"], "white_space": tabs["ws"],
                                  "axid_differences": len(axid)}})


def classify(l, s, dm_formats):
    """class of a placeholder mismatch (key for KNOWN_FINDINGS / readable report)"""
    if dm_formats is None:
        import re
        if re.search(r"\s", l):
            return "std-accepted-unparsable-whitespace"
        if "." in l:
            return "std-accepted-unparsable-dot"
        return "std-accepted-unparsable"
    if any(st is not None for (_, st, _) in s):
        return "star-counter"
    return "placeholder-mismatch"


META = {
    "level": "proof",
    "technique": "Coq proof of parser equivalence (derive_more's fmt parser vs rustc_parse_format) + differential correspondence of both models with the real parsers",
    "text": "Theorems over all strings (unbounded) about executable Gallina models of impl/src/fmt/parsing.rs, "
            "Placeholder::parse_fmt_string and rustc_parse_format: every std-accepted literal yields the same placeholder "
            "list (argument, trait, modifiers) in both; every derivation of the std::fmt grammar (any fill, every flag, "
            "width/precision form, type, white space, escapes, sequences) is read back as intended by both; the implicit "
            "counter in closed form incl. `.*`; a delegation (transparent_call) happens only for literals std accepts as "
            "exactly that placeholder; byte-level slicing never panics. Both models are re-tied "
            "to the real parsers on every run (cases.v/vm_compute vs in-process harness and nightly rustc_parse_format), "
            "and the real parsers are compared directly with each other on ~10^5 literals.",
    "note": "Trusted: Coq kernel/vm_compute; hand models tied by differential runs; nightly rustc_parse_format as std oracle; "
            "unicode tables agree between unicode-xid and rustc_lexer (measured each run); syn LitStr unescaping.",
    "design_ref": "DESIGN.md section 2 / C03",
}
