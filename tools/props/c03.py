"""C03 - format literals are interpreted exactly as std::fmt interprets them.

proofs : coq/theories/C03 (dm parser model == std parser model on every std-accepted string, ...)
tie 1  : Coq model of impl/src/fmt/parsing.rs + Placeholder::parse_fmt_string  vs  the real functions
tie 2  : Coq model of rustc_parse_format                                         vs  the real rustc parser
oracle : real derive_more parser vs real rustc parser on the same literal (independent of the models)
"""
import itertools
import json

from lib import common, gen_xid
from lib.common import coq_str, py_str

TRUSTED = [
    "Coq 8.16.1 kernel + vm_compute (coqc full .vo build); no axioms (Print Assumptions: closed)",
    "hand-written Gallina models coq/theories/C03/{DmParse,StdParse}.v, tied to the code by differential runs "
    "(cases.v + vm_compute vs in-process harness / rustc_parse_format)",
    "tools/lib/gen_xid.py (T-gen of the Unicode tables), tools/props/c03.py (generators, canonicalisers)",
    "nightly rustc_parse_format as the std-side oracle; syn::LitStr::value() unescaping; usize::from_str",
]

# ------------------------------------------------------------------ canonical forms

TY_DM = {"Display": "TDisplay", "Debug": "TDebug", "LowerDebug": "TLowerDebug", "UpperDebug": "TUpperDebug",
         "Octal": "TOctal", "LowerHex": "TLowerHex", "UpperHex": "TUpperHex", "Pointer": "TPointer",
         "Binary": "TBinary", "LowerExp": "TLowerExp", "UpperExp": "TUpperExp"}
TRAIT_OF = {"TDisplay": "Display", "TDebug": "Debug", "TLowerDebug": "Debug", "TUpperDebug": "Debug",
            "TOctal": "Octal", "TLowerHex": "LowerHex", "TUpperHex": "UpperHex", "TPointer": "Pointer",
            "TBinary": "Binary", "TLowerExp": "LowerExp", "TUpperExp": "UpperExp"}
TRAIT_COQ = {"TrDisplay": "Display", "TrDebug": "Debug", "TrOctal": "Octal", "TrLowerHex": "LowerHex",
             "TrUpperHex": "UpperHex", "TrPointer": "Pointer", "TrBinary": "Binary",
             "TrLowerExp": "LowerExp", "TrUpperExp": "UpperExp"}


def opt(t):
    """Coq `Some x`/`None` -> x / None"""
    if t == "None":
        return None
    assert t[0] == "Some", t
    return t[1]


def c_arg(t):       # Coq arg
    return ("int", t[1]) if t[0] == "AInt" else ("id", py_str(t[1]))


def c_cnt(t):
    return ("int", t[1]) if t[0] == "CInt" else ("param", c_arg(t[1]))


def c_spec(d):
    al = opt(d["sp_align"])
    pr = opt(d["sp_prec"])
    w = opt(d["sp_width"])
    return {"align": None if al is None else (opt(al[0]), al[1][1:]),
            "sign": None if opt(d["sp_sign"]) is None else opt(d["sp_sign"])[1:],
            "alt": d["sp_alt"] == "true", "zero": d["sp_zero"] == "true",
            "width": None if w is None else c_cnt(w),
            "prec": None if pr is None else ("star" if pr == "PStar" else ("count", c_cnt(pr[1]))),
            "ty": d["sp_ty"]}


def c_format(d):
    a = opt(d["f_arg"])
    s = opt(d["f_spec"])
    return (None if a is None else c_arg(a), None if s is None else c_spec(s))


def c_param(t):
    return ("pos", t[1]) if t[0] == "Positional" else ("name", py_str(t[1]))


def c_placeholder(d):
    return (c_param(d["ph_arg"]), d["ph_mods"] == "true", TRAIT_COQ[d["ph_trait"]])


def r_arg(j):       # real dm arg
    return ("int", int(j["int"])) if "int" in j else ("id", j["id"])


def r_cnt(j):
    return ("int", int(j["int"])) if "int" in j else ("param", r_arg(j["param"]))


def r_spec(j):
    al = j["align"]
    pr = j["prec"]
    return {"align": None if al is None else (al["fill"], al["align"]),
            "sign": j["sign"], "alt": j["alt"], "zero": j["zero"],
            "width": None if j["width"] is None else r_cnt(j["width"]),
            "prec": None if pr is None else ("star" if pr == "star" else ("count", r_cnt(pr["count"]))),
            "ty": TY_DM[j["ty"]]}


def r_format(j):
    return (None if j["arg"] is None else r_arg(j["arg"]), None if j["spec"] is None else r_spec(j["spec"]))


def r_placeholder(j):
    a = j["arg"]
    return (("pos", int(a["pos"])) if "pos" in a else ("name", a["name"]), j["mods"], j["trait"])


DEFAULT_SPEC = {"align": None, "sign": None, "alt": False, "zero": False, "width": None, "prec": None,
                "ty": "TDisplay"}


def norm_spec(s):
    return DEFAULT_SPEC if s is None else s


def has_mods(s):
    return (s["align"] is not None or s["sign"] is not None or s["alt"] or s["zero"] or s["width"] is not None
            or s["prec"] is not None or s["ty"] in ("TLowerDebug", "TUpperDebug"))


def std_real(j):
    """real rustc parser output -> None (rejected) | list of (param, star, spec)"""
    if j["errors"]:
        return None
    out = []
    for a in j["args"]:
        if not a["ty_ok"]:
            return None
        p = a["position"]
        param = ("pos", int(p["pos"])) if "pos" in p else ("name", p["name"])
        ty = a["ty"]
        dh = a["debug_hex"]
        if ty == "?":
            fty = {"Lower": "TLowerDebug", "Upper": "TUpperDebug", None: "TDebug"}[dh]
        else:
            fty = {"": "TDisplay", "e": "TLowerExp", "E": "TUpperExp", "o": "TOctal", "p": "TPointer",
                   "b": "TBinary", "x": "TLowerHex", "X": "TUpperHex"}[ty]
        align = {"AlignLeft": "Left", "AlignRight": "Right", "AlignCenter": "Center", "AlignUnknown": None}[a["align"]]

        def cnt(c):
            if c is None:
                return None
            if "int" in c:
                return ("int", int(c["int"]))
            if "param" in c:
                pa = c["param"]
                return ("param", ("int", int(pa["int"])) if "int" in pa else ("id", pa["id"]))
            raise ValueError(c)
        star = None
        pr = a["prec"]
        if pr is not None and "star" in pr:
            star = int(pr["star"])
            prec = "star"
        else:
            prec = None if pr is None else ("count", cnt(pr))
        if align is None and a["fill"] is not None:
            return "weird"
        spec = {"align": None if align is None else (a["fill"], align),
                "sign": a["sign"], "alt": a["alt"], "zero": a["zero"], "width": cnt(a["width"]),
                "prec": prec, "ty": fty}
        out.append((param, star, spec))
    return out


def std_model(t):
    """Coq std_parse result -> same shape"""
    t = opt(t)
    if t is None:
        return None
    out = []
    for d in t:
        st = opt(d["sa_star"])
        out.append((c_param(d["sa_pos"]), st, c_spec(d["sa_spec"])))
        # sa_empty_dot is model-internal (rustc does not report it); it is exercised by the theorems
    return out


# ------------------------------------------------------------------ generators

ARGS = ["", "0", "1", "12", "x", "_a", "é", "field_1", "_0", "r"]
FILLALIGN = ["", "<", "^", ">", "*<", "0^", "}>", " >", "é<", "🦀^", "{<", "x>"]
SIGN = ["", "+", "-"]
WIDTH = ["", "5", "0", "12", "1$", "w$", "0$", "_w$", "007"]
PREC = ["", ".3", ".0", ".1$", ".p$", ".*", ".", "._p$"]
TYPES = ["", "?", "x?", "X?", "o", "x", "X", "p", "b", "e", "E"]
WS = ["", " ", "\t", "  ", " ", " "]


def grammar_literal(rng):
    arg = rng.choice(ARGS)
    ws1 = rng.choice(WS) if rng.random() < 0.25 else ""
    if rng.random() < 0.15:
        spec = ""
    else:
        spec = ":" + rng.choice(FILLALIGN) * (rng.random() < 0.5) + rng.choice(SIGN) * (rng.random() < 0.4) \
            + "#" * (rng.random() < 0.3) + "0" * (rng.random() < 0.3) + rng.choice(WIDTH) * (rng.random() < 0.5) \
            + rng.choice(PREC) * (rng.random() < 0.5) + rng.choice(TYPES)
    ws2 = rng.choice(WS) if rng.random() < 0.25 else ""
    return "{" + arg + ws1 + spec + ws2 + "}"


def full_grammar():
    """every derivation of the bounded grammar (used by the real-vs-real oracle; cheap)"""
    for arg in ["", "0", "x", "_a"]:
        for ws1 in ["", " "]:
            yield "{" + arg + ws1 + "}"
            for fa in ["", "<", "*^", "}>", "0<"]:
                for sg in SIGN:
                    for alt in ["", "#"]:
                        for z in ["", "0"]:
                            for w in ["", "5", "1$", "w$", "0$"]:
                                for pr in ["", ".3", ".1$", ".p$", ".*", "."]:
                                    for ty in TYPES:
                                        for ws2 in ["", " "]:
                                            yield "{" + arg + ws1 + ":" + fa + sg + alt + z + w + pr + ty + ws2 + "}"


ALPHABET = list("{}:<^>+-#0$.*?xXope _a1r") + ["é", "€", "🦀", " ", "E", "9"]


def one_edit(rng, s):
    k = rng.randrange(3)
    i = rng.randrange(len(s) + 1)
    c = rng.choice(ALPHABET)
    if k == 0:
        return s[:i] + c + s[i:]
    if k == 1 and s:
        i = min(i, len(s) - 1)
        return s[:i] + s[i + 1:]
    if s:
        i = min(i, len(s) - 1)
        return s[:i] + c + s[i + 1:]
    return c


def sequence(rng):
    parts = []
    for _ in range(rng.randrange(1, 5)):
        r = rng.random()
        if r < 0.55:
            parts.append(grammar_literal(rng))
        elif r < 0.7:
            parts.append(rng.choice(["{{", "}}"]))
        else:
            parts.append("".join(rng.choice("ab é🦀:0.") for _ in range(rng.randrange(1, 4))))
    return "".join(parts)


def runs_of(cs):
    """boundaries of the maximal runs of a set of code points: (first, last) of every run"""
    out, prev, first = [], None, None
    for c in sorted(cs):
        if prev is None or c != prev + 1:
            if prev is not None:
                out.append((first, prev))
            first = c
        prev = c
    if prev is not None:
        out.append((first, prev))
    return out


def unicode_ident_literals(rng, d_start, d_cont, n):
    """identifiers (argument names, `name$` widths and precisions) built from the characters on which an identifier
    lexer can plausibly go wrong: XID_Continue characters that are not alphanumeric (combining marks, variation
    selectors, connector punctuation, U+00B7), alphanumerics that are not XID_Continue (superscripts, fractions,
    enclosed letters), XID_Start vs alphabetic, and both sides of every boundary of the XID tables (read from the real
    unicode-xid tables of this run)."""
    def ok(c):
        return c < 0x110000 and not 0xD800 <= c <= 0xDFFF and c not in (0x7B, 0x7D)
    cont_not_alnum = [c for c in d_cont if not chr(c).isalnum()]
    alnum_not_cont = [c for c in range(0x80, 0x30000) if ok(c) and chr(c).isalnum() and c not in d_cont]
    start_not_alpha = [c for c in d_start if not chr(c).isalpha()]
    alpha_not_start = [c for c in range(0x80, 0x30000) if ok(c) and chr(c).isalpha() and c not in d_start]
    cont_not_start = [c for c in d_cont if c not in d_start and c > 0x7f]
    edges = []
    for tab in (d_start, d_cont):
        for (a, b) in runs_of(tab):
            edges += [c for c in (a - 1, a, b, b + 1) if ok(c) and c > 0x7f]
    classes = [("cont-not-alnum", cont_not_alnum), ("alnum-not-cont", alnum_not_cont), ("start-not-alpha", start_not_alpha),
               ("alpha-not-start", alpha_not_start), ("cont-not-start", cont_not_start), ("table-edge", edges),
               ("start", [c for c in d_start if c > 0x7f]), ("cont", [c for c in d_cont if c > 0x7f])]
    classes = [(k, v) for (k, v) in classes if v]
    out = []
    heads = ["a", "_", "é", "न", "x1"]
    while len(out) < n:
        _, cs = rng.choice(classes)
        ch = chr(rng.choice(cs))
        r = rng.random()
        if r < 0.45:
            name = rng.choice(heads) + ch + rng.choice(["", "b", "1", "_"])
        elif r < 0.7:
            name = ch + rng.choice(["", "a", "9", "_x"])
        else:
            _, cs2 = rng.choice(classes)
            name = rng.choice(heads) + ch + chr(rng.choice(cs2)) + rng.choice(["", "z"])
        form = rng.random()
        if form < 0.5:
            out.append("{" + name + "}")
        elif form < 0.65:
            out.append("{" + name + rng.choice([":>5", ":x", ":?", " :e", ":.2"]) + "}")
        elif form < 0.8:
            out.append("{:" + rng.choice(["", "<", "0"]) + name + "$}")
        elif form < 0.9:
            out.append("{:." + name + "$}")
        else:
            out.append(rng.choice(["<", "x=", ""]) + "{" + name + "}" + rng.choice([">", " {}", ""]))
    return out


def short_strings(maxlen, alphabet):
    for n in range(0, maxlen + 1):
        for t in itertools.product(alphabet, repeat=n):
            yield "".join(t)


CORPUS = ["", "{}", "{0}", "{x}", "{:?}", "{_0 }", "{ }", "{0 :?}", "{:.*}", "{:.}", "{0:.*}", "{} {:.*} {}",
          "{:>8.3$e}", "{{}}", "{{{}}}", "}", "{", "{:🦀^5}", "{:}>}", "{:0$}", "{:00$}", "{:05}", "{:_}", "{_}",
          "{r#a}", "{:?#}", "{:x?}", "{:#X?}", "{:ee}", "{:70000}", "{70000}", "{99999999999999999999999}",
          "{:99999999999999999999999}", "{:.99999999999999999999999}", "{a.b}", "{0x}", "{:1$.2$}", "{:w$.p$x}",
          "{:+#08.3e}", "{:-}", "{: }", "{:  }", "{ :}", "{ : }", "{ }", "{x :x}", "a{b}c{{d}}e{:p}",
          "{:.*} {:.*}", "{1:.*} {}", "{:.*x?}", "{:#?}", "{é}", "{_é1:<5}", "{:é>3}", "{:<<}", "{:<}", "{:^^^}",
          "{:0}", "{:0x}", "{:#0}", "{:.0}", "{:0.0}", "{:0$.0$}", "{:x$}", "{:.x$}", "{0$}", "{:1x}", "{:e?}"]


def rust_lit(s):
    """Python str -> Rust string literal source"""
    out = ['"']
    for c in s:
        o = ord(c)
        if c in '"\\':
            out.append("\\" + c)
        elif 0x20 <= o < 0x7f:
            out.append(c)
        else:
            out.append("\\u{%x}" % o)
    out.append('"')
    return "".join(out)


import re as _re
_EMPTY_DOT = _re.compile(r"\.(?![0-9*]|[^\W\d]\w*\$|_\w+\$)")


def without_empty_dots(l):
    """the literal with every precision dot that is followed by no count / `*` removed"""
    return _EMPTY_DOT.sub("", l)


# ------------------------------------------------------------------ the check

def run(tier, seed, replay):
    chk = common.Check("C03", tier, seed)
    rng = chk.rng
    inproc = common.build_inproc()
    stdbin, stdenv = common.build_stdfmt()

    # T-gen of the character tables (real unicode-xid / is_whitespace) + A-XID measurement
    tabs = gen_xid.generate(inproc)
    id_reqs = [{"cmd": "idclass", "lo": lo, "hi": min(lo + 0x8000, 0x110000)} for lo in range(0, 0x110000, 0x8000)]
    idr = common.run_jsonl(stdbin, id_reqs, env=stdenv, jobs=8)
    r_start = set(c for r in idr for c in r["start"]) - {0x5f}
    r_cont = set(c for r in idr for c in r["cont"])
    d_start, d_cont, _ = tabs["tables"]
    axid = sorted((r_start ^ d_start) | (r_cont ^ d_cont))
    chk.assumptions.append("A-XID: unicode-xid (derive_more) and rustc_lexer (rustc) classify every scalar value "
                           "alike; measured this run over all 0x110000 code points: %d differences%s" %
                           (len(axid), "" if not axid else " e.g. " + ", ".join(hex(c) for c in axid[:8])))
    avoid = set(axid)

    st = common.check_proofs(chk, "C03", extra_dirs=("Gen",))

    # ---- literals
    if replay:
        lits = [json.load(open(replay))["replay"]["literal"]]
        tie_lits = lits
    else:
        n_rand = 4000 if tier == "quick" else 60000
        lits = list(CORPUS)
        g = list(full_grammar())
        if tier == "quick":
            g = rng.sample(g, 60000)
        chk.bump("grammar_enumeration", len(g))
        lits += g
        base = [grammar_literal(rng) for _ in range(n_rand)]
        lits += base
        lits += [one_edit(rng, s) for s in base + rng.sample(g, min(len(g), n_rand * 3))]
        lits += [sequence(rng) for _ in range(n_rand)]
        sh = list(short_strings(3 if tier == "quick" else 4, ALPHABET))
        chk.bump("short_strings", len(sh))
        lits += sh
        ui = unicode_ident_literals(rng, d_start, d_cont, 1500 if tier == "quick" else 20000)
        chk.bump("unicode_ident_literals", len(ui))
        lits += ui
        lits = [l for l in dict.fromkeys(lits) if not any(ord(c) in avoid for c in l)]
        # the model-vs-code ties run on a subset (Coq evaluation is the slow part)
        n_tie = 6000 if tier == "quick" else 60000
        pool = lits[len(CORPUS):]
        tie_lits = list(CORPUS) + rng.sample(pool, min(n_tie, len(pool)))
    chk.log("%d literals (%d through the Coq models)" % (len(lits), len(tie_lits)))

    # ---- real implementations
    dm = common.run_jsonl(inproc, [{"cmd": "fmt_parse", "lit": l} for l in lits])
    sd = common.run_jsonl(stdbin, [{"lit": l} for l in lits], env=stdenv)
    real = {}
    for l, a, b in zip(lits, dm, sd):
        real[l] = (a, b)

    # second pass for the oracle: (1) literals std rejects, offered to the real transparent_call with the
    # argument shapes under which a literal is NOT handed to rustc; (2) literals with an empty precision dot
    rej = [l for l in lits if std_real(real[l][1]) is None]
    tr_reqs = []
    for l in rej:
        tr_reqs.append({"cmd": "fmt_attr", "tokens": rust_lit(l)})
        tr_reqs.append({"cmd": "fmt_attr", "tokens": rust_lit(l) + ", field"})
    tr = common.run_jsonl(inproc, tr_reqs)
    transparent = {}
    for k, l in enumerate(rej):
        transparent[l] = [r.get("transparent") for r in (tr[2 * k], tr[2 * k + 1])]
    dotted = [l for l in lits if without_empty_dots(l) != l]
    dd = common.run_jsonl(inproc, [{"cmd": "fmt_parse", "lit": without_empty_dots(l)} for l in dotted])
    undotted = dict(zip(dotted, dd))

    # third pass: std-ACCEPTED literals that are exactly one placeholder, offered to the real transparent_call under
    # the three argument shapes; the verdict must follow from std's reading (no modifiers; the placeholder refers to the
    # only argument by position 0 / implicitly / by its alias, or - without arguments - to a binding by name)
    bare = []
    for l in lits:
        a, b = real[l]
        if "panic" in a or "crash" in a:
            continue
        s_ = std_real(b)
        if isinstance(s_, list) and len(s_) == 1 and a.get("single") is not None and a["single"]["rest_len"] == 0:
            bare.append(l)
    if len(bare) > (6000 if tier == "quick" else 60000):
        bare = rng.sample(bare, 6000 if tier == "quick" else 60000)
    breqs = []
    for l in bare:
        breqs.append({"cmd": "fmt_attr", "tokens": rust_lit(l)})
        breqs.append({"cmd": "fmt_attr", "tokens": rust_lit(l) + ", field"})
        breqs.append({"cmd": "fmt_attr", "tokens": rust_lit(l) + ", zq = field"})
    bres = common.run_jsonl(inproc, breqs)
    chk.bump("bare_placeholders_offered_to_transparent_call", len(bare))
    for k, l in enumerate(bare):
        (param, star, sp) = std_real(real[l][1])[0]
        mods = has_mods(sp)
        want_trait = TRAIT_OF[sp["ty"]]
        positional0 = param[0] == "pos" and param[1] == 0
        expect = [(not mods) and param[0] == "name",
                  (not mods) and positional0,
                  (not mods) and (positional0 or param == ("name", "zq"))]
        for j, shape in enumerate(["no argument", "one positional argument", "one aliased argument `zq = ..`"]):
            r = bres[3 * k + j]
            if "err" in r or "panic" in r or "crash" in r:
                continue
            got = r.get("transparent")
            if bool(got) != expect[j] or (got and got["trait"] != want_trait):
                chk.violation("transparent-reading", {"literal": l, "arguments": shape, "std": [param, sp],
                                                      "transparent_call": got, "expected_delegation": expect[j]},
                              "for %r with %s std's reading (%s, modifiers=%s, trait %s) %s a delegation, transparent_call says %s" % (
                                  l, shape, param, mods, want_trait, "allows" if expect[j] else "forbids", got))

    # ---- oracle: real derive_more vs real rustc (independent of the models)
    n_acc = 0
    for l in lits:
        a, b = real[l]
        if "panic" in a or "crash" in a:
            chk.violation("dm-parser-panic", {"literal": l, "dm": a}, "derive_more's literal parser fails internally on %r" % l)
            continue
        s = std_real(b)
        if s == "weird":
            continue
        dm_formats = None if a["formats"] is None else [r_format(f) for f in a["formats"]]
        dm_ph = [r_placeholder(p) for p in a["placeholders"]]
        nontrivial = (s is not None and len(s) > 0) or (s is None) != (dm_formats is None)
        chk.count(l, nontrivial)
        if s is not None:
            n_acc += 1
            exp_ph = [(p, has_mods(sp), TRAIT_OF[sp["ty"]]) for (p, star, sp) in s]
            if dm_ph != exp_ph:
                cls = classify(l, s, dm_formats)
                u = undotted.get(l)
                if u is not None and "placeholders" in u and [r_placeholder(p) for p in u["placeholders"]] == exp_ph \
                        and dm_formats is None:
                    # explained exactly by `.` followed by no precision (pinned by the repo's own unit test)
                    cls = "empty-precision-dot"
                chk.violation(cls, {"literal": l, "std": s, "derive_more_placeholders": dm_ph, "derive_more_formats": dm_formats},
                              "std accepts %r with placeholders %s but derive_more sees %s" % (l, exp_ph, dm_ph))
                continue
            if len(s) > 0:
                if dm_formats is None or [norm_spec(f[1]) for f in dm_formats] != [sp for (_, _, sp) in s]:
                    chk.violation("spec-mismatch", {"literal": l, "std": s, "derive_more_formats": dm_formats},
                                  "fill/align/sign/#/0/width/precision differ on %r" % l)
        else:
            # never silently accepted: the only literals not shown to rustc are bare transparent ones
            t = transparent.get(l, [None, None])
            if t[0] or t[1]:
                chk.violation("silent-accept", {"literal": l, "std_errors": b["errors"], "transparent_call": t},
                              "std rejects %r but derive_more delegates (the literal never reaches format_args!)" % l)
    chk.bump("std_accepted", n_acc)
    chk.bump("std_rejected", len(lits) - n_acc)

    # ---- ties: models vs code, same literals
    exprs = ["(format_string unicode_cc %s, placeholders unicode_cc %s, std_parse unicode_cc %s, format_p unicode_cc %s)" %
             ((coq_str(l),) * 4) for l in tie_lits]
    terms = common.coq_eval(["Verif.C03.DmParse", "Verif.C03.StdParse", "Verif.Gen.XidTable"], exprs, batch=250)
    n_tie = 0
    for l, t in zip(tie_lits, terms):
        a, b = real[l]
        if "panic" in a or "crash" in a:
            continue
        m_formats = opt(t[0])
        m_formats = None if m_formats is None else [c_format(f) for f in m_formats]
        m_ph = [c_placeholder(p) for p in t[1]]
        m_std = std_model(t[2])
        m_single = opt(t[3])
        r_formats = None if a["formats"] is None else [r_format(f) for f in a["formats"]]
        r_ph = [r_placeholder(p) for p in a["placeholders"]]
        r_single = None if a["single"] is None else (len(l.encode()) - a["single"]["rest_len"], r_format(a["single"]["format"]))
        if m_single is not None:
            rest, f = m_single
            m_single = (len(l.encode()) - len(py_str(rest).encode()), c_format(f))
        n_tie += 1
        if m_formats != r_formats or m_ph != r_ph or m_single != r_single:
            chk.violation("tie-dm-model", {"literal": l, "model": [m_formats, m_ph, m_single], "code": [r_formats, r_ph, r_single]},
                          "Coq model of fmt/parsing.rs disagrees with the code on %r" % l)
        s = std_real(b)
        if s != "weird" and m_std != s:
            chk.violation("tie-std-model", {"literal": l, "model": m_std, "rustc": s, "errors": b["errors"]},
                          "Coq model of rustc_parse_format disagrees with rustc on %r" % l)
        chk.sample({"literal": l, "derive_more": r_ph, "std": s if s is None else [x[0] for x in s]}, limit=10)
    chk.cov["traces_validated_against_impl"] = n_tie

    extra_chk = {}
    if tier == "thorough" and not getattr(chk, "proof_broken", False):
        ok, ax, tail, skipped = common.coqchk_all()
        extra_chk = {"coqchk": {"command": "coqchk -o -silent -Q theories Verif <every Props module that builds>", "axioms": ax,
                                "ok": ok, "directories_not_rechecked_here": skipped}}
        if skipped:
            chk.notes.append("coqchk: the directories %s do not build at this moment (facts regenerated from another tree, or broken "
                             "proofs: their own checks report that) and were left out of this re-check" % ", ".join(skipped))
        if not ok:
            chk.violation("coqchk", {"axioms": ax, "output": tail}, "coqchk does not accept the development / reports axioms: %s" % ax,
                          no_input=True)
    if getattr(chk, "proof_broken", False) and not chk.violations:
        chk.violation("proof-broken", chk.proof_failure, "a C03 proof obligation no longer checks: %s" %
                      chk.proof_failure["failed"], no_input=True)
    elif getattr(chk, "proof_broken", False):
        chk.notes.append("proof obligation broken at %s; failing inputs found by the differential run" % chk.proof_failure["failed"])

    return chk.finish(
        proof=st,
        rule="literals: hand corpus + every derivation of a bounded std::fmt grammar (arg x ws x fill/align x sign x # x 0 x width "
             "x precision x 11 types x trailing ws) + grammar-random literals + one-edit neighbours + placeholder/text/escape "
             "sequences + all strings of length <=3 (quick) / <=4 (thorough) over a 30-symbol alphabet with 2-,3-,4-byte chars; "
             "non-trivial = std accepts with >=1 placeholder, or the two parsers disagree on acceptance; distinct by literal",
        trusted=TRUSTED,
        extra={**extra_chk, "unicode_tables": {"xid_start": tabs["start"], "xid_continue": tabs["cont"], "white_space": tabs["ws"],
                                  "axid_differences": len(axid)}})


def classify(l, s, dm_formats):
    """class of a placeholder mismatch (key for KNOWN_FINDINGS / readable report)"""
    if dm_formats is None:
        import re
        if re.search(r"\s", l):
            return "std-accepted-unparsable-whitespace"
        if "." in l:
            return "std-accepted-unparsable-dot"
        return "std-accepted-unparsable"
    if any(st is not None for (_, st, _) in s):
        return "star-counter"
    return "placeholder-mismatch"


META = {
    "level": "proof",
    "technique": "Coq proof of parser equivalence (derive_more's fmt parser vs rustc_parse_format) + differential correspondence of both models with the real parsers",
    "text": "Theorems over all strings (unbounded) about executable Gallina models of impl/src/fmt/parsing.rs, "
            "Placeholder::parse_fmt_string and rustc_parse_format: every std-accepted literal yields the same placeholder "
            "list (argument, trait, modifiers) in both; literals std rejects are never transparent. Both models are re-tied "
            "to the real parsers on every run (cases.v/vm_compute vs in-process harness and nightly rustc_parse_format), "
            "and the real parsers are compared directly with each other on ~10^5 literals.",
    "note": "Trusted: Coq kernel/vm_compute; hand models tied by differential runs; nightly rustc_parse_format as std oracle; "
            "unicode tables agree between unicode-xid and rustc_lexer (measured each run); syn LitStr unescaping.",
    "design_ref": "DESIGN.md section 2 / C03",
}
