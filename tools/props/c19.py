"""C19 - expansion is a deterministic pure function of the derive input.

proofs : coq/theories/C19 - hidden inputs made explicit (seed of RandomState, history of the process); given the
         facts about the source (Gen/HashFacts.v, regenerated on every run by tools/lib/c19_hashfacts.py) the model's
         output does not depend on them, and the emission order is the order by the fixed hash of the keys.
tie    : T-gen (the facts ARE the source: aliases' hasher, every hash-collection mention with its origin, every
         global-state / environment pattern).  C19_facts_ok is re-proved by vm_compute on the regenerated file.
search : (TESTING, labelled so) the real expanders, through the in-process harness, on a corpus that exercises every
         hash-iterating expander: (a) 8 fresh processes with different environments / cwd / ASLR, (b) one process AND
         one thread (harness cmd expand_seq - the proc-macro server expands a crate's derives on one thread), 3 orders
         of the whole corpus, (c) histories that differ in SIZE: small items of every hash-iterating expander alone (own
         process) vs after much larger items of the same / of other derives, twice, and after a different item of the
         same name, (d) NAME-COLLISION histories for every derive: two items spelling the same type tokens in the same
         fields under the same name, the identifier a type parameter in one and a concrete type in the other, each
         expanded before / after its partner and on a fresh thread, (e) DIAGNOSTIC histories for every derive: items
         that end in an error (legacy `fmt = ..` / `bound = ..` / `types(..)`, unknown or duplicate parameters, wrong arity,
         unsupported shapes ...) alone in a fresh process vs after a twin that errs the same way (both orders, one
         thread) vs late in a long-running process, (f) REAL rustc + real proc-macro server: each of ~130 items rich in
         repeated head identifiers (Box<A>/Box<B>, Vec<..>), for all 50 derives, textually identical at byte offsets that
         straddle 100 / 1000 / 10000 / 100000 inside the item and at offset 200000 after other items, expanded with
         `rustc -Zunpretty=expanded`; comparison of the emitted token strings / error texts.
         (h) items whose own parameter / lifetime / field / const names are names the macros introduce, repeated on one
         thread after other clashing items; (i) drift: 40 / 100 copies of an item taking an unusual path on one thread,
         then the probe corpus on that thread vs fresh.
tie 2  : T-corr of the model's tables: `from_str_groups` / `try_into_groups` (vm_compute) vs the keys and grouped variants the
         real FromStr / TryInto expansions emit, and the real arm order vs a fresh alias table holding the model's keys.
control: the same keys collected into the crate's alias set and into a std RandomState set (harness cmd hash_probe):
         the first must agree everywhere, the second is expected to differ (shows the search can see a violation).
"""
import json
import os
import shutil
import subprocess

from lib import common, c19_hashfacts

TRUSTED = [
    "Coq 8.16.1 kernel + vm_compute (coqc full .vo build); no axioms (Print Assumptions: closed)",
    "tools/lib/c19_hashfacts.py + tools/lib/rustlex_c19c20.py (Rust lexer, use-tree resolution, binding/iteration and "
    "state-pattern extraction) - trusted to LIST faithfully; counts cross-checked against regex-level counts; "
    "sensitivity controls re-run on mutated copies of the sources each run",
    "model abstraction: a std hash collection iterates in the order of hash(seed', key) (hashbrown's bucket order is a "
    "function of the hasher keys and the insertion sequence; both are functions of the item once the keys are fixed); "
    "SipHasher13 with constant keys is a pure function",
    "sources of nondeterminism outside the fact patterns (iteration over addresses, proc_macro2/syn internals) are not "
    "modelled - searched by the multi-process byte comparison only",
    "in-process harness (unmodified impl/src through #[path]); proc_macro2 fallback TokenStream::to_string",
]

HASH_DERIVES = {"TryInto": "try_into.rs", "FromStr": "from_str.rs", "Error": "error.rs"}
MUL_LIKE = ["Mul", "Div", "Rem", "Shr", "Shl"]
MUL_ASSIGN_LIKE = ["MulAssign", "DivAssign", "RemAssign", "ShrAssign", "ShlAssign"]

TYPES = ["i32", "u8", "i64", "String", "bool", "Vec<u8>", "&'static str", "(u8, u16)", "[u8; 4]", "Option<i32>",
         "Box<str>", "f64", "char", "u128", "std::string::String", "::core::primitive::u32", "fn(u8) -> u8"]
WORDS = ["foo", "bar", "baz", "qux", "alpha", "beta", "gamma", "delta", "x", "ab", "abc", "hello", "zz", "straße", "k1",
         "n_1", "omega", "rho", "tau", "phi"]


# ------------------------------------------------------------------ corpus

def case_variants(rng, w, n):
    out = []
    seen = set()
    cands = [w, w.upper(), w.capitalize(), w[:1] + w[1:].upper()]
    for _ in range(12):
        cands.append("".join(c.upper() if rng.random() < 0.5 else c for c in w))
    for c in cands:
        if c not in seen and c.isidentifier() and c.isascii():
            seen.add(c)
            out.append(c)
        if len(out) >= n:
            break
    return out


def gen_try_into(rng, k):
    nv = rng.randrange(3, 28)
    pool = rng.sample(TYPES, rng.randrange(2, len(TYPES)))
    vs = []
    groups = set()
    attrs_all = ["owned", "ref", "ref_mut"]
    top = rng.sample(attrs_all, rng.randrange(1, 4))
    for j in range(nv):
        nf = rng.choice([0, 1, 1, 1, 2, 2, 3])
        tys = [rng.choice(pool) for _ in range(nf)]
        va = ""
        refs = top
        if rng.random() < 0.2:
            refs = rng.sample(attrs_all, rng.randrange(1, 4))
            va = "#[try_into(%s)] " % ", ".join(refs)
        if rng.random() < 0.07:
            va = "#[try_into(ignore)] "
            refs = []
        for r in refs:
            groups.add((r, tuple(tys)))
        if nf == 0:
            vs.append("%sV%d" % (va, j))
        elif rng.random() < 0.3:
            vs.append("%sV%d { %s }" % (va, j, ", ".join("f%d: %s" % (q, t) for q, t in enumerate(tys))))
        else:
            vs.append("%sV%d(%s)" % (va, j, ", ".join(tys)))
    gen = rng.choice(["", "<T>", "<'a, T: Clone, const N: usize>"])
    if gen:
        vs.append("G(T)")
        for r in top:
            groups.add((r, ("T",)))
    item = "#[try_into(%s)] enum E%d%s { %s }" % (", ".join(top), k, gen, ", ".join(vs))
    return "TryInto", item, len(groups)


def gen_from_str(rng, k):
    words = rng.sample([w for w in WORDS if w.isascii()], rng.randrange(2, 9))
    names = []
    groups = 0
    for w in words:
        vs = case_variants(rng, w, rng.choice([1, 1, 2, 3, 5]))
        if vs:
            groups += 1
        names += vs
    rng.shuffle(names)
    names = list(dict.fromkeys(names))
    return "FromStr", "enum F%d { %s }" % (k, ", ".join(names)), groups


def gen_mul(rng, k, derive):
    params = ["A", "B", "C", "D", "E", "F", "G"][:rng.randrange(1, 8)]
    shapes = ["%s", "Vec<%s>", "Option<%s>", "[%s; 2]", "(%s, u8)", "Box<%s>"]
    nf = rng.randrange(1, 12)
    tys = []
    for _ in range(nf):
        if rng.random() < 0.25:
            tys.append(rng.choice(TYPES[:6]))
        else:
            tys.append(rng.choice(shapes) % rng.choice(params))
    used = [p for p in params if any(p in t for t in tys)]
    phantom = ""
    gen = "<%s>" % ", ".join(used) if used else ""
    tc = "," if k % 2 == 0 else ""          # with and without a trailing comma after the last field
    if rng.random() < 0.5:
        body = "{ %s%s }" % (", ".join("f%d: %s" % (q, t) for q, t in enumerate(tys)), tc)
        item = "struct M%d%s %s" % (k, gen, body)
    else:
        item = "struct M%d%s(%s%s);" % (k, gen, ", ".join(tys), tc)
    return derive, item + phantom, len(set(tys))


def gen_error(rng, k):
    params = ["A", "B", "C", "D", "E", "F", "G", "H"][:rng.randrange(1, 9)]
    wraps = ["%s", "%s", "Box<%s>", "&'static %s", "Wrap<%s>", "std::sync::Arc<%s>", "Pair<%s, u8>"]
    if rng.random() < 0.3:
        # struct
        p = rng.choice(params)
        item = "struct X%d<%s> { source: %s, other: u8 }" % (k, p, rng.choice(wraps) % p)
        return "Error", item, 1
    vs = []
    bounds = set()
    for j, p in enumerate(params):
        t = rng.choice(wraps) % p
        r = rng.random()
        if r < 0.4:
            vs.append("V%d { source: %s }" % (j, t))
        elif r < 0.7:
            vs.append("V%d(%s)" % (j, t))
        elif r < 0.85:
            vs.append("V%d(#[error(source)] %s, i32)" % (j, t))
        else:
            vs.append("V%d { #[error(source)] inner: %s, n: u8 }" % (j, t))
        bounds.add(t.replace("&'static ", ""))
    vs.append("Plain")
    vs.append("Fixed { source: std::io::Error }")
    item = "enum X%d<%s> { %s }" % (k, ", ".join(params), ", ".join(vs))
    return "Error", item, len(bounds)


def gen_small(rng, mech, k):
    """an item whose iterated collection has 2-6 entries"""
    nm = "Sm%d" % k
    if mech == "from_str":
        ws = rng.sample(["low", "medium", "high", "red", "green", "blue", "north", "east", "up", "down", "left", "q"],
                        rng.randrange(2, 7))
        return "FromStr", "enum %s { %s }" % (nm, ", ".join(w.capitalize() for w in ws)), len(ws)
    if mech == "try_into":
        tys = rng.sample(TYPES[:12], rng.randrange(2, 6))
        return "TryInto", "#[try_into(owned, ref)] enum %s { %s }" % (
            nm, ", ".join("V%d(%s)" % (i, t) for i, t in enumerate(tys))), 2 * len(tys)
    if mech == "error":
        ps = ["A", "B", "C", "D", "E"][:rng.randrange(2, 6)]
        return "Error", "enum %s<%s> { %s }" % (nm, ", ".join(ps), ", ".join(
            "V%d { source: %s }" % (i, p) for i, p in enumerate(ps))), len(ps)
    ps = ["A", "B", "C", "D", "E"][:rng.randrange(2, 6)]
    d = rng.choice(MUL_LIKE if mech == "mul_like" else MUL_ASSIGN_LIKE)
    if k % 3 == 0:
        return d, "struct %s<%s> { %s }" % (nm, ", ".join(ps), ", ".join("f%d: %s" % (i, q) for i, q in enumerate(ps))), len(ps)
    return d, "struct %s<%s>(%s%s);" % (nm, ", ".join(ps), ", ".join(ps), "," if k % 2 else ""), len(ps)


def gen_big(rng, mech, k, n):
    """an item of the same mechanism whose iterated collection has about n entries"""
    nm = "Big%d" % k
    if mech == "from_str":
        return "FromStr", "enum %s { %s }" % (nm, ", ".join("Name%dx%d" % (k, i) for i in range(n))), n
    if mech == "try_into":
        return "TryInto", "#[try_into(owned, ref, ref_mut)] enum %s { %s }" % (
            nm, ", ".join("V%d([u8; %d])" % (i, i + 1) for i in range(n))), 3 * n
    if mech == "error":
        ps = ["P%d" % i for i in range(n)]
        return "Error", "enum %s<%s> { %s }" % (nm, ", ".join(ps), ", ".join(
            "V%d { source: %s }" % (i, p) for i, p in enumerate(ps))), n
    ps = ["P%d" % i for i in range(n)]
    d = (MUL_LIKE if mech == "mul_like" else MUL_ASSIGN_LIKE)[k % 5]
    return d, "struct %s<%s>(%s);" % (nm, ", ".join(ps), ", ".join(ps)), n


MECHS = ["from_str", "try_into", "error", "mul_like", "mul_assign_like"]

SPELLINGS = ["%s", "Box<%s>", "&'static %s", "Vec<%s>", "Option<%s>", "Wrap<%s>", "(%s, u8)", "[%s; 2]",
             "::std::sync::Arc<%s>", "Pair<u8, %s>", "fn(%s) -> u8", "*const %s", "<%s as Tr>::Out", "%s::Assoc"]
IDENTS = ["Cause", "Inner", "T", "Item", "Source", "Payload"]
# derives whose expansion consults the item's type parameters (bounds / where-clauses / blanket-impl decisions)
TYPE_PARAM_DERIVES = {"Error", "Display", "Debug", "Binary", "Octal", "LowerHex", "UpperHex", "LowerExp", "UpperExp",
                      "Pointer", "From", "Into", "AsRef", "AsMut", "TryInto"}


def collision_shapes(derive, attr, name, ident, ty, generic):
    """items of `derive` whose field types spell `ty` (which mentions `ident`); `ident` is a type parameter of the
    item iff `generic` - everything else (item name, field names, type tokens) is identical"""
    g = "<%s>" % ident if generic else ""
    out = []
    if derive == "Error":
        out.append("struct %s%s { source: %s }" % (name, g, ty))
        out.append("struct %s%s { source: %s, code: u8, }" % (name, g, ty))
        out.append("enum %s%s { A { source: %s }, B(%s), C }" % (name, g, ty, ty))
        out.append("struct %s%s(#[error(source)] %s, u8);" % (name, g, ty))
        return out
    if derive in ("Display", "Binary", "Octal", "LowerHex", "UpperHex", "LowerExp", "UpperExp", "Pointer"):
        a = attr or "display"
        out.append("struct %s%s(%s);" % (name, g, ty))
        out.append('#[%s("{field}")] struct %s%s { field: %s }' % (a, name, g, ty))
        out.append('#[%s("{_0} {_1:?}")] struct %s%s(%s, %s);' % (a, name, g, ty, ty))
        out.append('enum %s%s { #[%s("{_0}")] A(%s), #[%s("b")] B }' % (name, g, a, ty, a))
        return out
    if derive == "Debug":
        out.append("struct %s%s { field: %s }" % (name, g, ty))
        out.append("struct %s%s(%s, u8,);" % (name, g, ty))
        out.append('struct %s%s { #[debug("{field:?}")] field: %s, #[debug(skip)] other: %s }' % (name, g, ty, ty))
        out.append("enum %s%s { A(%s), B { field: %s } }" % (name, g, ty, ty))
        return out
    if derive in ("AsRef", "AsMut"):
        a = attr or "as_ref"
        out.append("struct %s%s(%s);" % (name, g, ty))
        out.append("#[%s(forward)] struct %s%s(%s);" % (a, name, g, ty))
        out.append("#[%s(%s)] struct %s%s(%s);" % (a, ty, name, g, ty))
        out.append("struct %s%s { #[%s(%s, u8)] field: %s, other: u8 }" % (name, g, a, ty, ty))
        return out
    if derive in ("From", "Into"):
        a = attr or derive.lower()
        out.append("struct %s%s(%s);" % (name, g, ty))
        out.append("#[%s(forward)] struct %s%s(%s);" % (a, name, g, ty))
        out.append("struct %s%s { field: %s, other: u8 }" % (name, g, ty))
        out.append("#[%s(%s)] struct %s%s(%s);" % (a, ty, name, g, ty))
        if derive == "From":
            out.append("enum %s%s { A(%s), B(u8) }" % (name, g, ty))
        else:
            out.append("#[into(owned, ref, ref_mut)] struct %s%s(%s);" % (name, g, ty))
        return out
    if derive in ("TryInto", "Unwrap", "TryUnwrap", "IsVariant", "TryFrom"):
        out.append("enum %s%s { A(%s), B(u8), C(%s, u8) }" % (name, g, ty, ty))
        out.append("enum %s%s { A { field: %s }, B }" % (name, g, ty))
        return out
    # every other derive (Mul-like, MulAssign-like, Add-like, Not, Sum, Deref, Index, IntoIterator, Constructor, FromStr ...)
    out.append("struct %s%s(%s);" % (name, g, ty))
    out.append("struct %s%s { field: %s, other: %s }" % (name, g, ty, ty))
    out.append("struct %s%s { field: %s, other: u8, }" % (name, g, ty))
    out.append("struct %s%s(%s, u8);" % (name, g, ty))
    out.append("enum %s%s { A(%s), B { field: %s } }" % (name, g, ty, ty))
    if attr:
        out.append("#[%s(forward)] struct %s%s(%s);" % (attr, name, g, ty))
    return out


def collision_pairs(rng, table, attrs, n_spellings):
    """[(class, derive, generic item, concrete item)] - the two items of a pair differ ONLY in whether the identifier
    is declared as a type parameter"""
    pairs = []
    k = 0
    for derive, feature in table:
        cls = class_of(derive, feature)
        sensitive = derive in TYPE_PARAM_DERIVES or derive in MUL_LIKE or derive in MUL_ASSIGN_LIKE
        for sp in rng.sample(SPELLINGS, max(n_spellings, 8) if sensitive else n_spellings):
            ident = "%s%d" % (rng.choice(IDENTS), k)
            ty = sp % ident
            name = "Nc%d" % k
            ga = collision_shapes(derive, attrs.get(derive), name, ident, ty, True)
            ca = collision_shapes(derive, attrs.get(derive), name, ident, ty, False)
            q = rng.randrange(len(ga))
            pairs.append((cls, derive, ga[q], ca[q]))
            k += 1
    return pairs


FMT_DERIVES = ["Display", "Binary", "Octal", "LowerHex", "UpperHex", "LowerExp", "UpperExp", "Pointer"]


def class_of(derive, feature):
    return {"Error": "error", "FromStr": "from_str", "TryInto": "try_into"}.get(derive) or (
        "mul_like" if derive in MUL_LIKE else "mul_assign_like" if derive in MUL_ASSIGN_LIKE else feature)


def diag_twins(derive, attr, k):
    """items of `derive` that (are meant to) end in a DIAGNOSTIC, as twins (A, B): the same kind of mistake on
    two different items -> [(kind, item A, item B)]"""
    a = attr or derive.lower()
    A, B = "Da%d" % k, "Db%d" % k
    out = []

    def both(kind, tmpl, xa=("Stuff", "String", "_0"), xb=("Thing", "u64", "_0")):
        out.append((kind, tmpl.format(n=A, w=xa[0], t=xa[1], f=xa[2], a=a), tmpl.format(n=B, w=xb[0], t=xb[1], f=xb[2], a=a)))

    # mistakes every derive can be offered
    both("unknown-parameter", "#[{a}(bogus_{w})] struct {n}({t});")
    both("unknown-name-value", "#[{a}(bogus = \"{w}\")] struct {n}({t});")
    both("unknown-nested", "#[{a}(bogus({w}))] struct {n} {{ field: {t} }}")
    both("duplicate-attribute", "#[{a}(forward)] #[{a}(forward)] struct {n}({t});")
    both("duplicate-parameter", "#[{a}(ignore, ignore)] struct {n}({t}, u8);")
    both("attribute-on-field", "struct {n}(#[{a}(bogus_{w})] {t});")
    both("attribute-on-variant", "enum {n} {{ #[{a}(bogus_{w})] A({t}), B }}")
    both("literal-parameter", "#[{a}(\"{w}\")] struct {n}({t});")
    both("empty-parameter", "#[{a}()] struct {n}({t});")
    both("unit-struct", "struct {n};")
    both("empty-enum", "enum {n} {{}}")
    both("two-fields", "struct {n}({t}, {t});")
    both("three-named-fields", "struct {n} {{ a: {t}, b: {t}, c: u8 }}")
    both("enum-shape", "enum {n} {{ A({t}), B {{ x: {t} }}, C }}")
    both("union-shape", "union {n} {{ a: u8, b: u16 }}")
    both("legacy-types", "#[{a}(types({t}, \"&str\"))] struct {n}(i64);")
    both("ignore-all", "struct {n}(#[{a}(ignore)] {t});")
    if derive in FMT_DERIVES or derive == "Debug":
        both("legacy-fmt", "#[{a}(fmt = \"{w}({{}}): {{}}\", {f})] struct {n}({t});")
        both("legacy-fmt-str-arg", "#[{a}(fmt = \"{w}({{}})\", \"{f}\")] struct {n}({t});")
        both("legacy-fmt-variant", "enum {n} {{ #[{a}(fmt = \"{w} {{}}\", {f})] A({t}), B }}")
        both("legacy-fmt-field", "struct {n} {{ #[{a}(fmt = \"{w} {{}}\", field)] field: {t} }}")
        both("legacy-bound", "#[{a}(bound = \"T: {w}\")] struct {n}<T>(T);")
        both("bad-literal", "#[{a}(\"{w} {{\")] struct {n}({t});")
        both("unknown-argument", "#[{a}(\"{w} {{nope}}\")] struct {n}({t});")
        both("too-many-positional", "#[{a}(\"{w} {{}} {{}} {{}}\", {f})] struct {n}({t});")
        both("format-on-multi-field-without", "struct {n}({t}, {t}, {t});")
        both("enum-level-format-mixed", "#[{a}(\"{w}\")] enum {n} {{ #[{a}(\"a\")] A, B }}")
        both("skip-with-format", "struct {n} {{ #[{a}(skip, \"{w}\")] field: {t} }}")
    if derive == "Error":
        both("two-sources", "struct {n} {{ #[error(source)] a: {t}, #[error(source)] b: {t} }}")
        both("two-backtraces", "struct {n} {{ #[error(backtrace)] a: {t}, #[error(backtrace)] b: {t} }}")
        both("source-not-source", "struct {n} {{ #[error(source, not(source))] a: {t} }}")
        both("nested-not", "struct {n} {{ #[error(not(not(source)))] a: {t} }}")
    if derive in ("TryFrom",):
        both("repr-with-fields", "#[repr(u8)] #[try_from(repr)] enum {n} {{ A({t}), B }}")
        both("unknown-repr", "#[repr({w})] #[try_from(repr)] enum {n} {{ A, B }}")
        both("try-from-struct", "#[try_from(repr)] struct {n}({t});")
    if derive in ("From", "Into"):
        both("forward-and-types", "#[{a}(forward, {t})] struct {n}({t});")
        both("bad-type", "#[{a}(+{w})] struct {n}({t});")
        both("legacy-types-owned", "#[{a}(owned(types({t})))] struct {n}({t});")
    if derive in ("AsRef", "AsMut"):
        both("forward-with-type", "#[{a}(forward, {t})] struct {n}({t});")
        both("multi-field-no-attr", "#[{a}({t})] struct {n}({t}, {t});")
    if derive in ("Unwrap", "TryUnwrap", "IsVariant", "TryInto"):
        both("struct-shape", "struct {n}({t});")
        both("ref-on-struct", "#[{a}(ref, ref_mut, owned, bogus)] enum {n} {{ A({t}) }}")
    if derive == "FromStr":
        both("enum-with-fields", "enum {n} {{ A({t}), B }}")
        both("case-collision", "enum {n} {{ {w}, {w}x }}", xa=("Ab", "", ""), xb=("Cd", "", ""))
    return out


# ------------------------------------------------------------------ real rustc: the same item at different byte offsets

def position_items(derive, attr, k):
    """items rich in repeated head identifiers (Box<A>/Box<B>, Vec<..>, same-shaped generics) for `derive`"""
    a = attr or derive.lower()
    n = "Po%d" % k
    out = []
    if derive == "Error":
        out += ["pub enum %s<A, B> { Read(Box<A>), Write(Box<B>) }" % n,
                "pub enum %s<A, B, C> { R { source: Box<A> }, W { source: Box<B> }, X { source: Vec<C> }, Y { source: Vec<A> } }" % n,
                "pub struct %s<A, B> { source: Box<A>, other: Box<B> }" % n]
    elif derive in FMT_DERIVES:
        out += ['#[%s("{_0:?} {_1:?}")] pub struct %s<A, B>(Box<A>, Box<B>);' % (a, n),
                '#[%s("{a} {b}")] pub struct %s<A, B> { a: Box<A>, b: Box<B>, c: Vec<A>, d: Vec<B> }' % (a, n),
                'pub enum %s<A, B> { #[%s("{_0}")] X(Box<A>), #[%s("{_0}")] Y(Box<B>) }' % (n, a, a)]
    elif derive == "Debug":
        out += ["pub struct %s<A, B> { a: Box<A>, b: Box<B>, c: Vec<A>, d: Vec<B> }" % n,
                "pub enum %s<A, B> { X(Box<A>, Box<B>), Y { v: Vec<A>, w: Vec<B> } }" % n,
                '#[debug("{a:?} {b:?}")] pub struct %s<A, B> { a: Box<A>, b: Box<B> }' % n]
    elif derive in ("AsRef", "AsMut"):
        out += ["pub struct %s<A, B> { #[%s] a: Box<A>, #[%s] b: Box<B> }" % (n, a, a),
                "#[%s(forward)] pub struct %s<A>(Box<A>);" % (a, n),
                "pub struct %s<A, B> { #[%s(Box<A>, Vec<A>)] a: Wr<A>, #[%s(Box<B>, Vec<B>)] b: Wr<B> }" % (n, a, a)]
    elif derive in ("TryInto", "Unwrap", "TryUnwrap", "IsVariant"):
        out += ["pub enum %s<A, B> { X(Box<A>), Y(Box<B>), Z(Vec<A>, Vec<B>), W(Vec<A>) }" % n,
                "#[%s(owned, ref, ref_mut)] pub enum %s<A, B> { X(Box<A>), Y(Box<B>), Z(Box<A>, Box<B>) }" % (a, n)]
    elif derive == "TryFrom":
        out += ["#[try_from(repr)] #[repr(u8)] pub enum %s { Aa = 1, Ab = 2, Ba = 10, Bb }" % n]
    elif derive == "FromStr":
        out += ["pub enum %s { Alpha, ALPHA, Beta, BETA, Gamma, Delta, DELTA }" % n, "pub struct %s<A>(Box<A>);" % n]
    elif derive in ("From", "Into"):
        out += ["pub struct %s<A, B>(Box<A>, Box<B>);" % n,
                "pub struct %s<A, B> { a: Box<A>, b: Box<B>, c: Vec<A> }" % n,
                "#[%s(forward)] pub struct %s<A>(Box<A>);" % (a, n)]
        if derive == "From":
            out += ["pub enum %s<A, B> { X(Box<A>), Y(Box<B>), Z(Vec<A>, Vec<B>) }" % n]
        else:
            out += ["#[into(owned, ref, ref_mut)] pub struct %s<A, B>(Box<A>, Box<B>);" % n]
    else:
        out += ["pub struct %s<A, B> { a: Box<A>, b: Box<B>, c: Vec<A>, d: Vec<B> }" % n,
                "pub struct %s<A, B>(Box<A>, Box<B>, Vec<A>, Vec<B>);" % n,
                "pub struct %s<A>(Box<A>);" % n,
                "pub enum %s<A, B> { X(Box<A>), Y(Box<B>), Z { v: Vec<A>, w: Vec<B> } }" % n]
        if attr:
            out += ["#[%s(forward)] pub struct %s<A>(Box<A>);" % (a, n),
                    "pub struct %s<A, B> { #[%s] a: Box<A>, b: Box<B> }" % (n, a)]
    return out


def split_points(item):
    """byte offsets inside `item` that fall between two occurrences of a repeated identifier"""
    import re
    occ = {}
    for m in re.finditer(r"[A-Za-z_][A-Za-z0-9_]*", item):
        occ.setdefault(m.group(0), []).append(m.start())
    pts = set()
    for name, ps in occ.items():
        if len(ps) >= 2 and name not in ("pub", "A", "B", "C"):
            for p, q in zip(ps, ps[1:]):
                pts.add(p + 1 + (q - p) // 2)
    if not pts:
        pts = {len(item) // 3, 2 * len(item) // 3}
    return sorted(pts)


BOUNDARIES = [100, 1000, 10000, 100000]


def position_file(derive_path, item, split):
    """one source file: the item, textually identical, in modules c1.. so that byte offset 10^n falls at `split` inside
    the copy (its leading tokens get n-digit positions, the trailing ones n+1-digit positions: their order as decimal
    STRINGS differs from their numeric order), then a control copy far from any boundary, after another large item"""
    text = ""
    copies = 0
    body = "#[derive(%s)] %s" % (derive_path, item)
    off_in_body = len("#[derive(%s)] " % derive_path) + split
    for b in BOUNDARIES:
        head = "mod c%d { " % (copies + 1)
        start = b - off_in_body - len(head)
        if start < len(text) + 1:
            continue
        text += " " * (start - len(text) - 1) + "\n"
        copies += 1
        text += head + body + " }\nconst __M%d: () = ();\n" % copies
    # control copy: positions 2xxxxx..., preceded by an unrelated large item
    filler = "pub enum Filler { %s }\n" % ", ".join("V%d(Box<u8>, Vec<u16>)" % i for i in range(40))
    text += filler
    start = 200000
    text += " " * (start - len(text) - 1) + "\n"
    copies += 1
    text += "mod c%d { %s }\nconst __M%d: () = ();\n" % (copies, body, copies)
    return text, copies


def split_expanded(out, copies):
    """`-Zunpretty=expanded` output -> the text of each `mod cN { .. }`, module name normalised"""
    import re
    parts = []
    rest = out
    for i in range(1, copies + 1):
        marker = "const __M%d: () = ();" % i
        p = rest.find(marker)
        if p < 0:
            return None
        seg = rest[:p]
        rest = rest[p + len(marker):]
        q = seg.rfind("mod c%d {" % i)
        if q < 0:
            return None
        parts.append(re.sub(r"^mod c%d \{" % i, "mod c {", seg[q:].strip()))
    return parts


def rustc_env():
    """the real derive_more (full) built once: -> (deps dir, path of libderive_more*.rlib)"""
    d = common.make_crate("c19_pos_dep", "fn main() {}\n", features=("full",))
    tdir = os.path.join(common.BUILD, "target-c19pos")
    rc, out = common.cargo(d, ["build", "--quiet"], target_dir=tdir)
    common.cleanup_scratch("c19_pos_dep")
    if rc != 0:
        raise common.BuildError("cannot build derive_more for the real-rustc stage:\n" + out[-2000:])
    deps = os.path.join(tdir, "debug", "deps")
    rlibs = sorted((os.path.getmtime(os.path.join(deps, f)), f) for f in os.listdir(deps)
                   if f.startswith("libderive_more-") and f.endswith(".rlib"))
    if not rlibs:
        raise common.BuildError("no libderive_more rlib in " + deps)
    return deps, os.path.join(deps, rlibs[-1][1])


# ------------------------------------------------------------------ names the macros INTRODUCE, used as user names

def introduced_names():
    """-> (per-file {file: set(names)}, module -> files) read from impl/src: identifiers `__x..` and lifetimes `'__x..`
    that occur in the sources (templates, format_ident! literals), placeholders filled in, plus the fixed binding names"""
    import re
    root = os.path.join(common.REPO, "impl", "src")
    per_file = {}
    for d, _, names in os.walk(root):
        for n in names:
            if not n.endswith(".rs"):
                continue
            src = open(os.path.join(d, n)).read()
            src = re.sub(r"//[^\n]*", "", src)
            found = set()
            for m in re.finditer(r"'?\b__[A-Za-z][A-Za-z0-9_]*(?:\{[a-z_]*\})*(?:[A-Za-z0-9_]*)", src):
                t = m.group(0)
                t = re.sub(r"\{(prefix)\}", "l_", t)
                t = re.sub(r"\{[a-z_]*\}", "0", t) if not t.endswith("DISCRIMINANT_{}") else t.replace("{}", "A")
                if t.startswith("__DISCRIMINANT_") and t.endswith("_0"):
                    t = "__DISCRIMINANT_A"
                found.add(t)
            for lit in re.findall(r'format_ident!\(\s*"([^"]+)"', src):
                if "{" in lit and not lit.startswith("{"):
                    found.add(re.sub(r"\{[a-z_]*\}", "0", lit))
                elif "{" not in lit:
                    found.add(lit)
            rel = os.path.relpath(os.path.join(d, n), root)
            per_file[rel] = set(x for x in found if re.fullmatch(r"'?[A-Za-z_][A-Za-z0-9_]*", x))
    return per_file


FIXED_INTRODUCED = ["_0", "_1", "_variant", "__0", "__1", "__l_0", "__r_0", "value", "rhs", "src", "request", "other",
                    "field_0", "__derive_more_f", "__self", "Self_", "T", "U", "Output", "Error", "Target", "Item", "IntoIter"]


def clash_items(derive, attr, names, k):
    """items of `derive` whose OWN parameter / lifetime / field / variant / const names are names the macros introduce"""
    out = []
    i = 0
    for nm in names:
        i += 1
        n = "Cl%d_%d" % (k, i)
        if nm.startswith("'"):
            out.append("pub struct %s<%s> { value: &%s i32 }" % (n, nm, nm))
            out.append("pub enum %s<%s> { A(&%s i32), B }" % (n, nm, nm))
            continue
        out.append("pub struct %s<%s> { value: %s }" % (n, nm, nm))
        out.append("pub struct %s<%s>(%s);" % (n, nm, nm))
        if nm[:1] != "_" or nm.startswith("__"):
            out.append("pub enum %s<%s> { A(%s), B }" % (n, nm, nm))
        out.append("pub struct %s { %s: i32 }" % (n, nm))
        out.append("pub struct %s { %s: i32, other: i32 }" % (n, nm))
        out.append("pub struct %s<const %s: usize>([u8; %s]);" % (n, nm, nm))
        if attr:
            out.append("#[%s(forward)] pub struct %s<%s>(%s);" % (attr, n, nm, nm))
    return out


DRIFT_SHAPES = [
    # unusual paths through the type / attribute walkers, repeated many times on one thread before the probes
    ("qself-generic", "pub struct {n}<T: Tr>(<T as Tr>::Out, u32);"),
    ("qself-generic-named", "pub struct {n}<T: Tr> {{ a: <T as Tr>::Out, b: u32 }}"),
    ("qself-nested", "pub struct {n}<T: Tr>(Vec<<T as Tr>::Out>, Option<<Vec<T> as Tr>::Out>);"),
    ("assoc-path", "pub struct {n}<T: Tr>(T::Out, u32);"),
    ("deep-nesting", "pub struct {n}<T>(" + "Vec<" * 40 + "T" + ">" * 40 + ");"),
    ("deep-tuple", "pub struct {n}<T>(" + "(" * 20 + "T," + ",)" * 0 + ")" * 20 + ");"),
    ("fn-pointer", "pub struct {n}<T>(fn(T) -> T, u32);"),
    ("dyn-trait", "pub struct {n}<T>(Box<dyn Fn(T) -> T>, u32);"),
    ("impl-macro-type", "pub struct {n}<T>(m!(T), u32);"),
    ("raw-pointer", "pub struct {n}<T>(*const T, *mut [T; 3], u32);"),
    ("reference-slice", "pub struct {n}<'a, T>(&'a [T], &'a mut T, u32);"),
    ("unit-struct", "pub struct {n};"),
    ("empty-enum", "pub enum {n} {{}}"),
    ("enum-mixed", "pub enum {n}<T> {{ A(T), B {{ x: <T as Tr>::Out }}, C }}"),
    ("union", "pub union {n} {{ a: u8, b: u16 }}"),
    ("bad-attr", "#[{a}(bogus)] pub struct {n}<T>(T);"),
    ("legacy-fmt", "#[{a}(fmt = \"x{{}}\", _0)] pub struct {n}<T>(T);"),
    ("many-generics", "pub struct {n}<A, B, C, D, E, F, G, H>(A, B, C, D, E, F, G, H);"),
    ("fmt-qself", "#[{a}(\"{{_0}} {{_1}}\")] pub struct {n}<T: Tr>(<T as Tr>::Out, u32);"),
    ("fmt-bound", "#[{a}(bound(T: Tr))] #[{a}(\"{{_0:?}}\")] pub struct {n}<T>(<T as Tr>::Out);"),
]
DRIFT_DERIVES = ["Display", "Debug", "LowerHex", "Error", "From", "Into", "AsRef", "Mul", "MulAssign", "Add", "TryInto",
                 "FromStr", "Deref", "Not", "Sum", "Constructor", "Index", "IntoIterator", "IsVariant", "Unwrap"]


def derive_attr_names():
    """derive name -> its first helper attribute, from the create_derive! table of impl/src/lib.rs"""
    import re
    src = open(os.path.join(common.REPO, "impl", "src", "lib.rs")).read()
    out = {}
    for m in re.finditer(r"create_derive!\(([^;]*?)\);", src, re.S):
        args = [a.strip() for a in m.group(1).replace("\n", " ").split(",") if a.strip()]
        if len(args) >= 4 and args[0].startswith('"'):
            out[args[2]] = args[4] if len(args) > 4 else None
    return out


def run_seq(binary, seq, env, cwd, timeout=600):
    """one fresh process, ONE thread: the expand requests of `seq` one after the other -> list of parsed answers"""
    lines, rc = run_process(binary, [{"cmd": "expand_seq", "reqs": seq}], env, cwd, timeout=timeout)
    if rc != 0 or len(lines) != 1:
        return None
    try:
        return json.loads(lines[0])["seq"]
    except Exception:
        return None


LEGACY = [
    ("From", '#[from(types(i32, "&str"))] struct L1(i64);'),
    ("From", "#[from(types(u8, u16, u8))] struct L2(u32);"),
    ("Into", "#[into(types(i32, i64))] struct L3(i8);"),
    ("Into", '#[into(owned(types(i64, i128)), ref, ref_mut(types("i16")))] struct L4(i8);'),
    ("Into", "#[into(types(i32, i32))] struct L5(i8, i16);"),
    ("TryInto", "#[try_into(types(u8, u8))] enum L6 { A(u8) }"),
    ("From", "#[from(i32, i64, u8, u16, i128)] struct L7(u128);"),
    ("From", "enum L8 { #[from(types(u8, i8))] A(i64), B(String) }"),
    ("Into", "#[into(i32, i64, u64, (u8))] struct L9(i8);"),
    ("Into", "#[into(owned(i64, i128), ref(i8), ref_mut)] struct L10(i8);"),
]

# items with SEVERAL attributes of the same derive that get merged (>= 3 distinct listed types / predicates in total):
# a hash-ordered merge shows up across fresh processes
MULTI_ATTR = [
    ("Into", "#[into(i64, i128)] #[into(f64)] pub struct Ma1(i32);"),
    ("Into", "#[into(owned(i64, i128, u64))] #[into(ref(i32))] #[into(ref_mut(i32), owned(f64))] pub struct Ma2(i32);"),
    ("Into", "#[into(i64)] #[into(i128)] #[into(f32)] #[into(f64)] pub struct Ma3(i16);"),
    ("Into", "pub struct Ma4 { #[into(i64, i128)] #[into(f64, f32)] a: i32, #[into(skip)] b: u8 }"),
    ("Into", "#[into(owned, ref)] #[into(ref_mut)] pub struct Ma5(i32, u8);"),
    ("Into", "#[into((i64, u16), (i128, u32))] #[into((f64, u64))] pub struct Ma6(i32, u8);"),
    ("From", "#[from(i8, i16)] #[from(u8, u16, u32)] pub struct Mf1(i64);"),
    ("From", "pub enum Mf2 { #[from(i8, i16)] #[from(i32)] A(i64), #[from(u8)] #[from(u16, u32)] B(u64), #[from(ignore)] C(f32) }"),
    ("From", "#[from((i8, u8), (i16, u16))] #[from((i32, u32))] pub struct Mf3(i64, u64);"),
    ("From", "#[from(forward)] #[from(i8)] pub struct Mf4(i64);"),
    ("AsRef", "pub struct Mr1 { #[as_ref(str, [u8])] #[as_ref(String)] a: String, b: u8 }"),
    ("AsRef", "#[as_ref(i32)] #[as_ref(u8, u16)] pub struct Mr2(Wn);"),
    ("AsMut", "pub struct Mr3 { #[as_mut(str)] #[as_mut(String, [u8])] a: String, b: u8 }"),
    ("AsMut", "#[as_mut(i32, i64)] #[as_mut(u8)] pub struct Mr4(Wn);"),
    ("Display", '#[display(bound(A: Clone, B: Copy))] #[display(bound(C: Default))] #[display("{a}")] pub struct Md1<A, B, C> { a: A, b: B, c: C }'),
    ("Display", '#[display("{_0}")] #[display(bound(A: core::fmt::Display, B: Clone, C: Copy))] pub struct Md2<A, B, C>(A, B, C);'),
    ("Display", '#[display(rename_all = "snake_case")] #[display(bound(A: Clone))] #[display(bound(B: Copy, C: Eq))] pub enum Md3<A, B, C> { FooBar(A), BazQux(B), Quux(C) }'),
    ("Display", 'pub enum Md4<A, B> { #[display("{_0}")] #[display(bound(A: Clone, B: Copy))] X(A), #[display("y")] Y(B) }'),
    ("UpperHex", '#[upper_hex(bound(A: Clone, B: Copy))] #[upper_hex(bound(C: Default))] #[upper_hex("{_0:X}")] pub struct Md5<A, B, C>(A, B, C);'),
    ("Binary", '#[binary(bound(A: Clone))] #[binary(bound(B: Copy))] #[binary(bound(C: Eq))] #[binary("{_0:b}")] pub struct Md6<A, B, C>(A, B, C);'),
    ("Debug", '#[debug(bound(A: Clone, B: Copy))] #[debug(bound(C: Default))] pub struct Mg1<A, B, C> { a: A, #[debug("{b:?}")] #[debug(skip)] b: B, c: C }'),
    ("Debug", 'pub struct Mg2<A, B, C> { #[debug("{a:?}")] a: A, #[debug(skip)] b: B, #[debug("{}", 1)] c: C }'),
    ("Debug", '#[debug(bound(A: Clone))] #[debug(bound(B: Copy))] #[debug(bound(C: Eq))] pub enum Mg3<A, B, C> { X(A), Y { b: B }, Z(C) }'),
    ("Error", "pub struct Me1<A, B, C> { #[error(source)] #[error(not(backtrace))] a: A, #[error(not(source))] b: B, #[error(ignore)] c: C }"),
    ("Error", "pub enum Me2<A, B, C> { #[error(ignore)] X(A), Y { #[error(source)] s: B, #[error(not(source))] #[error(not(backtrace))] t: C }, Z(#[error(source)] C, u8) }"),
    ("TryFrom", "#[repr(u8)] #[repr(C)] #[try_from(repr)] pub enum Mt1 { A = 1, B, C = 7 }"),
    ("TryFrom", "#[try_from(repr)] #[repr(i16)] #[repr(align(4))] pub enum Mt2 { A = -1, B, C }"),
    ("TryFrom", "#[try_from(repr)] #[try_from(repr)] #[repr(u32)] pub enum Mt3 { A, B, C }"),
    ("TryInto", "#[try_into(owned)] #[try_into(ref)] #[try_into(ref_mut)] pub enum Mi1 { A(i32), B(u8), C(i64), D(i32) }"),
    ("TryInto", "#[try_into(owned, ref)] pub enum Mi2 { #[try_into(ignore)] A(i32), #[try_into(ref_mut)] #[try_into(owned)] B(u8), C(i64), D(f32) }"),
    ("Unwrap", "#[unwrap(owned)] #[unwrap(ref)] #[unwrap(ref_mut)] pub enum Mu1 { A(i32), B(u8), C }"),
    ("TryUnwrap", "#[try_unwrap(owned, ref)] #[try_unwrap(ref_mut)] pub enum Mu2 { A(i32), B(u8), C }"),
    ("IntoIterator", "#[into_iterator(owned)] #[into_iterator(ref)] #[into_iterator(ref_mut)] pub struct Mn1(Vec<u8>);"),
    ("Mul", "#[mul(forward)] #[mul(forward)] pub struct Mm1(i32);"),
    ("Deref", "pub struct Mq1 { #[deref] #[deref(forward)] a: Box<u8>, b: u8 }"),
    ("Index", "pub struct Mq2 { #[index] #[index] a: Vec<u8>, b: u8 }"),
]


def multi_attr_cases(rng, n):
    """generated Into / From / AsRef items with 2-3 attributes carrying >= 3 distinct types in total"""
    tys = ["i8", "i16", "i32", "i64", "i128", "u8", "u16", "u32", "u64", "u128", "f32", "f64", "isize", "usize"]
    out = []
    for k in range(n):
        pick = rng.sample(tys, rng.randrange(3, 9))
        cut = sorted(rng.sample(range(1, len(pick)), min(len(pick) - 1, rng.choice([1, 2]))))
        parts = [pick[a:b] for a, b in zip([0] + cut, cut + [len(pick)])]
        attrs = " ".join("#[{a}(%s)]" % ", ".join(p) for p in parts)
        out.append(("Into", attrs.format(a="into") + " pub struct Mx%d(i8);" % k))
        out.append(("Into", " ".join("#[into(%s(%s))]" % (rng.choice(["owned", "ref", "ref_mut"]), ", ".join(p)) for p in parts)
                    + " pub struct My%d(i8);" % k))
        out.append(("From", attrs.format(a="from") + " pub struct Mz%d(i128);" % k))
        out.append(("From", "pub enum Mw%d { %s A(i128), B(bool) }" % (k, attrs.format(a="from"))))
        out.append(("AsRef", "pub struct Mv%d { %s a: Wn, b: bool }" % (k, attrs.format(a="as_ref"))))
        out.append(("AsMut", attrs.format(a="as_mut") + " pub struct Mu%d(Wn);" % k))
    return out


GENERIC_SHAPES = [
    "struct S1(i32);",
    "struct S2<T> { a: T, b: Vec<T>, c: u8 }",
    "struct S3<'a, T: Clone, const N: usize>(&'a [T; N], u8) where T: Copy;",
    "enum E1 { A, B(i32), C { x: u8, y: String } }",
    "enum E2<T, U> { A(T), B(U), C(T), D { t: T, u: U }, E }",
    "struct S4;",
    "enum E3 { A(i32), B(i32) }",
    "struct S5<A, B, C, D>(A, B, C, D);",
]
DISPLAY_SHAPES = [
    '#[display("{a} {b:?} {}", c)] struct D1<A, B, C> { a: A, b: B, c: C }',
    '#[display("{_0:x} {_1:e} {_2:p} {_3:o} {_4:b}")] struct D2<A, B, C, D, E>(A, B, C, D, E);',
    'enum D3<T, U, V> { #[display("{_0}")] A(T), #[display("{x:?}/{y}")] B { x: U, y: V }, C }',
    '#[display(bound(T: Clone, U: Copy))] #[display("{}", 1)] struct D4<T, U>(T, U);',
    '#[debug("{a:?}")] struct D5<A, B> { a: A, #[debug(skip)] b: B }',
]


def corpus(rng, tier, derives, table=None):
    n = 40 if tier == "quick" else 400
    cases = []          # (derive, item, groups, mechanism)
    for k in range(n):
        d, it, g = gen_try_into(rng, k)
        cases.append((d, it, g, "try_into"))
        d, it, g = gen_from_str(rng, k)
        cases.append((d, it, g, "from_str"))
        d, it, g = gen_error(rng, k)
        cases.append((d, it, g, "error"))
        d, it, g = gen_mul(rng, k, MUL_LIKE[k % 5])
        cases.append((d, it, g, "mul_like"))
        d, it, g = gen_mul(rng, k, MUL_ASSIGN_LIKE[k % 5])
        cases.append((d, it, g, "mul_assign_like"))
    for d, it in LEGACY:
        cases.append((d, it, 0, "legacy_types"))
    for d in derives:
        shapes = GENERIC_SHAPES + (DISPLAY_SHAPES if d in ("Display", "Debug", "Binary", "Pointer", "LowerHex") else [])
        for it in shapes:
            cases.append((d, it, 0, "other"))
    # several attributes of the same derive on one item / field / variant (merged by the macro)
    feat0 = dict(table or [])
    for d, it in MULTI_ATTR + multi_attr_cases(rng, 6 if tier == "quick" else 60):
        if d in feat0 or not table:
            cases.append((d, it, 3, class_of(d, feat0.get(d, d.lower()))))
    # items that end in diagnostics (legacy syntax, unknown parameters, wrong arity, unsupported shapes, duplicates)
    attrs = derive_attr_names()
    feat = dict(table or [])
    for k, d in enumerate(derives):
        tw = diag_twins(d, attrs.get(d), k)
        if tier == "quick":
            tw = [t for t in tw if t[0].startswith("legacy")] + rng.sample(tw, min(6, len(tw)))
        for kind, ia, ib in tw:
            cases.append((d, ia, 0, class_of(d, feat.get(d, d.lower()))))
    return cases


# ------------------------------------------------------------------ running

def run_process(binary, reqs, env, cwd, prefix=None, timeout=600):
    data = "".join(json.dumps(r) + "\n" for r in reqs)
    cmd = (prefix or []) + [binary]
    p = subprocess.run(cmd, input=data.encode(), stdout=subprocess.PIPE, stderr=subprocess.PIPE, timeout=timeout,
                       env=env, cwd=cwd)
    lines = p.stdout.split(b"\n")
    if lines and lines[-1] == b"":
        lines.pop()
    return lines, p.returncode


def environments(rng, base_dir):
    envs = []
    for k in range(8):
        env = {"PATH": os.environ.get("PATH", "/usr/bin:/bin")}
        if k % 2 == 0:
            env.update({x: y for x, y in os.environ.items() if x.startswith(("HOME", "USER", "LANG", "LC_"))})
        env["RUST_BACKTRACE"] = ["0", "1", "full", ""][k % 4]
        if k in (1, 5):
            del env["RUST_BACKTRACE"]
        env["RUST_LOG"] = ["", "trace", "debug"][k % 3]
        env["RUST_MIN_STACK"] = str(1 << (20 + k % 4))
        env["LANG"] = ["C", "en_US.UTF-8", "de_DE.UTF-8", "tr_TR.UTF-8"][k % 4]
        env["LC_ALL"] = env["LANG"]
        env["TZ"] = ["UTC", "Asia/Tokyo", "America/New_York", "Europe/Berlin"][k % 4]
        env["HOME"] = os.path.join(base_dir, "home%d" % k)
        env["TMPDIR"] = os.path.join(base_dir, "tmp%d" % k)
        env["CARGO_MANIFEST_DIR"] = "/nonexistent/%d" % k
        env["SOURCE_DATE_EPOCH"] = str(rng.randrange(0, 2 ** 31))
        for q in range(rng.randrange(0, 40)):          # moves the stack / environment block around
            env["VERIF_C19_PAD_%d" % q] = "x" * rng.randrange(1, 3000)
        cwd = os.path.join(base_dir, "cwd%d" % k, *["d"] * (k % 4))
        for d in (env["HOME"], env["TMPDIR"], cwd):
            os.makedirs(d, exist_ok=True)
        prefix = None
        if k == 7 and shutil.which("setarch"):
            prefix = ["setarch", os.uname().machine, "-R"]          # one process with ASLR switched off
        envs.append({"env": env, "cwd": cwd, "prefix": prefix,
                     "desc": {"RUST_BACKTRACE": env.get("RUST_BACKTRACE"), "LANG": env["LANG"], "TZ": env["TZ"],
                              "cwd": cwd, "n_env": len(env), "aslr_off": prefix is not None}})
    return envs


def mutated_facts(chk):
    """Sensitivity controls of the translator + facts_ok: three mutated copies of impl/src must each
    break `facts_ok` (evaluated inside Coq).  Returns list of (name, facts_ok value)."""
    base = os.path.join(common.SCRATCH, "c19-mut")
    shutil.rmtree(base, ignore_errors=True)
    muts = {
        "std-hashmap-in-try_into": ("try_into.rs", "use crate::utils::HashMap;", "use std::collections::HashMap;"),
        "static-counter-in-utils": ("utils.rs", "#[derive(Clone, Copy, Default)]\npub struct DeterministicState;",
                                    "static COUNTER: std::sync::atomic::AtomicUsize = std::sync::atomic::AtomicUsize::new(0);\n"
                                    "#[derive(Clone, Copy, Default)]\npub struct DeterministicState;"),
        "alias-without-state": ("utils.rs", "std::collections::HashSet<K, DeterministicState>", "std::collections::HashSet<K>"),
        "random-state-build-hasher": ("utils.rs", "Self::Hasher::default()",
                                      "std::hash::BuildHasher::build_hasher(&std::collections::hash_map::RandomState::new())"),
        "identity (control of the control)": ("utils.rs", "", ""),
    }
    exprs = []
    pre = []
    names = []
    for idx, (name, (fname, old, new)) in enumerate(muts.items()):
        root = os.path.join(base, "m%d" % idx)
        shutil.copytree(os.path.join(common.REPO, "impl", "src"), os.path.join(root, "impl", "src"))
        p = os.path.join(root, "impl", "src", fname)
        s = open(p).read()
        if old and old not in s:
            chk.notes.append("sensitivity control %r not applicable to the current sources (anchor text gone)" % name)
            continue
        if old:
            open(p, "w").write(s.replace(old, new, 1))
        try:
            f = c19_hashfacts.extract(root)
        except (c19_hashfacts.TranslatorError, Exception) as e:    # an error is also "the obligation breaks"
            names.append((name, "translator-error: %s" % str(e)[:120]))
            continue
        body = c19_hashfacts.render(f)
        body = body[body.index("Definition hash_aliases"):]
        body = body.replace("hash_aliases", "al%d" % idx).replace("hash_mentions", "me%d" % idx) \
                   .replace("hash_state_sites", "st%d" % idx).replace("hash_facts", "fa%d" % idx)
        pre.append(body)
        exprs.append("facts_ok fa%d" % idx)
        names.append((name, None))
    res = common.coq_eval(["Verif.C19.Model"], exprs, preamble="Open Scope string_scope.\n" + "\n".join(pre), tag="c19mut")
    out = []
    it = iter(res)
    for name, r in names:
        out.append((name, r if r is not None else next(it)))
    shutil.rmtree(base, ignore_errors=True)
    return out


def run(tier, seed, replay):
    chk = common.Check("C19", tier, seed)
    rng = chk.rng
    binary = common.build_inproc()

    # ---- T-gen + proofs
    facts = None
    try:
        facts = c19_hashfacts.generate()
    except (c19_hashfacts.TranslatorError, common.BuildError, Exception) as e:
        chk.proof_broken = True
        chk.proof_failure = {"failed": "tools/lib/c19_hashfacts.py", "output": "%s: %s" % (type(e).__name__, e)}
        st = None
    if facts is not None:
        st = common.check_proofs(chk, "C19")
        chk.log("facts: %s" % facts["counts"])
        for m in facts["mentions"]:
            chk.bump("mention:%s:%s%s" % (m["name"], m["origin"], ":iterated" if m["iterated"] else ""))
        chk.bump("state_sites", len(facts["state"]))
        iter_files = sorted(set(s["file"] for s in facts["iter_sites"]))
        modelled = {"try_into.rs", "from_str.rs", "mul_like.rs", "mul_assign_like.rs", "error.rs", "utils.rs"}
        extra = [f for f in iter_files if f not in modelled]
        if extra:
            chk.notes.append("hash collections are iterated in files without a dedicated expander model (covered by the "
                             "generic case of the model only): %s" % extra)
    widen = getattr(chk, "proof_broken", False)

    # ---- translator sensitivity controls (mutated copies must break facts_ok)
    controls = []
    if facts is not None and not replay:
        try:
            controls = mutated_facts(chk)
            # `translator-insensitive` = a control of the TRANSLATOR itself failed: a known-bad edit of a copy of the
            # sources did not make facts_ok false (or the unedited copy does not reproduce the verdict of the real
            # run).  It says nothing about the tree under test and never replaces the findings below.
            base_ok = not getattr(chk, "proof_broken", False)
            for name, v in controls:
                got_ok = (v == "true")
                chk.count(("control", name), True)
                if name.startswith("identity"):
                    if got_ok != base_ok and st is not None and st.get("ok") is not None:
                        # only meaningful when the proof status reflects facts_ok (Proofs.v:hash_facts_ok)
                        failed = (chk.proof_failure or {}).get("failed", "") if getattr(chk, "proof_broken", False) else ""
                        if base_ok or "Proofs.v" in str(failed):
                            chk.violation("translator-insensitive", {"mutation": name, "facts_ok": v, "real_run_ok": base_ok},
                                          "the unedited copy gives facts_ok = %s but the real run's C19_facts_ok is %s" %
                                          (v, "proved" if base_ok else "broken"), no_input=True)
                elif got_ok:
                    chk.violation("translator-insensitive", {"mutation": name, "facts_ok": v},
                                  "sensitivity control: mutation %r gives facts_ok = %s (expected false)" % (name, v),
                                  no_input=True)
                elif not base_ok:
                    chk.notes.append("sensitivity control %r is uninformative in this run: facts_ok is already false "
                                     "on the unedited sources" % name)
        except common.BuildError as e:
            chk.violation("translator-control-failed", {"error": str(e)[-1500:]},
                          "the mutated-source controls could not be evaluated", no_input=True)

    # ---- corpus
    table = common.run_jsonl(binary, [{"cmd": "list"}])[0]["derives"]
    special = set(HASH_DERIVES) | set(MUL_LIKE) | set(MUL_ASSIGN_LIKE)
    others = [d for d, _ in table]
    r = {}
    if replay:
        _rj = json.load(open(replay))
        r = _rj["replay"]
        r.setdefault("class", str(_rj.get("class", "replay")).split(":", 1)[-1])
        cases = [(r["derive"], r["item"], 2, "replay")]
    else:
        cases = corpus(rng, "thorough" if widen else tier, others, table)
    reqs = [{"cmd": "expand", "derive": d, "item": it, "summary": False} for (d, it, _, _) in cases]
    probe_keys = ["k%d" % i for i in range(40)] + TYPES
    reqs_p = reqs + [{"cmd": "hash_probe", "keys": probe_keys}]
    chk.log("%d corpus items" % len(cases))

    base_dir = os.path.join(common.SCRATCH, "c19-env")
    shutil.rmtree(base_dir, ignore_errors=True)
    os.makedirs(base_dir, exist_ok=True)
    envs = environments(rng, base_dir)

    # (a) 8 fresh processes, different environments
    from concurrent.futures import ThreadPoolExecutor
    with ThreadPoolExecutor(max_workers=8) as ex:
        outs = list(ex.map(lambda e: run_process(binary, reqs_p, e["env"], e["cwd"], e["prefix"]), envs))
    try:
        aslr = open("/proc/sys/kernel/randomize_va_space").read().strip()
    except OSError:
        aslr = "?"
    ref_lines, _ = outs[0]
    n_cmp = 0
    kinds = {}
    for k, (lines, rc) in enumerate(outs):
        if rc != 0 or len(lines) != len(reqs_p):
            chk.violation("harness-crash", {"process": k, "rc": rc, "lines": len(lines), "env": envs[k]["desc"]},
                          "process %d of the environment matrix did not answer every request (rc=%s)" % (k, rc))
            continue
        for j, (d, it, g, mech) in enumerate(cases):
            if k == 0:
                try:
                    kind = next(iter(json.loads(lines[j])))
                except Exception:
                    kind = "?"
                kinds[j] = kind
                chk.bump("%s:%s" % (mech, kind))
                continue
            n_cmp += 1
            chk.count((d, it), mech != "other" and g >= 2 and kinds.get(j) == "ok")
            if lines[j] != ref_lines[j]:
                chk.violation("nondeterministic-across-processes:" + mech,
                              {"derive": d, "item": it, "output_a": ref_lines[j].decode("utf-8", "replace"),
                               "output_b": lines[j].decode("utf-8", "replace"),
                               "env_a": envs[0]["desc"], "env_b": envs[k]["desc"]},
                              "derive(%s) expands differently in two fresh processes: %s" % (d, it[:200]))

    # control: alias order identical, RandomState order (expected to) differ
    probes = []
    for (lines, rc) in outs:
        try:
            probes.append(json.loads(lines[-1]))
        except Exception:
            probes.append(None)
    good = [p for p in probes if p and "alias" in p]
    alias_orders = set(tuple(p["alias"]) for p in good)
    random_orders = set(tuple(p["random_state"]) for p in good)
    if len(alias_orders) > 1:
        chk.violation("alias-order-differs", {"keys": probe_keys, "orders": [list(o) for o in alias_orders][:3]},
                      "utils::HashSet iterates the same keys in different orders in different processes")
    if good and len(random_orders) < 2:
        chk.notes.append("control failed: std RandomState produced the same order in all %d processes - the search "
                         "would not see a RandomState-keyed iteration here" % len(good))
        chk.violation("control-blind", {"orders": len(random_orders)},
                      "the RandomState control shows no variation between processes: the byte comparison is blind", no_input=True)

    # (b) ONE process, ONE thread (as the proc-macro server does it), 3 different orders of preceding expansions
    def parsed(line):
        try:
            return json.loads(line)
        except Exception:
            return {"unparsable": line[:200].decode("utf-8", "replace") if isinstance(line, bytes) else str(line)[:200]}

    ref = [parsed(l) for l in ref_lines[:len(reqs)]]
    idx = list(range(len(reqs)))
    orders = {"as-generated": idx, "reversed": idx[::-1], "shuffled": rng.sample(idx, len(idx))}
    for name, order in orders.items():
        got = run_seq(binary, [reqs[j] for j in order], envs[0]["env"], envs[0]["cwd"])
        if got is None or len(got) != len(order):
            chk.violation("harness-crash", {"order": name}, "the %s order run did not complete" % name)
            continue
        for pos, j in enumerate(order):
            d, it, g, mech = cases[j]
            n_cmp += 1
            chk.count((d, it, "order"), mech != "other" and g >= 2 and kinds.get(j) == "ok")
            if got[pos] != ref[j]:
                chk.violation("nondeterministic-across-histories:" + mech,
                              {"derive": d, "item": it, "output_a": json.dumps(ref[j]), "output_b": json.dumps(got[pos]),
                               "history": "whole corpus, order " + name, "position": pos,
                               "preceding": [{"derive": cases[q][0], "item": cases[q][1]} for q in order[max(0, pos - 6):pos]]},
                              "derive(%s) expands differently after a different sequence of expansions on the same "
                              "thread: %s" % (d, it[:200]))

    # (c) histories that differ in SIZE: every hash-iterating expander, small items {alone (own process), after a
    #     much larger item of the same derive, after much larger items of the other derives, twice, after a
    #     different item of the same NAME}
    n_hist = 0
    if replay and "preceding" in r:
        hist_plan = [("replay", [(x["derive"], x["item"]) for x in r["preceding"]], [(r["derive"], r["item"], 2)], "replay")]
    elif replay:
        hist_plan = []
    else:
        hist_plan = []
        n_small = 8 if tier == "quick" and not widen else 40
        for mi, mech in enumerate(MECHS):
            smalls = [gen_small(rng, mech, 100 * mi + q) for q in range(n_small)]
            bigs_same = [gen_big(rng, mech, 100 * mi + q, n) for q, n in enumerate((12, 40, 150))]
            bigs_other = [gen_big(rng, m2, 900 + 10 * mi + q, 30 + 10 * q) for q, m2 in enumerate(MECHS) if m2 != mech]
            twins = [gen_small(rng, mech, 100 * mi + q) for q in range(n_small)]       # same names, other bodies
            sm = [(d, it, g) for d, it, g in smalls]
            hist_plan.append((mech + ": after one larger item of the same derive", [bigs_same[0][:2]], sm, mech))
            hist_plan.append((mech + ": after much larger items of the same derive", [b[:2] for b in bigs_same], sm[::-1], mech))
            hist_plan.append((mech + ": after larger items of the other derives", [b[:2] for b in bigs_other], sm, mech))
            hist_plan.append((mech + ": every item twice, large item in between",
                              [x[:2] for x in sm] + [bigs_same[1][:2]], sm, mech))
            inter = []
            for tw, s_ in zip(twins, sm):
                inter.append((tw[:2], s_))
            hist_plan.append((mech + ": after a different item of the same name", None, inter, mech))
    alone_cache = {}

    def alone(d, it):
        key = (d, it)
        if key not in alone_cache:
            got = run_seq(binary, [{"derive": d, "item": it, "summary": False}], envs[0]["env"], envs[0]["cwd"])
            alone_cache[key] = got[0] if got else None
        return alone_cache[key]

    for (hname, prefix, smalls, mech) in hist_plan:
        if prefix is None:          # interleaved twins: [twin1, s1, twin2, s2, ...]
            seq = []
            targets = []
            for tw, s_ in smalls:
                seq.append(tw)
                targets.append((len(seq), s_))
                seq.append(s_[:2])
        else:
            seq = list(prefix)
            targets = []
            for s_ in smalls:
                targets.append((len(seq), s_))
                seq.append(s_[:2])
        got = run_seq(binary, [{"derive": d, "item": it, "summary": False} for d, it in seq], envs[0]["env"], envs[0]["cwd"])
        if got is None or len(got) != len(seq):
            chk.violation("harness-crash", {"history": hname}, "the history run %r did not complete" % hname)
            continue
        chk.bump("history:" + hname.split(": ", 1)[-1])
        for pos, (d, it, g) in targets:
            a = alone(d, it)
            n_cmp += 1
            n_hist += 1
            chk.count((d, it, hname), g >= 2 and a is not None and "ok" in a)
            if a != got[pos]:
                chk.violation("nondeterministic-across-histories:" + mech,
                              {"derive": d, "item": it, "output_a": json.dumps(a), "output_b": json.dumps(got[pos]),
                               "history": hname, "position": pos,
                               "preceding": [{"derive": x, "item": y} for x, y in seq[:pos]][-8:]},
                              "derive(%s) on `%s` expands differently alone and %s" % (d, it[:160], hname.split(": ", 1)[-1]))
    # (d) NAME-COLLISION histories: for every derive, pairs of items that spell the same type tokens in the same fields
    #     under the same item name, the identifier being a type parameter in one and a concrete type in the other;
    #     each item is expanded with its partner BEFORE it and AFTER it (one thread), and on a fresh thread
    n_coll = 0
    if not replay:
        attrs = derive_attr_names()
        pairs = collision_pairs(rng, [(d, f) for d, f in table], attrs, 3 if tier == "quick" and not widen else 10)

        def rq(d, it):
            return {"derive": d, "item": it, "summary": False}
        seq1, seq2 = [], []
        for (cls, d, gi, ci) in pairs:
            seq1 += [rq(d, gi), rq(d, ci)]
            seq2 += [rq(d, ci), rq(d, gi)]
        run1 = run_seq(binary, seq1, envs[0]["env"], envs[0]["cwd"])
        run2 = run_seq(binary, seq2, envs[0]["env"], envs[0]["cwd"])
        run3 = [parsed(l) for l in run_process(binary, [dict(x, cmd="expand") for x in seq2], envs[0]["env"], envs[0]["cwd"])[0]]
        if run1 is None or run2 is None or len(run1) != len(seq1) or len(run2) != len(seq2) or len(run3) != len(seq2):
            chk.violation("harness-crash", {"stage": "name-collision"}, "the name-collision history runs did not complete")
        else:
            for k, (cls, d, gi, ci) in enumerate(pairs):
                outs = {"generic": (gi, ci, run1[2 * k], run2[2 * k + 1], run3[2 * k + 1]),
                        "concrete": (ci, gi, run1[2 * k + 1], run2[2 * k], run3[2 * k])}
                chk.bump("collision:" + cls)
                for which, (it, partner, o1, o2, o3) in outs.items():
                    n_cmp += 2
                    n_coll += 1
                    chk.count((d, it, "collision"), "ok" in o3)
                    if o1 == o2 == o3:
                        continue
                    # confirm on the minimal history: [partner, item] in a fresh process vs item alone
                    a = alone(d, it)
                    after = run_seq(binary, [rq(d, partner), rq(d, it)], envs[0]["env"], envs[0]["cwd"])
                    minimal = after is not None and after[1] != a
                    chk.violation("nondeterministic-across-histories:" + cls,
                                  {"derive": d, "item": it, "output_a": json.dumps(a),
                                   "output_b": json.dumps(after[1] if minimal else (o1 if o1 != o3 else o2)),
                                   "history": "name collision: the same type tokens, the identifier is a type parameter in "
                                              "one item and a concrete type in the other (this item is the %s one)" % which,
                                   "preceding": [{"derive": d, "item": partner}],
                                   "minimal_history_reproduces": minimal},
                                  "derive(%s) on `%s` expands differently alone and after `%s`" % (d, it[:140], partner[:140]))
    # (e) DIAGNOSTIC histories: every derive, items that end in an error (legacy syntax, unknown parameters, wrong arity,
    #     unsupported shapes, duplicates ...): alone in a FRESH PROCESS vs after a twin that errs in the same way (one
    #     thread, both orders) vs on a fresh thread late in a long-running process; error text compared byte-wise
    n_diag = 0
    if not replay:
        attrs = derive_attr_names()
        tw_all = []
        for k, (d, f) in enumerate(table):
            for kind, ia, ib in diag_twins(d, attrs.get(d), 1000 + k):
                tw_all.append((class_of(d, f), d, kind, ia, ib))
        if tier == "quick" and not widen:
            legacy = [t for t in tw_all if t[2].startswith("legacy")]
            rest = [t for t in tw_all if not t[2].startswith("legacy")]
            tw_all = legacy + rng.sample(rest, min(len(rest), 250))

        def rq2(d, it):
            return {"derive": d, "item": it, "summary": False}
        seq1, seq2 = [], []
        for (cls, d, kind, ia, ib) in tw_all:
            seq1 += [rq2(d, ia), rq2(d, ib)]
            seq2 += [rq2(d, ib), rq2(d, ia)]
        run1 = run_seq(binary, seq1, envs[0]["env"], envs[0]["cwd"])
        run2 = run_seq(binary, seq2, envs[0]["env"], envs[0]["cwd"])
        run3 = [parsed(l) for l in run_process(binary, [dict(x, cmd="expand") for x in seq2], envs[0]["env"], envs[0]["cwd"])[0]]
        # every item alone in its own fresh process
        from concurrent.futures import ThreadPoolExecutor as _TP
        flat_items = [(d, it) for (cls, d, kind, ia, ib) in tw_all for it in (ia, ib)]
        with _TP(max_workers=16) as ex:
            alone_out = list(ex.map(lambda di: alone(di[0], di[1]), flat_items))
        if run1 is None or run2 is None or len(run1) != len(seq1) or len(run2) != len(seq2) or len(run3) != len(seq2):
            chk.violation("harness-crash", {"stage": "diagnostic"}, "the diagnostic history runs did not complete")
        else:
            for k, (cls, d, kind, ia, ib) in enumerate(tw_all):
                views = {"first": (ia, ib, alone_out[2 * k], [run1[2 * k], run2[2 * k + 1], run3[2 * k + 1]]),
                         "second": (ib, ia, alone_out[2 * k + 1], [run1[2 * k + 1], run2[2 * k], run3[2 * k]])}
                for which, (it, partner, a, outs) in views.items():
                    n_cmp += 3
                    n_diag += 1
                    res_kind = next(iter(a)) if isinstance(a, dict) and a else "?"
                    chk.bump("diag:%s" % res_kind)
                    chk.count((d, it, "diag"), res_kind in ("err", "panic"))
                    if all(o == a for o in outs):
                        continue
                    after = run_seq(binary, [rq2(d, partner), rq2(d, it)], envs[0]["env"], envs[0]["cwd"])
                    minimal = after is not None and after[1] != a
                    bad = after[1] if minimal else next(o for o in outs if o != a)
                    chk.violation("nondeterministic-across-histories:" + cls,
                                  {"derive": d, "item": it, "output_a": json.dumps(a), "output_b": json.dumps(bad),
                                   "history": "diagnostic path (%s): alone in a fresh process vs after an item that errs "
                                              "the same way" % kind,
                                   "preceding": [{"derive": d, "item": partner}], "minimal_history_reproduces": minimal},
                                  "derive(%s) on `%s` reports a different diagnostic alone and after `%s`: %s vs %s" %
                                  (d, it[:120], partner[:120], json.dumps(a)[:160], json.dumps(bad)[:160]))
    # (f) REAL rustc, real proc-macro server: the same item, textually identical, at different byte offsets of a file
    #     (offsets chosen so that the decimal STRING order of the token positions differs from their numeric order),
    #     expanded by `rustc -Zunpretty=expanded`; the copies' expansions must be equal up to the module name
    n_pos = 0
    pos_files = 0
    if not replay or r.get("position_file"):
        import tempfile
        from concurrent.futures import ThreadPoolExecutor as _TP2
        try:
            deps, rlib = rustc_env()
        except common.BuildError as e:
            deps = None
            chk.violation("harness-crash", {"stage": "real-rustc", "error": str(e)[-800:]},
                          "the real-rustc position stage could not be set up", no_input=True)
        if deps:
            attrs = derive_attr_names()
            plan = []
            if replay:
                plan.append((r.get("class", "replay"), r["derive"], r["item"], r.get("split", len(r["item"]) // 2)))
            else:
                cand = []
                for k, (d, f) in enumerate(table):
                    for it in position_items(d, attrs.get(d), 2000 + k):
                        cand.append((class_of(d, f), d, it))
                ok = common.run_jsonl(binary, [{"cmd": "expand", "derive": d, "item": it, "summary": False} for _, d, it in cand])
                for (cls, d, it), rs in zip(cand, ok):
                    if "ok" not in rs:
                        continue
                    sp = split_points(it)
                    if tier == "quick" and not widen and len(sp) > 3:
                        sp = rng.sample(sp, 3)
                    for q in sp:
                        plan.append((cls, d, it, q))
            wdir = tempfile.mkdtemp(prefix="c19pos-", dir=common.SCRATCH if os.path.isdir(common.SCRATCH) else None)
            env_r = dict(os.environ, RUSTC_BOOTSTRAP="1")

            def one(job):
                idx, (cls, d, it, q) = job
                text, copies = position_file("derive_more::" + d, it, q)
                path = os.path.join(wdir, "p%d.rs" % idx)
                with open(path, "w") as fh:
                    fh.write(text)
                try:
                    p = subprocess.run(["rustc", "--edition=2021", "--crate-type=lib", "--crate-name", "p%d" % idx,
                                        "-Zunpretty=expanded", "-L", "dependency=" + deps, "--extern", "derive_more=" + rlib, path],
                                       stdout=subprocess.PIPE, stderr=subprocess.PIPE, text=True, errors="replace",
                                       env=env_r, timeout=120)
                    out, err = p.stdout, p.stderr
                except subprocess.TimeoutExpired:
                    out, err = "", "timeout"
                os.remove(path)
                return split_expanded(out, copies), copies, err[-400:], text
            with _TP2(max_workers=16) as ex:
                results_p = list(ex.map(one, list(enumerate(plan))))
            shutil.rmtree(wdir, ignore_errors=True)
            n_bad = 0
            for (cls, d, it, q), (parts, copies, err, text) in zip(plan, results_p):
                pos_files += 1
                if parts is None:
                    n_bad += 1
                    if n_bad <= 2:
                        chk.notes.append("real-rustc stage: no expansion for derive(%s) on `%s`: %s" % (d, it[:100], err[-200:]))
                    continue
                chk.bump("position:" + cls)
                n_pos += copies
                n_cmp += copies - 1
                chk.count((d, it, q, "position"), True)
                # the pretty-printer derives blank lines / line breaks from source positions: compare the token text only
                squeezed = ["".join(x.split()) for x in parts]
                diff = [i for i in range(1, len(parts)) if squeezed[i] != squeezed[0]]
                if diff:
                    i = diff[0]
                    chk.violation("nondeterministic-across-positions:" + cls,
                                  {"derive": d, "item": it, "split": q, "position_file": True,
                                   "output_a": parts[0], "output_b": parts[i],
                                   "copies_differing_from_the_first": [j + 1 for j in diff],
                                   "how": "RUSTC_BOOTSTRAP=1 rustc --edition=2021 --crate-type=lib -Zunpretty=expanded --extern "
                                          "derive_more=<rlib of /repo, features full> file.rs; file.rs holds the item in modules "
                                          "c1..c%d placed so that byte offsets 100 / 1000 / 10000 / 100000 fall %d bytes into the item, "
                                          "and once at offset 200000" % (copies, q)},
                                  "derive(%s) on `%s` expands differently depending on the byte offset of the item in its file "
                                  "(real rustc): copy 1 vs copy %d" % (d, it[:160], i + 1))
            if plan and n_bad > len(plan) // 2:
                chk.violation("harness-crash", {"stage": "real-rustc", "failed": n_bad, "of": len(plan)},
                              "the real-rustc position stage produced no expansion for most items", no_input=True)
    # (h) INTRODUCED-NAME clashes: items whose own type / const / lifetime parameters, fields or variants carry the names the
    #     macros introduce (`__RhsT`, `__IdxT`, `__FromT0`, `'__deriveMoreLifetime`, `_0`, `_variant`, ...), each expanded
    #     alone (own process) and again and again on one thread after 0..n other clashing items
    n_clash = 0
    if not replay:
        attrs = derive_attr_names()
        per_file = introduced_names()
        pool = sorted(set().union(*per_file.values()) | set(FIXED_INTRODUCED)) if per_file else list(FIXED_INTRODUCED)
        mod_files = {"Display": ["fmt/display.rs", "fmt/mod.rs"], "Debug": ["fmt/debug.rs", "fmt/mod.rs"]}
        feat_file = {"add": ["add_like.rs", "add_helpers.rs"], "add_assign": ["add_assign_like.rs", "add_helpers.rs"],
                     "mul": ["mul_like.rs", "mul_helpers.rs", "add_like.rs"],
                     "mul_assign": ["mul_assign_like.rs", "mul_helpers.rs", "add_assign_like.rs"],
                     "display": ["fmt/display.rs", "fmt/mod.rs"], "debug": ["fmt/debug.rs", "fmt/mod.rs"],
                     "as_ref": ["as/mod.rs"], "not": ["not_like.rs"], "sum": ["sum_like.rs"]}
        clash = []          # (class, derive, item)
        for k, (d, f) in enumerate(table):
            files = feat_file.get(f, [f + ".rs"]) + ["utils.rs"]
            own = sorted(set().union(*[per_file.get(x, set()) for x in files[:-1]])) if files else []
            extra = rng.sample(pool, min(len(pool), 3 if tier == "quick" and not widen else 12))
            names = list(dict.fromkeys(own + extra))
            if tier == "quick" and not widen and len(names) > 8:
                names = own[:5] + extra
            for it in clash_items(d, attrs.get(d), names, k):
                clash.append((class_of(d, f), d, it))
        rqs = [{"derive": d, "item": it, "summary": False} for _, d, it in clash]
        order1 = list(range(len(rqs)))
        seq_idx = order1 + order1 + order1[::-1]          # every item three times, 0..n other clashing items in between
        got = run_seq(binary, [rqs[j] for j in seq_idx], envs[0]["env"], envs[0]["cwd"])
        from concurrent.futures import ThreadPoolExecutor as _TP3
        with _TP3(max_workers=16) as ex:
            alone_c = list(ex.map(lambda q: alone(q["derive"], q["item"]), rqs))
        if got is None or len(got) != len(seq_idx):
            chk.violation("harness-crash", {"stage": "introduced-name clashes"}, "the clash history run did not complete")
        else:
            first_bad = {}
            for pos, j in enumerate(seq_idx):
                n_cmp += 1
                n_clash += 1
                if got[pos] != alone_c[j] and j not in first_bad:
                    first_bad[j] = pos
            for j, pos in first_bad.items():
                cls, d, it = clash[j]
                chk.violation("nondeterministic-across-histories:" + cls,
                              {"derive": d, "item": it, "output_a": json.dumps(alone_c[j]), "output_b": json.dumps(got[pos]),
                               "history": "introduced-name clash: the item's own names are names the macro introduces; "
                                          "occurrence %d on a thread that expanded %d other clashing items before" %
                                          (1 + sum(1 for q in seq_idx[:pos] if q == j), pos),
                               "preceding": [{"derive": clash[q][1], "item": clash[q][2]} for q in seq_idx[max(0, pos - 6):pos]]},
                              "derive(%s) on `%s` (its names clash with names the macro introduces) expands differently alone "
                              "and after other clashing items" % (d, it[:140]))
            for (cls, d, it), a in zip(clash, alone_c):
                chk.bump("clash:%s" % (next(iter(a)) if isinstance(a, dict) and a else "?"))
                chk.count((d, it, "clash"), isinstance(a, dict) and "ok" in a)

    # (i) DRIFT: state that leaks a little per expansion: N = 40 / 100 copies of an item that takes an unusual path
    #     (qualified paths, panics caught by catch_unwind, error paths, deep nesting) on one thread, then the whole probe
    #     corpus on that thread, compared with the probes' expansions on fresh threads of a fresh process
    n_drift = 0
    if not replay:
        attrs = derive_attr_names()
        probes = []
        for k, (d, f) in enumerate(table):
            shapes = list(GENERIC_SHAPES)
            if d in FMT_DERIVES or d == "Debug":
                shapes += DISPLAY_SHAPES + ['#[%s("{a} {b}")] struct Pd<T> { a: u32, b: T }' % (attrs.get(d) or d.lower()),
                                             '#[%s("{_0} {_1:?}")] struct Pe<T, U: Clone>(T, Vec<U>, u64);' % (attrs.get(d) or d.lower())]
            shapes += collision_shapes(d, attrs.get(d), "Pr%d" % k, "Cause", "Box<Cause>", True)[:3]
            shapes += collision_shapes(d, attrs.get(d), "Pr%d" % k, "Cause", "Box<Cause>", False)[:2]
            for it in shapes:
                probes.append((class_of(d, f), d, it))
        prq = [{"derive": d, "item": it, "summary": False} for _, d, it in probes]
        fresh = [parsed(l) for l in run_process(binary, [dict(x, cmd="expand") for x in prq], envs[0]["env"], envs[0]["cwd"])[0]]
        plans = []
        dd = [d for d in DRIFT_DERIVES if d in dict(table)]
        if tier == "quick" and not widen:
            combos = [(sh, d) for sh in DRIFT_SHAPES for d in rng.sample(dd, 4)]
        else:
            combos = [(sh, d) for sh in DRIFT_SHAPES for d in dd]
        for (sname, tmpl), d in combos:
            for n_copies in (40, 100):
                a_ = attrs.get(d) or d.lower()
                pre = [{"derive": d, "item": tmpl.format(n="Dr%d" % q, a=a_), "summary": False} for q in range(n_copies)]
                plans.append((sname, d, n_copies, pre))

        def drift_run(pl):
            sname, d, n_copies, pre = pl
            got = run_seq(binary, pre + prq, envs[0]["env"], envs[0]["cwd"], timeout=300)
            return got[len(pre):] if got and len(got) == len(pre) + len(prq) else None
        from concurrent.futures import ThreadPoolExecutor as _TP4
        with _TP4(max_workers=16) as ex:
            drift_out = list(ex.map(drift_run, plans))
        if len(fresh) != len(prq):
            chk.violation("harness-crash", {"stage": "drift baseline"}, "the drift baseline run did not complete")
        else:
            reported = set()
            for (sname, d0, n_copies, pre), got in zip(plans, drift_out):
                chk.bump("drift:" + sname)
                if got is None:
                    chk.violation("harness-crash", {"stage": "drift", "shape": sname, "derive": d0},
                                  "the drift run (%s x %d of derive(%s)) did not complete" % (sname, n_copies, d0))
                    continue
                for j, (cls, d, it) in enumerate(probes):
                    n_cmp += 1
                    n_drift += 1
                    if got[j] != fresh[j] and (cls, sname) not in reported:
                        reported.add((cls, sname))
                        chk.violation("nondeterministic-across-histories:" + cls,
                                      {"derive": d, "item": it, "output_a": json.dumps(fresh[j]), "output_b": json.dumps(got[j]),
                                       "history": "drift: %d expansions of derive(%s) on `%s` on the same thread before" %
                                                  (n_copies, d0, pre[0]["item"][:120]),
                                       "preceding": [{"derive": d0, "item": pre[0]["item"], "times": n_copies}]},
                                      "derive(%s) on `%s` expands differently on a fresh thread and after %d expansions of "
                                      "derive(%s) on `%s`" % (d, it[:120], n_copies, d0, pre[0]["item"][:100]))
        chk.count(("drift", len(plans)), True)

    # (g) T-corr tie of the MODEL's collection contents with the code: for generated FromStr / TryInto enums the Coq model's
    #     insertion-ordered table (`from_str_groups`, `try_into_groups`, evaluated by vm_compute) must have the same keys
    #     and the same grouped variants as the real expansion emits, and the real arm order must be the order in which
    #     an independent, fresh `utils::HashSet` filled with the model's keys iterates (harness cmd hash_probe)
    n_tie = 0
    if not replay:
        import re as _re
        from lib.common import coq_str, py_str
        tie_fs, tie_ti = [], []
        words = ["low", "medium", "high", "red", "green", "blue", "north", "east", "up", "down", "left", "q", "alpha", "zz"]
        for k in range(30 if tier == "quick" and not widen else 200):
            names = []
            for w in rng.sample(words, rng.randrange(2, 9)):
                names += case_variants(rng, w, rng.choice([1, 1, 2, 3]))
            rng.shuffle(names)
            names = list(dict.fromkeys(names))
            tie_fs.append(("Tf%d" % k, names))
            top = rng.sample(["owned", "ref", "ref_mut"], rng.randrange(1, 4))
            vs = []
            for j in range(rng.randrange(2, 12)):
                vs.append(("V%d" % j, [rng.choice(["i32", "u8", "i64", "bool", "char", "f64", "u128"]) for _ in range(rng.choice([0, 1, 1, 2, 3]))]))
            tie_ti.append(("Tt%d" % k, top, vs))
        ref_coq = {"owned": "RNo", "ref": "RRef", "ref_mut": "RMut"}
        ref_order = ["owned", "ref", "ref_mut"]

        def coq_item(name, variants):
            return ("{| it_name := %s; it_params := []; it_field_types := []; it_variants := [%s]; it_legacy := [] |}" %
                    (coq_str(name), "; ".join("{| v_name := %s; v_types := [%s]; v_refs := [%s] |}" %
                                              (coq_str(vn), "; ".join(coq_str(t) for t in tys), "; ".join(refs))
                                              for vn, tys, refs in variants)))
        exprs = []
        for name, names in tie_fs:
            exprs.append("from_str_groups toy_ext " + coq_item(name, [(vn, [], []) for vn in names]))
        for name, top, vs in tie_ti:
            # FullMetaInfo::ref_types() (utils.rs:1240): owned, ref, ref_mut; `owned` is on by default and listing `ref` /
            # `ref_mut` does not switch it off
            refs = [ref_coq[x] for x in ref_order if x in top or x == "owned"]
            exprs.append("try_into_groups " + coq_item(name, [(vn, tys, refs) for vn, tys in vs]))
        try:
            terms = common.coq_eval(["Verif.C19.Model"], exprs, tag="c19tie")
        except common.BuildError as e:
            terms = None
            chk.violation("tie-model:eval", {"error": str(e)[-1200:]}, "the model could not be evaluated for the tie", no_input=True)
        if terms is not None:
            reqs_t = [{"cmd": "expand", "derive": "FromStr", "item": "enum %s { %s }" % (n_, ", ".join(ns)), "summary": False}
                      for n_, ns in tie_fs]
            reqs_t += [{"cmd": "expand", "derive": "TryInto", "summary": False,
                        "item": "#[try_into(%s)] enum %s { %s }" % (", ".join(top), n_, ", ".join(
                            vn + ("(%s)" % ", ".join(tys) if tys else "") for vn, tys in vs))} for n_, top, vs in tie_ti]
            m_keys = []
            for t in terms[:len(tie_fs)]:
                m_keys.append([py_str(g[0]) for g in t])
            reqs_t += [{"cmd": "hash_probe", "keys": ks} for ks in m_keys]
            real = common.run_jsonl(binary, reqs_t)
            for i, (name, names) in enumerate(tie_fs):
                n_tie += 1
                n_cmp += 1
                model = [(py_str(g[0]), [py_str(v) for v in g[1]]) for g in terms[i]]
                rs = real[i]
                chk.count(("tie", "from_str", name), len(model) >= 2)
                if "ok" not in rs:
                    chk.violation("tie-model:from_str", {"item": reqs_t[i]["item"], "real": rs}, "the tie item does not expand")
                    continue
                arms = _re.findall(r'"([^"]*)"\s*(?:if\s*\(\s*src\s*==\s*"[^"]*"\s*\)\s*)?=>\s*%s\s*::\s*(\w+)' % name, rs["ok"])
                real_groups = []
                for key, var in arms:
                    if real_groups and real_groups[-1][0] == key:
                        real_groups[-1][1].append(var)
                    else:
                        real_groups.append((key, [var]))
                if sorted(model) != sorted(real_groups):
                    chk.violation("tie-model:from_str", {"item": reqs_t[i]["item"], "model_groups": model, "real_groups": real_groups},
                                  "the model's variants_caseinsensitive table differs from what the expansion emits: %s" % reqs_t[i]["item"][:160])
                    continue
                probe = real[len(tie_fs) + len(tie_ti) + i]
                if [g[0] for g in real_groups] != probe.get("alias"):
                    chk.violation("tie-order:from_str", {"item": reqs_t[i]["item"], "real_order": [g[0] for g in real_groups],
                                                         "fresh_alias_set_order": probe.get("alias")},
                                  "the match-arm order is not the iteration order of a fresh alias table holding the same keys "
                                  "inserted in the same order: %s" % reqs_t[i]["item"][:160])
            for i, (name, top, vs) in enumerate(tie_ti):
                n_tie += 1
                n_cmp += 1
                t = terms[len(tie_fs) + i]
                model = set()
                for g in t:
                    key = g[0]
                    tys = tuple(x for x in py_str(key[1:]).split(chr(0)) if x != "")
                    model.add((int(key[0]), tys, tuple(py_str(v) for v in g[1])))
                rs = real[len(tie_fs) + i]
                chk.count(("tie", "try_into", name), len(model) >= 2)
                if "ok" not in rs:
                    chk.violation("tie-model:try_into", {"item": reqs_t[len(tie_fs) + i]["item"], "real": rs}, "the tie item does not expand")
                    continue
                real_set = set()
                for mm in _re.finditer(r"TryFrom\s*<\s*(&\s*'\w+\s*(mut\s*)?)?%s\s*>\s*for\s*\((.*?)\)\s*\{\s*type Error.*?TryIntoError\s*::\s*new\s*\(\s*value\s*,\s*\"([^\"]*)\"" % name,
                                       rs["ok"], _re.S):
                    refc = 0 if mm.group(1) is None else (2 if mm.group(2) else 1)
                    tys = tuple(x for x in (_re.sub(r"&\s*'\w+\s*(mut\s*)?", "", p_).replace(" ", "") for p_ in mm.group(3).split(",")) if x)
                    real_set.add((refc, tys, tuple(x.strip() for x in mm.group(4).split(","))))
                if model != real_set:
                    chk.violation("tie-model:try_into", {"item": reqs_t[len(tie_fs) + i]["item"], "model_groups": sorted(model),
                                                         "real_groups": sorted(real_set)},
                                  "the model's variants_per_types table differs from the impls the expansion emits: %s"
                                  % reqs_t[len(tie_fs) + i]["item"][:160])
    chk.cov["traces_validated_against_impl"] = n_cmp
    for j, (d, it, g, mech) in enumerate(cases):
        if mech != "other" and g >= 4 and kinds.get(j) == "ok":
            chk.sample({"derive": d, "item": it[:300], "entries_in_iterated_collection": g}, limit=8)
    shutil.rmtree(base_dir, ignore_errors=True)

    with_input = [v for v in chk.violations if not v[3]]
    if getattr(chk, "proof_broken", False) and not with_input:
        chk.violation("proof-broken", chk.proof_failure,
                      "a C19 obligation no longer checks (%s) and the multi-process / multi-order search over %d "
                      "comparisons found no differing output" % (chk.proof_failure["failed"], n_cmp), no_input=True)
    elif getattr(chk, "proof_broken", False):
        chk.notes.append("proof obligation broken at %s; differing outputs found by the search" % chk.proof_failure["failed"])

    extra = {"search_is_testing": True,
             "aslr_randomize_va_space": aslr,
             "environments": [e["desc"] for e in envs],
             "orders": list(orders), "size_history_comparisons": n_hist, "name_collision_comparisons": n_coll, "diagnostic_history_items": n_diag, "model_tie_items": n_tie, "introduced_name_clash_comparisons": n_clash, "drift_comparisons": n_drift, "real_rustc_position_files": pos_files, "real_rustc_copies_compared": n_pos,
             "histories": sorted(set(h[0].split(": ", 1)[-1] for h in hist_plan)),
             "controls": {"alias_orders_seen": len(alias_orders), "random_state_orders_seen": len(random_orders),
                          "translator_mutations": [{"mutation": n, "facts_ok": v} for n, v in controls]}}
    if facts is not None:
        extra["facts"] = {"counts": facts["counts"], "aliases": facts["raw_alias"], "iteration_sites": facts["iter_sites"],
                          "state_sites": facts["state"]}
    return chk.finish(
        proof=st,
        rule="corpus: per seed-derived index one generated item for each hash-iterating expander (TryInto: 3-27 variants x "
             "owned/ref/ref_mut over a 17-type pool; FromStr: 2-8 words x 1-5 case spellings; Error: 1-8 type parameters "
             "as sources under 7 wrappers; Mul-/MulAssign-like x 5 traits: 1-11 fields over 6 shapes x 7 parameters), the "
             "legacy `types(..)` attribute spellings, and 8-13 fixed shapes for every derive of the table; each item is "
             "expanded in 8 fresh processes (environment/cwd/ASLR varied) and in 3 orders within one process and thread; small "
             "items (2-6 entries) of each hash-iterating expander are additionally expanded alone vs after 12/40/150-entry "
             "items of the same derive, after 30-60-entry items of the other derives, twice, and after a same-named item; "
             "for every derive x 3 (quick) / 10 type spellings a generic/concrete pair of otherwise identical items is expanded "
             "in both orders on one thread and on fresh threads; Mul-like items come with and without a trailing comma; "
             "non-trivial = the iterated collection has >= 2 entries and the expansion succeeds; distinct by (derive, item)",
        trusted=TRUSTED, extra=extra)


META = {
    "level": "proof",
    "technique": "Coq proof over a model with explicit seed/history parameters + source-fact translator (T-gen) + "
                 "multi-process / multi-order byte comparison (testing)",
    "text": "The model makes the hidden inputs explicit (RandomState seed, process history). Theorems: if the facts "
            "extracted from impl/src hold (aliases built with a field-less state whose build_hasher is "
            "DefaultHasher::default(), every hash-collection mention resolves to the alias, no static/thread_local/"
            "lazy/atomic/time/env/pid/{:p}/rand/fs/address pattern in macro code) then the model's output is "
            "independent of seed and history for every input, and the emission order is the order by the fixed hash "
            "of the keys (a permutation of the insertion-ordered entries, sorted, a function of the item alone). "
            "C19_facts_ok is re-proved by vm_compute on Gen/HashFacts.v, regenerated from the working tree each run. "
            "Partial: nondeterminism outside the fact patterns is only searched (8 processes x 3 orders byte comparison).",
    "note": "Trusted: Coq kernel/vm_compute; the translator (lists mentions/patterns; sensitivity controls re-run each "
            "run on mutated sources); model abstraction of hashbrown iteration order; in-process harness. The "
            "multi-process comparison is testing and is labelled so.",
    "design_ref": "DESIGN.md section 2 / C19",
}
