"""C02 - derived formatting prints exactly what format! prints for the same literal."""
from lib import common
from lib import fmtcheck as C
from lib import fmtitems as F
from lib import fmtrt as R


def unit_cases(rng, k0, n):
    """unit structs / unit variants with rename_all: the printed name (independent casing implementation)"""
    cases = []
    for i in range(n):
        c = R.Case(k0 + i)
        name = rng.choice(["Foo", "FooBar", "OneTwoThree", "Xml", "r#Struct", "r#type", "lower", "snake_name", "SCREAM"])
        casing = rng.choice([None] + C.CASINGS)
        ra = "#[display(rename_all = \"%s\")] " % casing if casing else ""
        exp = C.rename(F.unraw(name), casing) if casing else F.unraw(name)
        shape = rng.random()
        if shape < 0.4:
            c.decl = "#[derive(derive_more::Display)] %spub struct %s;" % (ra, name)
            c.value = name
        elif shape < 0.65:
            # several #[display(...)] attributes on one item: rename_all next to bound(...) in either order, and next to
            # attributes of other derives
            bound = "#[display(bound(T: ::core::fmt::Display))] "
            other = rng.choice(["", "#[allow(dead_code)] ", "#[doc = \"x\"] "])
            attrs = [ra, bound] if rng.random() < 0.5 else [bound, ra]
            c.decl = "#[derive(derive_more::Display)] %s%s%spub enum En<T> { %s, Other(T) }" % (attrs[0], other, attrs[1], name)
            c.value = "En::<i32>::" + name
        else:
            c.decl = "#[derive(derive_more::Display)] %spub enum En { %s, Other(i32) }" % (ra, name)
            c.value = "En::" + name
        c.obs = [("unit-name", "format!(\"{}\", __v)", "String::from(%s)" % F.rust_lit(exp))]
        c.meta = {"name": name, "rename_all": casing, "decl": c.decl}
        cases.append(c)
    return cases


def run(tier, seed, replay):
    chk = common.Check("C02", tier, seed)
    st = common.check_proofs(chk, "C02", extra_dirs=("Fmt", "Gen", "C05", "C07"))
    n = 2500 if tier == "quick" else 15000
    C.decision_tie(chk, n, n // 2)

    rng = chk.rng
    ncase = 1500 if tier == "quick" else 8000
    cases, derive_of, enum_of = [], {}, {}
    for k in range(ncase):
        tr = rng.choice(F.DISPLAY_TRAITS + ["Display", "Display", "Debug", "Debug"])
        if rng.random() < 0.05:
            # `.*` placeholders over fields of type parameters, followed by further implicit placeholders
            c = R.gen_star_struct_case(rng, k)
            tr = "Display"
            enum_of[k] = False
        elif rng.random() < 0.7:
            c = R.gen_struct_case(rng, k, tr)
            enum_of[k] = False
        else:
            tr = tr if tr != "Pointer" else "Display"
            c = R.gen_enum_case(rng, k, tr)
            enum_of[k] = True
            if c.meta["must_fail"] or c.meta["mode"] not in ("none", "default"):
                continue
        derive_of[k] = tr
        cases.append(c)
    for c in unit_cases(rng, ncase, 60 if tier == "quick" else 400):
        derive_of[c.k] = "Display"
        enum_of[c.k] = False
        cases.append(c)
    out, err = R.build_and_run("c02_rt", cases, derive_of, enum_of, chk)
    if out is None:
        chk.violation("rt-corpus-does-not-compile", {"stderr": err[-4000:]},
                      "the run-time corpus (well-typed by construction) does not compile with the real macro")
    else:
        nobs = 0
        for c in cases:
            for (tag, eq, d, r) in out.get(c.k, []):
                if tag.startswith("flags-"):
                    continue
                nobs += 1
                chk.count(("rt", c.decl, tag), True)
                chk.bump("rt:" + tag.split(":")[0])
                if not eq:
                    chk.violation("output-differs-from-format:" + tag.split(":")[0],
                                  {"decl": c.decl, "obs": tag, "derived": d, "format_reference": r, "meta": c.meta},
                                  "%s prints %s but format! with the documented bindings prints %s" % (c.decl, d, r))
                elif nobs % 53 == 0:
                    chk.sample({"decl": c.decl, "output": d})
        chk.cov["rt_observations"] = nobs
    common.cleanup_scratch("c02_rt")
    return C.finish_with_proofs(
        chk, st,
        rule="(1) generated Display-like/Debug items, the WHOLE derive input going through the model's front end (attributes selected by "
             "name, several attributes per item in any order incl. attributes of other derives, duplicates, legacy `fmt =`/`bound =` "
             "spellings, rename_all on enums and variants, unions): model vs real expander (the attribute is handed to write! verbatim, "
             "which fields are re-bound, how the fields are bound - `let x = &self.x` / match patterns -, body shapes, unit names with "
             "the casing applied by an independent implementation, diagnostics); (2) well-typed structs and enum variants (1-3 fields of i32/u8/f64/&str/&i32/bool; "
             "literals with named, positional, aliased and expression arguments, escapes, every trait letter, Pointer, modifiers; "
             "unit types with rename_all) compiled with the real macro: flag-free output vs format!(literal, args) with every field bound "
             "under its name in the same process; non-trivial = has a format attribute or rename_all or a field; distinct by source",
        trusted=C.FMT_TRUSTED + ["tools/lib/fmtcheck.py::rename - independent implementation of the 8 casings (convert_case itself is not modelled)"])


META = {
    "level": "proof",
    "technique": "Coq theorems on the body/binding model of the fmt derives + differential tie to the real expander + run-time byte comparison with format! (real macro)",
    "text": "Proved for all attributes/field lists: a non-delegating attribute is handed to write! verbatim; exactly the fields named "
            "in a Pointer placeholder (and not aliased) are re-bound to the field itself, so a field named in the literal prints as "
            "the field itself under every trait while a field name inside an argument expression is a reference; std and derive_more "
            "agree on which fields the literal names (via C03); without attribute a single field delegates under the derived trait and a "
            "unit prints its name. Also proved: under every combination of own and enum-level attribute the own attribute reaches write! / "
            "format_args! / Trait::fmt unchanged; every field is bound under its name, in order, as a reference (struct lets and match "
            "patterns); a delegation passes the field itself only where that is indistinguishable from the documented binding; unit "
            "names use the variant's rename_all, else the enum's (casing uninterpreted); attributes of other derives are never read; "
            "merging several attributes keeps one format, one rename_all and all bound(...) predicates; Debug's builder chain. "
            "Model tied to the expander each run; real expansions are compared byte-for-byte with format! at run time.",
    "note": "Trusted: Coq kernel; Fmt/Model.v tied by differential runs; core's forwarding impls (&T formats like T except Pointer) and "
            "format_args! semantics (exercised at run time); convert_case (compared with an independent casing implementation).",
    "design_ref": "DESIGN.md section 2 / C02",
}
