"""C05 - caller's formatting flags pass through exactly for bare-placeholder formats."""
import json
import re

from lib import common
from lib import fmtcheck as C
from lib import fmtitems as F
from lib import fmtrt as R


def text_oracle(chk, res, kind):
    """independent reading of the property text vs the real body shape (no model involved)"""
    for r in res:
        it = r["item"]
        if it["kind"] != "struct" or it["container"].get("fmt") is None:
            continue
        real = C.real_display(r["resp"])
        if real[0] != "ok":
            continue
        a = it["container"]["fmt"]
        fields = it["fields"]
        if kind == "debug" and any(isinstance(f.get("attr"), dict) for f in fields["list"]):
            continue
        args = [(x["alias"], x["expr"]) for x in a["args"]]
        expected, letter = R.is_bare_per_text(a["lit"], args, None)
        body = (C.real_arm_bodies if kind == "display" else C.real_debug_arm_bodies)(it, real[1])[0]
        got = body is not None and body[0] == "delegate"
        chk.bump("text-oracle:%s" % ("delegate" if expected else "write"))
        if expected != got:
            chk.violation("delegation-decision", {"item": r["src"], "derive": it["trait"], "expected_delegation": expected,
                                                  "body": str(body)},
                          "%s: the literal %r with args %s should %sdelegate per the property text, the expansion does%s" % (
                              it["trait"], a["lit"], args, "" if expected else "not ", "" if got else " not"))
        elif expected:
            want = {"": "Display", "?": "Debug", "x": "LowerHex", "X": "UpperHex", "o": "Octal", "p": "Pointer",
                    "b": "Binary", "e": "LowerExp", "E": "UpperExp"}[letter]
            if body[1] != want:
                chk.violation("delegation-trait", {"item": r["src"], "expected": want, "body": str(body)},
                              "delegates under %s instead of %s: %s" % (body[1], want, r["src"]))


# enum-level attributes whose reading under the property text is beyond doubt: (literal, argument sources) -> how the
# attribute relates to the variants ("wrap": mentions `_variant`; "bare": is exactly one flag-free `_variant` placeholder;
# "default": does not mention `_variant`)
SHARED_MENU = {
    ("{_variant}", ()): "bare", ("<{_variant}>", ()): "wrap", ("{_variant}: {}", ("1 + 1",)): "wrap",
    ("[{}]", ("_variant",)): "wrap", ("dflt", ()): "default", ("{0}", ("_variant",)): "bare",
    ("{x}", ("x = _variant",)): "bare", ("{}", ("_variant",)): "bare", ("{_variant }", ()): "bare",
    ("{_variant}{_variant}", ()): "wrap", ("{}", ("1",)): "default", ("{0} {_variant}", ("_variant",)): "wrap",
    ("{_variant:}", ()): "bare",
}


def enum_text_oracle(chk, res):
    """independent reading of the property text for ENUMS (Display-like derives): which attribute governs a variant
    (its own; the enum-level one when it mentions `_variant`, or when the variant has none; a bare `{_variant}` of the
    derived trait changes nothing) and whether that attribute is a bare placeholder - against the shape of the real arm"""
    letter_tr = {"": "Display", "?": "Debug", "x": "LowerHex", "X": "UpperHex", "o": "Octal", "p": "Pointer",
                 "b": "Binary", "e": "LowerExp", "E": "UpperExp"}
    for r in res:
        it = r["item"]
        if it["kind"] != "enum" or it.get("exotic"):
            continue
        real = C.real_display(r["resp"])
        if real[0] != "ok":
            continue
        sa = it["container"].get("fmt")
        mode = None
        if sa is not None:
            key = (sa["lit"], tuple(("%s = " % x["alias"] if x["alias"] else "") + x["expr"] for x in sa["args"]))
            mode = SHARED_MENU.get(key)
            if mode is None and "_variant" not in sa["lit"] and not any("_variant" in x["expr"] or x["alias"] == "_variant" for x in sa["args"]):
                mode = "default"
            if mode is None:
                continue
            if mode == "bare" and it["trait"] == "Display":
                mode, sa = None, None              # as if there were no enum-level attribute
            elif mode == "bare":
                mode = "wrap"
        bodies = C.real_arm_bodies(it, real[1])
        for v, body in zip(it["variants"], bodies):
            own = v.get("fmt")
            gov = sa if (mode == "wrap" or (mode == "default" and own is None)) else own
            top = body
            while top is not None and top[0] == "match_variant":
                top = top[2]
            got = top is not None and top[0] == "delegate"
            if gov is not None:
                expected, letter = R.is_bare_per_text(gov["lit"], [(x["alias"], x["expr"]) for x in gov["args"]], None)
                want_tr = letter_tr[letter] if expected else None
            else:
                expected = len(v["fields"]["list"]) == 1
                want_tr = it["trait"]
            chk.bump("text-oracle:enum:%s:%s" % (mode or "none", "delegate" if expected else "other"))
            if expected != got:
                chk.violation("delegation-decision", {"item": r["src"], "derive": it["trait"], "variant": v["name"],
                                                      "expected_delegation": expected, "body": str(body)},
                              "%s, variant %s: per the property text the governing attribute should %sdelegate, the expansion does%s" % (
                                  it["trait"], v["name"], "" if expected else "not ", "" if got else " not"))
            elif expected and top[1] != want_tr:
                chk.violation("delegation-trait", {"item": r["src"], "variant": v["name"], "expected": want_tr, "body": str(body)},
                              "delegates under %s instead of %s: %s" % (top[1], want_tr, r["src"]))


def run(tier, seed, replay):
    chk = common.Check("C05", tier, seed)
    st = common.check_proofs(chk, "C05", extra_dirs=("Fmt", "Gen", "C07"))
    n = 3000 if tier == "quick" else 20000
    res, dres = C.decision_tie(chk, n, n // 2)
    text_oracle(chk, res, "display")
    text_oracle(chk, dres, "debug")
    enum_text_oracle(chk, res)

    # run time: the real macro, rustc, caller's flags
    rng = chk.rng
    ncase = 1200 if tier == "quick" else 6000
    cases, derive_of, enum_of = [], {}, {}
    for k in range(ncase):
        tr = rng.choice(F.DISPLAY_TRAITS[:-1] + ["Display", "Display", "Debug"])
        if rng.random() < 0.04:
            # one bare placeholder, one argument: an expression with nested generic arguments closed by `>>`
            c = R.gen_nested_generic_case(rng, k)
            tr = "Display"
            enum_of[k] = False
        elif rng.random() < 0.3 and tr != "Pointer":
            # enums: an enum-level format that wraps (or, for a non-Display derive, merely mentions `_variant`) is an
            # attribute-driven, non-delegating format; without one every variant follows the struct rules
            c = R.gen_enum_case(rng, k, tr, with_flags=True)
            if c.meta["must_fail"]:
                continue
            c.value = "; ".join(x["val"] for x in c.values)
            enum_of[k] = True
            chk.bump("rt:enum-mode:" + c.meta["mode"])
        else:
            c = R.gen_struct_case(rng, k, tr)
            enum_of[k] = False
        cases.append(c)
        derive_of[k] = tr
    for (c, tr) in R.pinned_struct_cases(ncase):
        cases.append(c)
        derive_of[c.k] = tr
        enum_of[c.k] = False
    out, err = R.build_and_run("c05_rt", cases, derive_of, enum_of, chk)
    if out is None:
        chk.violation("rt-corpus-does-not-compile", {"stderr": err[-4000:]},
                      "the run-time corpus (well-typed by construction) does not compile with the real macro", no_input=False)
    else:
        nobs = 0
        for c in cases:
            for (tag, eq, d, r) in out.get(c.k, []):
                if not tag.startswith("flags-"):
                    continue
                nobs += 1
                chk.count(("rt", c.decl, tag), True)
                chk.bump("rt:" + tag.split(":")[0])
                if not eq:
                    chk.violation("flags-" + ("not-passed" if tag.startswith("flags-pass") else "not-inert"),
                                  {"decl": c.decl, "value": c.value, "outer_spec": tag.split(":", 1)[1].split("@")[0], "derived": d, "expected": r,
                                   "meta": c.meta},
                                  "caller's flags %s: %s gives %s, expected %s" % (tag, c.decl, d, r))
                elif nobs % 97 == 0:
                    chk.sample({"decl": c.decl, "obs": tag, "output": d})
        chk.cov["rt_observations"] = nobs
    common.cleanup_scratch("c05_rt")
    return C.finish_with_proofs(
        chk, st,
        rule="(1) generated Display-like/Debug items (structs+enums, 0-3 fields, literals with bare/modified/multiple placeholders, "
             "positional/named/aliased/expression args, raw idents, generics): model vs real expander (body shape, bounds, diagnostics) "
             "and an independent regex reading of the property text vs the real body shape (structs: the attribute; enums: which "
             "attribute governs each variant - own / wrapping / default / bare {_variant} - and whether it is a bare placeholder); (2) well-typed structs and enums (with/without an enum-level format, variants with own attributes, single "
             "fields, one variant possibly of a type parameter) compiled with the "
             "real macro: format!(\"{:<outer spec>}\", v) vs the same spec applied to the inner argument (delegating) or vs the flag-free "
             "text (inert), outer specs over fill/align/sign/#/0/width/precision; non-trivial = has a format attribute or a field; "
             "distinct by item source / (decl, spec)",
        trusted=C.FMT_TRUSTED)


META = {
    "level": "proof",
    "technique": "Coq theorems on a model of FmtAttribute::transparent_call/generate_body + differential tie to the real expander + run-time flag oracle with the real macro",
    "text": "Proved for all literals/argument lists: a format attribute delegates iff its literal is one modifier-free placeholder "
            "referring to its only argument (no index, index 0, matching alias) or to a binding by name, under the placeholder's "
            "trait; an out-of-range index never delegates; modifiers/text/several placeholders never delegate; the delegating body "
            "hands the caller's formatter on and every other attribute-driven body ignores it (Layer-2 semantics). For EVERY struct and "
            "enum variant under every combination of own and enum-level attribute the body delegates exactly as the governing attribute "
            "prescribes (own; the enum-level one when it wraps or is the default; a bare {_variant} of the derived trait counts as absent), "
            "and every body shape is either a pass-through to that argument or independent of the caller's flags. The model is "
            "re-tied to impl/src/fmt on every run (bodies, bounds, diagnostics of ~2000 generated items) and the real macro's "
            "behaviour under caller flags is compared with plain format! at run time.",
    "note": "Trusted: Coq kernel; Fmt/Model.v tied by differential runs; the Layer-2 semantics of Trait::fmt/write! (assumed, "
            "exercised at run time against rustc); generators; in-process harness.",
    "design_ref": "DESIGN.md section 2 / C05",
}
