"""C10 - derived operators act field-wise with operand order preserved.

proofs : coq/theories/C10 (model of add_like / add_assign_like / mul_like / mul_assign_like / not_like /
         sum_like + explicit semantics of the emitted expressions over an uninterpreted, non-commutative
         `op`; theorems for every arity / every enum shape)
tie 1  : the model's expansion (impl header, method name, body expression tree, rendered as tokens) vs the
         real expander run in-process (`expand`) on the same declaration, incl. rejected / panicking inputs
tie 2  : the model's semantics, instantiated with the free term algebra inside Coq, vs the REAL proc-macro
         compiled by rustc in a generated crate and run on an instrumented operand type (every operator
         impl returns the term "(meth L R)" built from its operands, so a swapped operand/field shows)
oracle : an independent Python evaluator of the property text (field-wise, lhs first, std method names
         from a hand-written table) vs the same real run-time output; plus `a op= b` vs `a op b` directly
"""
import json
import os
import re
import threading

from lib import common
from lib.common import coq_str, py_str

TRUSTED = [
    "Coq 8.16.1 kernel + vm_compute (coqc full .vo build); no axioms (Print Assumptions: closed)",
    "hand-written Gallina model coq/theories/C10/Model.v of the six operator expanders, tied to the code on every run "
    "(token-level comparison with the in-process expansion; behavioural comparison with the rustc-compiled real macro)",
    "the Layer-2 semantics of the emitted expressions (Model.v, Section Sem): field selection by name, struct "
    "literals by name, first-matching-arm, statements in order, Iterator::fold = fold_left - validated against rustc "
    "on every generated case",
    "tools/props/c10.py: generators, the Rust/Coq renderers of a declaration, the token renderer of the model's "
    "expression tree, the instrumented operand types of the generated crate",
    "str::to_lowercase coincides with ASCII lowering on ASCII input (hypothesis lower_ok of the theorems; "
    "the 24 trait names are ASCII)",
]

# ------------------------------------------------------------------ std's operator table (hand-written, independent)

ADD_LIKE = ["Add", "Sub", "BitAnd", "BitOr", "BitXor"]
MUL_LIKE = ["Mul", "Div", "Rem", "Shr", "Shl"]
ADD_ASSIGN = [t + "Assign" for t in ADD_LIKE]
MUL_ASSIGN = [t + "Assign" for t in MUL_LIKE]
UNARY = ["Not", "Neg"]
FOLD = ["Sum", "Product"]
ALL24 = ADD_LIKE + ADD_ASSIGN + MUL_LIKE + MUL_ASSIGN + UNARY + FOLD
STD = {"Add": "add", "Sub": "sub", "BitAnd": "bitand", "BitOr": "bitor", "BitXor": "bitxor",
       "Mul": "mul", "Div": "div", "Rem": "rem", "Shr": "shr", "Shl": "shl",
       "AddAssign": "add_assign", "SubAssign": "sub_assign", "BitAndAssign": "bitand_assign",
       "BitOrAssign": "bitor_assign", "BitXorAssign": "bitxor_assign",
       "MulAssign": "mul_assign", "DivAssign": "div_assign", "RemAssign": "rem_assign",
       "ShrAssign": "shr_assign", "ShlAssign": "shl_assign",
       "Not": "not", "Neg": "neg", "Sum": "sum", "Product": "product"}
EXPANDER = {}
for _t in ADD_LIKE:
    EXPANDER[_t] = "add_like"
for _t in ADD_ASSIGN:
    EXPANDER[_t] = "add_assign_like"
for _t in MUL_LIKE:
    EXPANDER[_t] = "mul_like"
for _t in MUL_ASSIGN:
    EXPANDER[_t] = "mul_assign_like"
for _t in UNARY:
    EXPANDER[_t] = "not_like"
for _t in FOLD:
    EXPANDER[_t] = "sum_like"
COQ_EXPANDER = {"XAddLike": "add_like", "XAddAssignLike": "add_assign_like", "XMulLike": "mul_like",
                "XMulAssignLike": "mul_assign_like", "XNotLike": "not_like", "XSumLike": "sum_like"}


def base_of(tr):
    return tr[:-6] if tr.endswith("Assign") else tr


NTAGS = 4
SCALARS = [("Sc", True), ("Sz", True), ("Sn", False)]      # (type, Copy?)

# ------------------------------------------------------------------ declarations
#
# case = {"id", "kind": "struct"|"enum", "shape": "tuple"|"named"|"unit", "fields": [{"name", "tag"}],
#         "variants": [{"name", "shape", "fields"}], "generic": {tag: "A"}, "attrs": [attr], "derives": [...],
#         "custom": ["Add", "Mul"]}
# attr = {"name": "mul", "meta": "path" | "nv" | ["forward", ["not", ["forward"]], ["list", "forward"]] }

FIELD_NAMES = ["x", "y", "z", "w", "val", "r#type", "r#fn", "_0", "a", "b", "lhs", "self_", "_1", "rhs"]
VARIANT_NAMES = ["A", "B", "C", "D", "Zero", "One", "Two", "Pt", "Unit", "V"]


def gen_fields(rng, shape, n, tags=None):
    names = rng.sample(FIELD_NAMES, n)
    return [{"name": names[i] if shape == "named" else None,
             "tag": (tags[i] if tags else rng.randrange(NTAGS)), "attrs": []} for i in range(n)]


def gen_struct(rng, cid, shape, n, fwd, generic=False, custom=(), not_forward=()):
    c = {"id": cid, "kind": "struct", "shape": shape, "fields": gen_fields(rng, shape, n), "generic": {},
         "attrs": [], "custom": list(custom)}
    if generic and n:
        used = sorted(set(f["tag"] for f in c["fields"]))
        pick = rng.sample(used, rng.randrange(1, len(used) + 1))
        c["generic"] = {t: "ABCD"[i] for i, t in enumerate(sorted(pick))}
    for tr in MUL_LIKE + MUL_ASSIGN:
        if tr in fwd:
            c["attrs"].append({"name": STD[tr], "meta": ["forward"]})
        elif tr in not_forward:
            c["attrs"].append({"name": STD[tr], "meta": [["not", ["forward"]]]})
    c["fwd"] = sorted(fwd)
    return c


def struct_derives(c):
    """what can be derived on this struct such that the crate is expected to compile"""
    n = len(c["fields"])
    d = []
    if c["shape"] != "unit":
        d += ADD_LIKE + ADD_ASSIGN + UNARY
        d += MUL_LIKE + MUL_ASSIGN
    else:
        d += [t for t in MUL_LIKE + MUL_ASSIGN if t not in c["fwd"]]
    if "Add" in c["custom"]:
        d.remove("Add") if "Add" in d else None
    if "Mul" in c["custom"]:
        d.remove("Mul") if "Mul" in d else None
    if "Add" in d or "Add" in c["custom"]:
        d.append("Sum")
    if ("Mul" in d and "Mul" in c["fwd"]) or "Mul" in c["custom"]:
        d.append("Product")
    return d


def gen_enum(rng, cid, nvar, force=None, fwd=(), arity=None):
    names = rng.sample(VARIANT_NAMES, nvar)
    vs = []
    for i in range(nvar):
        shape = force[i] if force else rng.choice(["tuple", "named", "unit", "tuple", "named"])
        n = 0 if shape == "unit" else rng.choice([0, 1, 1, 2, 2, 3]) if not force else rng.choice([1, 2, 3])
        if arity is not None and shape != "unit":
            n = arity
        vs.append({"name": names[i], "shape": shape, "fields": gen_fields(rng, shape, n), "attrs": []})
    fwd = [t for t in MUL_LIKE if t in fwd]
    # `#[mul(forward)]` is what makes a Mul-like derive applicable to an enum (mul_like.rs:14-20)
    return {"id": cid, "kind": "enum", "variants": vs, "generic": {}, "custom": [], "fwd": fwd,
            "attrs": [{"name": STD[t], "meta": ["forward"]} for t in fwd]}


# ---- rendering: Rust

# Operand types: T0..T3 implement only the operator traits.  H0..H3 implement the same traits AND have INHERENT
# methods named like every operator method (add, mul, shl_assign, not, sum, ...), generic in the argument, which
# return a visibly different term "(INHERENT-<name> ..)".  A derive that reaches a field through method-call
# syntax (`self.f.mul(rhs)`) instead of the operator trait's path silently calls those (classes
# inherent-namesake-shadows-*).  `hij` cases use H types for their fields and derive everything.


def tag_ctor(c, tag):
    """name of the concrete operand type behind a field's type (generic parameters are instantiated with it)"""
    return ("H%d" if c.get("hij") else "T%d") % tag


def ty_text(c, tag):
    if tag in c.get("tytext", {}):
        return c["tytext"][tag]
    return c["generic"].get(tag, tag_ctor(c, tag))


def attr_rust(a):
    m = a["meta"]
    if m == "path":
        return "#[%s]" % a["name"]
    if m == "nv":
        return '#[%s = "forward"]' % a["name"]

    def p(x):
        if isinstance(x, str):
            return x
        if x[0] == "not":
            return "not(%s)" % ", ".join(q if isinstance(q, str) else "%s(forward)" % q[1] for q in x[1])
        return "%s(forward)" % x[1]
    return "#[%s(%s)]" % (a["name"], ", ".join(p(x) for x in m))


def fields_rust(c, shape, fields):
    def one(f):
        at = "".join(attr_rust(a) + " " for a in f.get("attrs", []))
        return at + ("" if f["name"] is None else f["name"] + ": ") + ty_text(c, f["tag"])
    if shape == "unit":
        return ""
    if shape == "tuple":
        return "(" + ", ".join(one(f) for f in fields) + ")"
    return " { " + ", ".join(one(f) for f in fields) + " }"


def gen_of(c):
    """generic parameters / where-clause of a declaration:
    {"params": [("lt", "'a") | ("ty", "A", ["Clone"]) | ("const", "const N: usize")], "where": ["A: Copy"]}"""
    if c.get("gen"):
        return c["gen"]
    return {"params": [("ty", c["generic"][t], []) for t in sorted(c.get("generic", {}))], "where": []}


def generics_rust(c):
    ps = gen_of(c)["params"]
    if not ps:
        return ""

    def one(p):
        if p[0] == "ty":
            return p[1] + ((": " + " + ".join(p[2])) if p[2] else "")
        return p[1]
    return "<" + ", ".join(one(p) for p in ps) + ">"


def ty_generics_rust(c):
    """the names only, as `split_for_impl().1` prints them"""
    ps = gen_of(c)["params"]
    if not ps:
        return ""

    def one(p):
        if p[0] == "lt":
            return p[1].split(":")[0].strip()
        if p[0] == "const":
            return p[1].split(":")[0].replace("const", "").strip()
        return p[1]
    return "<" + ", ".join(one(p) for p in ps) + ">"


def where_rust(c):
    w = gen_of(c)["where"]
    return (" where " + ", ".join(w)) if w else ""


def generics_coq(c):
    g = gen_of(c)
    ps = []
    for p in g["params"]:
        if p[0] == "lt":
            ps.append("GLifetime %s" % coq_str(p[1]))
        elif p[0] == "ty":
            ps.append("GType %s [%s]" % (coq_str(p[1]), "; ".join(coq_str(b) for b in p[2])))
        else:
            ps.append("GConst %s" % coq_str(p[1]))
    return "{| g_params := [%s]; g_where := [%s] |}" % ("; ".join(ps), "; ".join(coq_str(w) for w in g["where"]))


def item_rust(c, name=None):
    """the item the derive sees (without the #[derive] line)"""
    name = name or ("S" if c["kind"] == "struct" else "E")
    at = "".join(attr_rust(a) + " " for a in c["attrs"])
    if c["kind"] == "union":
        return at + "union %s { x: u32, y: u32 }" % name
    if c["kind"] == "struct":
        body = fields_rust(c, c["shape"], c["fields"])
        if c["shape"] == "named":
            return at + "struct %s%s%s%s" % (name, generics_rust(c), where_rust(c), body)
        return at + "struct %s%s%s%s;" % (name, generics_rust(c), body, where_rust(c))
    vs = ", ".join("".join(attr_rust(a) + " " for a in v.get("attrs", [])) + v["name"] +
                   fields_rust(c, v["shape"], v["fields"]) for v in c["variants"])
    return at + "enum %s%s%s { %s }" % (name, generics_rust(c), where_rust(c), vs)


# ---- rendering: Coq

def attr_coq(a):
    m = a["meta"]
    if m == "path":
        mm = "MetaPath"
    elif m == "nv":
        mm = "MetaNameValue"
    else:
        ps = []
        for x in m:
            if isinstance(x, str):
                ps.append("AWord %s" % coq_str(x))
            elif x[0] == "not":
                ps.append("ANot [%s]" % "; ".join(("IWord %s" % coq_str(q)) if isinstance(q, str)
                                                  else ("IList %s" % coq_str(q[1])) for q in x[1]))
            else:
                ps.append("AList %s" % coq_str(x[1]))
        mm = "MetaList [%s]" % "; ".join(ps)
    return "{| at_name := %s; at_meta := %s |}" % (coq_str(a["name"]), mm)


def attrs_coq(l):
    return "[%s]" % "; ".join(attr_coq(a) for a in l)


def fields_coq(shape, fields):
    def fld(f):
        return "{| f_ty := %d; f_attrs := %s |}" % (f["tag"], attrs_coq(f.get("attrs", [])))
    if shape == "unit":
        return "FUnit"
    if shape == "tuple":
        return "FUnnamed [%s]" % "; ".join(fld(f) for f in fields)
    return "FNamed [%s]" % "; ".join("(%s, %s)" % (coq_str(f["name"]), fld(f)) for f in fields)


def input_coq(c):
    if c["kind"] == "union":
        d = "DUnion"
    elif c["kind"] == "struct":
        d = "DStruct (%s)" % fields_coq(c["shape"], c["fields"])
    else:
        d = "DEnum [%s]" % "; ".join(
            "{| v_name := %s; v_fields := %s; v_attrs := %s |}" %
            (coq_str(v["name"]), fields_coq(v["shape"], v["fields"]), attrs_coq(v.get("attrs", [])))
            for v in c["variants"])
    return "{| i_attrs := %s; i_data := %s |}" % (attrs_coq(c["attrs"]), d)


def val_coq(ctor, leaves):
    c = "CStruct" if ctor is None else "CVariant %s" % coq_str(ctor)
    return "(%s, [%s])" % (c, "; ".join(coq_str(x) for x in leaves))


# ------------------------------------------------------------------ tie 1: render the model's impl as tokens

def nows(s):
    return re.sub(r"\s+", "", s)


class Render:
    def __init__(self, c, name, im):
        self.c = c
        self.name = name
        self.im = im
        self.trait = py_str(im["im_trait"])
        self.vars = ("__l_", "__r_")

    def member(self, m):
        return str(m[1]) if m[0] == "MIdx" else py_str(m[1])

    def expr(self, e):
        if e == "EScalar":
            return "rhs"
        k = e[0]
        if k == "ESel":
            return ("self." if e[1] == "Lhs" else "rhs.") + self.member(e[2])
        if k == "EVar":
            return (self.vars[0] if e[1] == "Lhs" else self.vars[1]) + str(e[2])
        if k == "ECall":
            st, meth, a, b = e[1], py_str(e[2]), self.expr(e[3]), self.expr(e[4])
            if st[0] == "CPath":
                ref = {"RefNo": "", "RefMut": "&mut "}[st[1]]
                return "derive_more::core::ops::%s::%s(%s%s,%s)" % (self.trait, meth, ref, a, b)
            ty = ty_text(self.c, st[1])
            ref = {"RefNo": "", "RefMut": "&mut "}[st[2]]
            return "<%s as derive_more::with_trait::%s<__RhsT>>::%s(%s%s,%s)" % (ty, self.trait, meth, ref, a, b)
        if k == "ECall1":
            return "derive_more::core::ops::%s::%s(%s)" % (self.trait, py_str(e[1]), self.expr(e[2]))
        if k == "EIdentity":
            return "derive_more::with_trait::%s::%s(derive_more::core::iter::empty::<%s>())" % (
                self.trait, py_str(e[1]), ty_text(self.c, e[2]))
        raise ValueError(e)

    def ctor(self, c):
        return self.name if c == "CStruct" else "%s::%s" % (self.name, py_str(c[1]))

    def build(self, b):
        if b[0] == "BTuple":
            return "%s(%s)" % (self.ctor(b[1]), ",".join(self.expr(e) for e in b[2]))
        return "%s{%s}" % (self.ctor(b[1]), ",".join("%s:%s" % (py_str(n), self.expr(e)) for (n, e) in b[2]))

    def pat(self, p, pre):
        v = "%s::%s" % (self.name, py_str(p[1]))
        if p[0] == "PUnit":
            return v
        if p[0] == "PTuple":
            return "%s(%s)" % (v, ",".join("%s%d" % (pre, i) for i in range(p[2])))
        return "%s{%s}" % (v, ",".join("%s:%s%d" % (py_str(n), pre, i) for i, n in enumerate(p[2])))

    def rexpr(self, r):
        R = "derive_more::core::result::Result::"
        k = r[0]
        if k == "RPlain":
            return self.build(r[1]), True
        if k == "ROk":
            return R + "Ok(" + self.build(r[1]) + ")", True
        o = '"%s"' % py_str(r[1])
        if k == "RErrBinUnit":
            return R + "Err(derive_more::BinaryError::Unit(derive_more::UnitError::new(%s)))" % o, False
        if k == "RErrBinMismatch":
            return R + "Err(derive_more::BinaryError::Mismatch(derive_more::WrongVariantError::new(%s)))" % o, False
        if k == "RErrUnit":
            return R + "Err(derive_more::UnitError::new(%s))" % o, False
        raise ValueError(r)

    def body(self):
        b = self.im["im_body"]
        k = b[0]
        if k == "BodyBuild":
            return "{" + self.build(b[1]) + "}"
        if k == "BodyStmts":
            return "{" + "".join(self.expr(e) + ";" for e in b[1]) + "}"
        if k == "BodyMatch2":
            arms = []
            for (pl, pr, r) in b[1]:
                rs, braces = self.rexpr(r)
                arms.append("(%s,%s)=>%s" % (self.pat(pl, "__l_"), self.pat(pr, "__r_"), "{" + rs + "}" if braces else rs))
            if b[2] != "None":
                arms.append("_=>" + self.rexpr(b[2][1])[0])
            return "{match(self,rhs){" + ",".join(arms) + "}}"
        if k == "BodyMatch1":
            self.vars = ("__", "__")
            arms = []
            for (p, r) in b[1]:
                rs, braces = self.rexpr(r)
                arms.append("%s=>%s" % (self.pat(p, "__"), "{" + rs + "}" if braces else rs))
            return "{matchself{" + ",".join(arms) + "}}"
        if k == "BodyFold":
            return "{iter.fold(%s,derive_more::core::ops::%s::%s)}" % (self.build(b[1]), py_str(b[2]), py_str(b[3]))
        raise ValueError(b)

    def summary(self):
        im = self.im
        root = {"RootCoreOps": "derive_more::core::ops::", "RootWithTrait": "derive_more::with_trait::"}[im["im_root"]]
        sc = im["im_scalar"]
        tr = root + self.trait + ("<__RhsT>" if sc != "None" else "")
        scalar = None if sc == "None" else ("__RhsT:derive_more::core::marker::Copy" if sc[1] == "true" else "__RhsT")
        ty = self.name + nows(ty_generics_rust(self.c))
        out = {"OutSelf": (ty, ty), "OutNone": (None, None), "OutSelfKw": (None, "Self"),
               "OutResultBinary": ("derive_more::core::result::Result<%s,derive_more::BinaryError>" % ty,) * 2,
               "OutResultUnit": ("derive_more::core::result::Result<%s,derive_more::UnitError>" % ty,) * 2}[im["im_output"]]
        attrs = (["#[allow(deprecated)]", "#[allow(unreachable_code)]"] if im["im_allows"] == "true" else []) + \
            ["#[automatically_derived]"]
        return {"trait": nows(tr), "scalar_param": scalar, "method": py_str(im["im_method"]), "output": out,
                "body": nows(self.body()), "attrs": attrs}


def render_header(c, name, h):
    """the model's impl header -> (params, where) as whitespace-free token strings"""
    def bound(b):
        k = b[0]
        if k == "BOrig":
            return nows(py_str(b[1]))
        if k == "BOpOutput":
            return "derive_more::core::ops::%s<Output=%s>" % (py_str(b[1]), py_str(b[2]))
        if k == "BOp":
            return "derive_more::core::ops::%s" % py_str(b[1])
        return "derive_more::with_trait::%s" % py_str(b[1])
    params = []
    for p in h["h_params"]:
        k = p[0]
        if k in ("OLifetime", "OConst"):
            params.append(nows(py_str(p[1])))
        elif k == "OType":
            params.append(py_str(p[1]) + ((":" + "+".join(bound(b) for b in p[2])) if p[2] else ""))
        else:
            params.append("__RhsT:derive_more::core::marker::Copy" if p[1] == "true" else "__RhsT")
    me = name + nows(ty_generics_rust(c))
    scalar, rest = [], []
    for w in h["h_where"]:
        k = w[0]
        if k == "WOrig":
            rest.append(nows(py_str(w[1])))
        elif k == "WScalarOut":
            ty = nows(ty_text(c, w[1]))
            scalar.append("%s:derive_more::with_trait::%s<__RhsT,Output=%s>" % (ty, py_str(w[2]), ty))
        elif k == "WScalar":
            scalar.append("%s:derive_more::with_trait::%s<__RhsT>" % (nows(ty_text(c, w[1])), py_str(w[2])))
        else:
            rest.append("%s:derive_more::core::ops::%s<Output=%s>" % (me, py_str(w[1]), me))
    # the per-field-type predicates come out of a HashSet: compared as a set, in front of the others
    return {"params": params, "where": sorted(scalar) + rest, "n_scalar": len(scalar)}


def real_header(r, n_scalar):
    it = r["items"][0]
    w = [nows(x) for x in it["where"]]
    return {"params": [nows(x) for x in it["params"]],
            "where": sorted(w[:n_scalar]) + w[n_scalar:], "n_scalar": n_scalar}


def real_summary(r, is_fold):
    """same shape from the in-process expansion summary"""
    it = r["items"][0]
    fn = [m for m in it["members"] if m["kind"] == "fn"][0]
    outs = [m for m in it["members"] if m["kind"] == "type" and m["name"] == "Output"]
    sc = [p for p in it["params"] if p.startswith("__RhsT")]
    m = re.match(r"fn (\w+)", fn["sig"])
    ret = None
    if "->" in fn["sig"]:
        ret = nows(fn["sig"].split("->", 1)[1])
    out = (nows(outs[0]["ty"]) if outs else None, ret)
    return {"trait": nows(it["trait"]), "scalar_param": nows(sc[0]) if sc else None, "method": m.group(1),
            "output": out, "body": nows(fn["body"]), "n_items": len(r["items"]),
            "attrs": [nows(a) for a in it["attrs"]]}


# ------------------------------------------------------------------ generated crate (tie 2 + oracle)

def prelude():
    L = ["#![allow(dead_code, unused, non_camel_case_types, non_snake_case, clippy::all)]",
         "pub trait TagLike { fn s(&self) -> String; }",
         "pub trait Show { fn show(&self) -> String; }",
         "impl<T: Show> Show for Result<T, derive_more::BinaryError> { fn show(&self) -> String { match self {"
         " Ok(v) => format!(\"Ok {}\", v.show()),"
         " Err(derive_more::BinaryError::Unit(e)) => format!(\"Err Unit {}\", e),"
         " Err(derive_more::BinaryError::Mismatch(e)) => format!(\"Err Mismatch {}\", e) } } }",
         "impl<T: Show> Show for Result<T, derive_more::UnitError> { fn show(&self) -> String { match self {"
         " Ok(v) => format!(\"Ok {}\", v.show()), Err(e) => format!(\"Err UnitOnly {}\", e) } } }",
         "#[derive(Clone, Copy)] pub struct Sc(pub u32);",
         "#[derive(Clone, Copy)] pub struct Sz(pub u32);",
         "#[derive(Clone)] pub struct Sn(pub String);",
         "pub trait Scal { fn t(&self) -> String; }",
         "impl Scal for Sc { fn t(&self) -> String { format!(\"s{}\", self.0) } }",
         "impl Scal for Sz { fn t(&self) -> String { format!(\"z{}\", self.0) } }",
         "impl Scal for Sn { fn t(&self) -> String { self.0.clone() } }"]
    for k, fam in [(k, fam) for fam in "TH" for k in range(NTAGS)]:
        T = "%s%d" % (fam, k)
        L.append("#[derive(Clone, Debug)] pub struct %s(pub String);" % T)
        if fam == "H":
            inh = []
            for tr in ADD_LIKE + MUL_LIKE:
                m, ma = STD[tr], STD[tr + "Assign"]
                inh.append("pub fn %s<K>(self, _k: K) -> %s { %s(format!(\"(INHERENT-%s {})\", self.0)) }" % (m, T, T, m))
                inh.append("pub fn %s<K>(&mut self, _k: K) { self.0 = format!(\"(INHERENT-%s {})\", self.0); }" % (ma, ma))
            for tr in UNARY:
                inh.append("pub fn %s(self) -> %s { %s(format!(\"(INHERENT-%s {})\", self.0)) }" % (STD[tr], T, T, STD[tr]))
            for tr in FOLD:
                inh.append("pub fn %s<I>(_i: I) -> %s { %s(\"(INHERENT-%s)\".to_string()) }" % (STD[tr], T, T, STD[tr]))
            L.append("impl %s { %s }" % (T, " ".join(inh)))
        L.append("impl TagLike for %s { fn s(&self) -> String { self.0.clone() } }" % T)
        for tr in ADD_LIKE + MUL_LIKE:
            m = STD[tr]
            L.append("impl core::ops::%s for %s { type Output = %s; fn %s(self, r: %s) -> %s { %s(format!(\"(%s {} {})\", self.0, r.0)) } }"
                     % (tr, T, T, m, T, T, T, m))
            L.append("impl core::ops::%sAssign for %s { fn %s(&mut self, r: %s) { self.0 = format!(\"(%s {} {})\", self.0, r.0); } }"
                     % (tr, T, STD[tr + "Assign"], T, m))
        for tr in MUL_LIKE:
            m = STD[tr]
            for (sc, _) in SCALARS:
                L.append("impl core::ops::%s<%s> for %s { type Output = %s; fn %s(self, r: %s) -> %s { %s(format!(\"(%s {} {})\", self.0, r.t())) } }"
                         % (tr, sc, T, T, m, sc, T, T, m))
                L.append("impl core::ops::%sAssign<%s> for %s { fn %s(&mut self, r: %s) { self.0 = format!(\"(%s {} {})\", self.0, r.t()); } }"
                         % (tr, sc, T, STD[tr + "Assign"], sc, m))
        for tr in UNARY:
            m = STD[tr]
            L.append("impl core::ops::%s for %s { type Output = %s; fn %s(self) -> %s { %s(format!(\"(%s {})\", self.0)) } }"
                     % (tr, T, T, m, T, T, m))
        L.append("impl core::iter::Sum for %s { fn sum<I: Iterator<Item = %s>>(it: I) -> %s { it.fold(%s(\"(sum T%d)\".into()), |a, b| core::ops::Add::add(a, b)) } }"
                 % (T, T, T, T, k))
        L.append("impl core::iter::Product for %s { fn product<I: Iterator<Item = %s>>(it: I) -> %s { it.fold(%s(\"(product T%d)\".into()), |a, b| core::ops::Mul::mul(a, b)) } }"
                 % (T, T, T, T, k))
    return "\n".join(L) + "\n"


def value_rust(c, ctor, shape, fields, letter):
    """expression constructing a value whose i-th field's leaf is `<letter><i>`"""
    path = "S" if ctor is None else "E::%s" % ctor
    leaves = ["%s(\"%s%d\".to_string())" % (tag_ctor(c, f["tag"]), letter, i) for i, f in enumerate(fields)]
    if shape == "unit":
        return path
    if shape == "tuple":
        return "%s(%s)" % (path, ", ".join(leaves))
    return "%s { %s }" % (path, ", ".join("%s: %s" % (f["name"], l) for f, l in zip(fields, leaves)))


def show_fields_rust(shape, fields, via_self=True):
    if not fields:
        return "String::new()"
    acc = []
    for i, f in enumerate(fields):
        m = f["name"] if shape == "named" else str(i)
        acc.append(("self.%s" % m if via_self else "__f%d" % i) + ".s()")
    return "vec![%s].join(\"|\")" % ", ".join(acc)


def struct_ops(c):
    """[(key, trait, kind, extra)] in the order they are observed"""
    ops = []
    n = len(c["fields"])
    for tr in c["derives"]:
        if tr in ADD_LIKE or (tr in MUL_LIKE and tr in c["fwd"]):
            ops.append((tr, tr, "bin", None))
        elif tr in ADD_ASSIGN or (tr in MUL_ASSIGN and tr in c["fwd"]):
            ops.append((tr, tr, "asg", None))
        elif tr in MUL_LIKE:
            for (sc, cp) in SCALARS:
                if cp or n <= 1:
                    ops.append(("%s:%s" % (tr, sc), tr, "sca", sc))
        elif tr in MUL_ASSIGN:
            for (sc, cp) in SCALARS:
                if cp or n <= 1:
                    ops.append(("%s:%s" % (tr, sc), tr, "sas", sc))
        elif tr in UNARY:
            ops.append((tr, tr, "una", None))
        elif tr in FOLD:
            for k in (0, 1, 3):
                ops.append(("%s:%d" % (tr, k), tr, "fold", k))
    return ops


SCALAR_VAL = {"Sc": ("Sc(7)", "s7"), "Sz": ("Sz(9)", "z9"), "Sn": ("Sn(\"n3\".to_string())", "n3")}


def module_rust(c):
    L = ["pub mod %s {" % c["id"], "use super::*;"]
    derives = ", ".join("derive_more::%s" % t for t in c["derives"])
    L.append("#[derive(Clone%s)]" % (", " + derives if derives else ""))
    L.append(item_rust(c))
    gen = generics_rust(c)
    bound = ("<" + ", ".join("%s: TagLike" % c["generic"][t] for t in sorted(c["generic"])) + ">") if gen else ""
    if c["kind"] == "struct":
        L.append("impl%s Show for S%s { fn show(&self) -> String { %s } }" % (bound, gen, show_fields_rust(c["shape"], c["fields"])))
        for cu in c["custom"]:
            m = STD[cu]
            inits = []
            for i, f in enumerate(c["fields"]):
                mem = f["name"] if c["shape"] == "named" else str(i)
                inits.append((mem, "%s(format!(\"(%s {} {})\", self.%s.0, r.%s.0))" % (tag_ctor(c, f["tag"]), m.upper(), mem, mem)))
            if c["shape"] == "tuple":
                v = "S(%s)" % ", ".join(e for _, e in inits)
            else:
                v = "S { %s }" % ", ".join("%s: %s" % p for p in inits)
            L.append("impl core::ops::%s for S { type Output = S; fn %s(self, r: S) -> S { %s } }" % (cu, m, v))
        L.append("pub fn run() {")
        mk = {l: value_rust(c, None, c["shape"], c["fields"], l) for l in "abc"}
        inst = "S" + (("<" + ", ".join("T%d" % t for t in sorted(c["generic"])) + ">") if gen else "")
        for (key, tr, kind, x) in struct_ops(c):
            m = STD[tr]
            P = "core::iter::" if tr in FOLD else "core::ops::"
            if kind == "bin":
                e = "%s%s::%s(%s, %s).show()" % (P, tr, m, mk["a"], mk["b"])
            elif kind == "asg":
                e = "{ let mut v = %s; %s%s::%s(&mut v, %s); v.show() }" % (mk["a"], P, tr, m, mk["b"])
            elif kind == "sca":
                e = "%s%s::%s(%s, %s).show()" % (P, tr, m, mk["a"], SCALAR_VAL[x][0])
            elif kind == "sas":
                e = "{ let mut v = %s; %s%s::%s(&mut v, %s); v.show() }" % (mk["a"], P, tr, m, SCALAR_VAL[x][0])
            elif kind == "una":
                e = "%s%s::%s(%s).show()" % (P, tr, m, mk["a"])
            else:
                xs = ", ".join(mk[l] for l in "abc"[:x])
                e = "{ let v: Vec<%s> = vec![%s]; let r: %s = %s%s::%s(v.into_iter()); r.show() }" % (inst, xs, inst, P, tr, m)
            L.append("  println!(\"%s\\t%s\\t{}\", %s);" % (c["id"], key, e))
        L.append("}")
    else:
        arms = []
        for v in c["variants"]:
            if v["shape"] == "unit":
                arms.append("E::%s => \"%s:\".to_string()" % (v["name"], v["name"]))
            elif v["shape"] == "tuple":
                arms.append("E::%s(%s) => format!(\"%s:{}\", %s)" % (
                    v["name"], ", ".join("__f%d" % i for i in range(len(v["fields"]))), v["name"],
                    show_fields_rust("tuple", v["fields"], via_self=False)))
            else:
                arms.append("E::%s { %s } => format!(\"%s:{}\", %s)" % (
                    v["name"], ", ".join("%s: __f%d" % (f["name"], i) for i, f in enumerate(v["fields"])), v["name"],
                    show_fields_rust("named", v["fields"], via_self=False)))
        L.append("impl Show for E { fn show(&self) -> String { match self { %s } } }" % ", ".join(arms))
        L.append("pub fn run() {")
        for (key, tr, i, j) in enum_ops(c):
            m = STD[tr]
            vi = c["variants"][i]
            a = value_rust(c, vi["name"], vi["shape"], vi["fields"], "a")
            if j is None:
                e = "core::ops::%s::%s(%s).show()" % (tr, m, a)
            else:
                vj = c["variants"][j]
                e = "core::ops::%s::%s(%s, %s).show()" % (tr, m, a, value_rust(c, vj["name"], vj["shape"], vj["fields"], "b"))
            L.append("  println!(\"%s\\t%s\\t{}\", %s);" % (c["id"], key, e))
        L.append("}")
    L.append("}")
    return "\n".join(L) + "\n"


def enum_ops(c):
    ops = []
    nv = len(c["variants"])
    for tr in c["derives"]:
        if tr in ADD_LIKE or (tr in MUL_LIKE and tr in c["fwd"]):
            for i in range(nv):
                for j in range(nv):
                    ops.append(("%s:%d,%d" % (tr, i, j), tr, i, j))
        elif tr in UNARY:
            for i in range(nv):
                ops.append(("%s:%d" % (tr, i), tr, i, None))
    return ops


# ---- oracle: the property text, evaluated independently of the model

def leaves(fields, letter):
    return ["%s%d" % (letter, i) for i in range(len(fields))]


def oracle_struct(c, key, tr, kind, x):
    fs = c["fields"]
    A, B, C = leaves(fs, "a"), leaves(fs, "b"), leaves(fs, "c")
    op = STD[base_of(tr)]

    def fieldwise(name, X, Y):
        return ["(%s %s %s)" % (name, p, q) for p, q in zip(X, Y)]
    if kind in ("bin", "asg"):
        r = fieldwise(op, A, B)
    elif kind in ("sca", "sas"):
        r = ["(%s %s %s)" % (op, p, SCALAR_VAL[x][1]) for p in A]
    elif kind == "una":
        r = ["(%s %s)" % (op, p) for p in A]
    else:
        fop = "Add" if tr == "Sum" else "Mul"
        name = STD[fop].upper() if fop in c["custom"] else STD[fop]
        acc = ["(%s T%d)" % (STD[tr], f["tag"]) for f in fs]         # the field-wise empty sum / product
        for X in [A, B, C][:x]:
            acc = fieldwise(name, acc, X)                              # fold with the struct's Add / Mul, accumulator first
        r = acc
    return "|".join(r)


def oracle_enum(c, key, tr, i, j):
    vi = c["variants"][i]
    op = STD[tr]
    A = leaves(vi["fields"], "a")
    if j is None:
        has_unit = any(v["shape"] == "unit" for v in c["variants"])
        if vi["shape"] == "unit":
            return "Err UnitOnly Cannot %s() unit variants" % op
        r = "%s:%s" % (vi["name"], "|".join("(%s %s)" % (op, p) for p in A))
        return ("Ok " + r) if has_unit else r
    vj = c["variants"][j]
    if i != j:
        return "Err Mismatch Trying to %s() mismatched enum variants" % op
    if vi["shape"] == "unit":
        return "Err Unit Cannot %s() unit variants" % op
    B = leaves(vj["fields"], "b")
    return "Ok %s:%s" % (vi["name"], "|".join("(%s %s %s)" % (op, p, q) for p, q in zip(A, B)))


# ---- the same observations from the Coq model (free term algebra)

def model_exprs(c):
    """one Gallina expression per case: the list of all its observations.  Operand values and scalars are
    let-bound once (elaborating the same literal dozens of times dominated the cost)."""
    I = input_coq(c)
    lets = []
    names = {}

    def bind(lit_, ty="(ctor * list (list N))"):
        if (lit_, ty) not in names:
            names[(lit_, ty)] = "v%d" % len(names)
            lets.append((names[(lit_, ty)], ty, lit_))
        return names[(lit_, ty)]
    out = []
    if c["kind"] == "struct":
        fs = c["fields"]
        V = {l: bind(val_coq(None, leaves(fs, l))) for l in "abc"}
        L = {l: bind("[%s]" % "; ".join(coq_str(s) for s in leaves(fs, l)), "list (list N)") for l in "abc"}
        for (key, tr, kind, x) in struct_ops(c):
            T = "T" + tr
            if kind == "bin":
                out.append("free_run %s I %s (Some %s) None" % (T, V["a"], V["b"]))
            elif kind == "asg":
                out.append("free_assign %s I %s (Some %s) None" % (T, V["a"], V["b"]))
            elif kind == "sca":
                out.append("free_run %s I %s None (Some %s)" % (T, V["a"], bind(coq_str(SCALAR_VAL[x][1]), "list N")))
            elif kind == "sas":
                out.append("free_assign %s I %s None (Some %s)" % (T, V["a"], bind(coq_str(SCALAR_VAL[x][1]), "list N")))
            elif kind == "una":
                out.append("free_run %s I %s None None" % (T, V["a"]))
            else:
                fop = "Add" if tr == "Sum" else "Mul"
                out.append("free_fold %s %s I [%s]" % (T, "true" if fop in c["custom"] else "false",
                                                       "; ".join(L[l] for l in "abc"[:x])))
    else:
        for (key, tr, i, j) in enum_ops(c):
            vi = c["variants"][i]
            a = bind(val_coq(vi["name"], leaves(vi["fields"], "a")))
            if j is None:
                out.append("free_run T%s I %s None None" % (tr, a))
            else:
                vj = c["variants"][j]
                out.append("free_run T%s I %s (Some %s) None" % (tr, a, bind(val_coq(vj["name"], leaves(vj["fields"], "b")))))
    # NB: a beta-redex, not nested `let`s - vm_compute in Coq 8.16 is exponential in the depth of nested lets
    binds = [("I", "input", I)] + lets
    return "(fun %s => [%s]) %s" % (" ".join("(%s : %s)" % (n, t) for (n, t, _) in binds), "; ".join(out),
                                    " ".join("(%s)" % v for (_, _, v) in binds))


# ------------------------------------------------------------------ case generation

def gen_cases(rng, tier):
    cases = []

    def add(c):
        c["id"] = "m%d" % len(cases)
        if c["kind"] == "struct":
            c["fwd"] = [t for t in c["fwd"] if t not in c["custom"]]
            c["derives"] = struct_derives(c)
            keep = set(STD[t] for t in c["derives"])
            c["attrs"] = [a for a in c["attrs"] if a["name"] in keep]      # an attribute without its derive is a rustc error
        else:
            c["derives"] = ADD_LIKE + UNARY + list(c["fwd"])
        cases.append(c)
    mulset = MUL_LIKE + MUL_ASSIGN
    # systematic: every arity 1..4, tuple and named, all-scalar and all-forward
    for shape in ("tuple", "named"):
        for n in (1, 2, 3, 4):
            add(gen_struct(rng, None, shape, n, set()))
            add(gen_struct(rng, None, shape, n, set(mulset)))
            add(gen_struct(rng, None, shape, n, set(), custom=("Add", "Mul")))
    # operand types with inherent namesakes of every operator method
    for shape in ("tuple", "named"):
        for n in (1, 2, 3, 4):
            for (fwd, custom) in ((set(), ()), (set(mulset), ())) if n <= 2 else ((set(), ("Mul",)),):
                c = gen_struct(rng, None, shape, n, set(fwd), custom=custom)
                c["hij"] = True
                add(c)
    for _ in range(12 if tier == "quick" else 120):
        fwd = set(t for t in mulset if rng.random() < 0.4)
        c = gen_struct(rng, None, rng.choice(["tuple", "named"]), rng.choice([1, 2, 3, 4, 5]), fwd,
                       custom=[x for x in ("Add", "Mul") if rng.random() < 0.3 and x not in fwd])
        c["hij"] = True
        add(c)
    for k in ("tuple", "named"):
        c = gen_enum(rng, None, 2, force=[k, "unit"], fwd=MUL_LIKE)
        c["hij"] = True
        add(c)
    for _ in range(8 if tier == "quick" else 80):
        c = gen_enum(rng, None, rng.choice([1, 2, 3, 4]), fwd=[t for t in MUL_LIKE if rng.random() < 0.35])
        c["hij"] = True
        add(c)
    add(gen_struct(rng, None, "unit", 0, set(), custom=("Add", "Mul")))
    add(gen_struct(rng, None, "named", 0, set(), custom=("Add", "Mul")))
    add(gen_struct(rng, None, "tuple", 0, set(), custom=("Add", "Mul")))
    n_struct = 110 if tier == "quick" else 1000
    big = tier != "quick"
    for _ in range(n_struct):
        shape = rng.choice(["tuple", "named"])
        n = rng.choice([1, 2, 2, 3, 3, 4, 4, 5, 6] + ([7, 8, 10] if big else [])) if rng.random() < 0.97 else 0
        fwd = set(t for t in mulset if rng.random() < 0.5)
        notf = set(t for t in mulset if t not in fwd and rng.random() < 0.2)
        generic = rng.random() < 0.15
        custom = []
        if not generic:
            if rng.random() < 0.25:
                custom.append("Add")
            if "Mul" not in fwd and rng.random() < 0.6:
                custom.append("Mul")
            elif "Mul" in fwd and rng.random() < 0.15:
                custom.append("Mul")
        add(gen_struct(rng, None, shape, n, fwd, generic=generic, custom=custom, not_forward=notf))
    # enums: every combination of kinds for 1 and 2 variants, then random ones
    kinds = ["tuple", "named", "unit"]
    for k in kinds:
        add(gen_enum(rng, None, 1, force=[k], fwd=MUL_LIKE))
    for k1 in kinds:
        for k2 in kinds:
            add(gen_enum(rng, None, 2, force=[k1, k2], fwd=MUL_LIKE))
    # zero-field variants `V()` / `V{}` are not unit variants: same-variant pairs are Ok, Not/Neg stays infallible
    add(gen_enum(rng, None, 3, force=["tuple", "named", "unit"], fwd=MUL_LIKE, arity=0))
    add(gen_enum(rng, None, 2, force=["tuple", "named"], arity=0))
    n_enum = 110 if tier == "quick" else 1000
    for _ in range(n_enum):
        add(gen_enum(rng, None, rng.choice([1, 2, 2, 3, 3, 4, 4, 5] + ([6, 7] if big else [])),
                     fwd=[t for t in MUL_LIKE if rng.random() < 0.35]))
    return cases


ATTR_METAS = ["path", "nv", [], ["forward"], ["forward", "forward"], [["not", ["forward"]]],
              ["forward", ["not", ["forward"]]], [["not", ["forward"]], "forward"], ["ignore"], ["foo"],
              [["list", "forward"]], [["list", "foo"]], [["not", ["foo"]]], [["not", [["list", "not"]]]],
              [["not", [["list", "forward"]]]], [["not", [["list", "foo"]]]], [["not", []]], ["forward", "foo"],
              ["foo", "forward"], [["not", ["forward", "foo"]]], ["forward"], ["forward"], ["forward"]]


def gen_static_cases(rng, tier):
    """declarations for the in-process tie only: rejected / panicking inputs, odd attributes"""
    out = []
    n = 400 if tier == "quick" else 8000
    for _ in range(n):
        r = rng.random()
        if r < 0.08:
            c = {"kind": "union", "attrs": [], "generic": {}, "fields": [], "custom": [], "fwd": []}
        elif r < 0.55:
            shape = rng.choice(["tuple", "named", "unit", "tuple", "named"])
            c = gen_struct(rng, None, shape, 0 if shape == "unit" else rng.randrange(0, 4), set())
        else:
            c = gen_enum(rng, None, rng.randrange(0, 4))
        tr = rng.choice(ALL24)
        names = [STD[tr], STD[tr], STD[tr], STD[base_of(tr)], "mul", "add", "sum"]

        def some_attrs(p):
            l = []
            while rng.random() < p and len(l) < 2:
                l.append({"name": rng.choice(names), "meta": rng.choice(ATTR_METAS)})
            return l
        c["attrs"] = some_attrs(0.55)
        if c["kind"] != "union" and rng.random() < 0.45:
            # generic parameters of every kind, declaration bounds and a where-clause (in-process only: nothing here
            # has to type-check)
            lts = rng.sample(["'a", "'b", "'b: 'a"], rng.randrange(0, 3))
            if "'b: 'a" in lts and "'b" in lts:
                lts.remove("'b")
            letters = rng.sample("ABCD", rng.randrange(0, 4))
            consts = rng.sample(["const N: usize", "const FLAG: bool"], rng.randrange(0, 3))
            tys = [("ty", l, rng.sample(["Clone", "core::fmt::Debug", "Copy", "'static"], rng.randrange(0, 3))) for l in letters]
            order = [("lt", l) for l in lts] + (tys + [("const", k) for k in consts] if rng.random() < 0.8
                                                 else [("const", k) for k in consts] + tys)
            where = rng.sample(["T0: Clone", "u8: Copy"] + ["%s: Default" % l for l in letters], rng.randrange(0, 3))
            c["gen"] = {"params": order, "where": where}
            tags = rng.sample(range(NTAGS), min(NTAGS, len(letters)))
            c["generic"] = {t: l for t, l in zip(tags, letters)}
            c["tytext"] = {}
            free = [t for t in range(NTAGS) if t not in c["generic"]]
            if free and lts and rng.random() < 0.6:
                c["tytext"][free[0]] = "&%s T%d" % (lts[0].split(":")[0].strip(), free[0])
            if len(free) > 1 and "const N: usize" in consts and rng.random() < 0.6:
                c["tytext"][free[1]] = "[T%d; N]" % free[1]
        if c["kind"] == "enum" and tr in MUL_LIKE and rng.random() < 0.5:
            c["attrs"] = [{"name": STD[tr], "meta": rng.choice([["forward"], [["not", ["forward"]], "forward"]])}]
        if c["kind"] == "struct" and rng.random() < 0.25:
            for f in c["fields"]:
                f["attrs"] = some_attrs(0.4)
        if c["kind"] == "enum" and rng.random() < 0.3:
            for v in c["variants"]:
                v["attrs"] = some_attrs(0.3)
                for f in v["fields"]:
                    f["attrs"] = some_attrs(0.2)
        out.append((tr, c))
    return out


def classify_static(tr, c, real, model):
    kind = c["kind"]
    if kind == "enum" and tr in MUL_LIKE + MUL_ASSIGN:
        return "mul-like-enum"
    return "%s-%s" % (EXPANDER[tr], kind)


# ------------------------------------------------------------------ the check

def model_outcome(t):
    """parsed `outcome impl` -> ('ok', impl dict) | ('err', msg) | ('panic', msg)"""
    if t[0] == "Expanded":
        return ("ok", t[1])
    if t[0] == "Rejected":
        return ("err", py_str(t[1]))
    return ("panic", py_str(t[1]))


def real_outcome(r):
    if "ok" in r:
        return ("ok", r)
    if "err" in r:
        return ("err", r["err"])
    if "panic" in r:
        return ("panic", r["panic"]["msg"])
    return ("other", json.dumps(r)[:300])


def build_and_run(cases, name):
    main = prelude() + "".join(module_rust(c) for c in cases) + "fn main() {\n" + \
        "".join("  %s::run();\n" % c["id"] for c in cases) + "}\n"
    d = common.make_crate(name, main)
    rc, err, out = common.run_crate(d, name)
    return d, main, rc, err, out


def failing_modules(d, main, cases):
    """map rustc error spans back to case modules"""
    rc, out = common.cargo(d, ["check", "--message-format=json"])
    starts = []
    line = 1
    pos = {}
    for c in cases:
        pass
    lines = main.split("\n")
    cur = None
    owner = []
    for l in lines:
        m = re.match(r"pub mod (m\d+) \{", l)
        if m:
            cur = m.group(1)
        owner.append(cur)
    bad = {}
    for l in out.splitlines():
        if not l.startswith("{"):
            continue
        try:
            j = json.loads(l)
        except Exception:
            continue
        msg = j.get("message")
        if not msg or msg.get("level") != "error":
            continue
        for sp in msg.get("spans", []):
            ln = sp.get("line_start", 0)
            if 0 < ln <= len(owner) and owner[ln - 1]:
                bad.setdefault(owner[ln - 1], msg.get("rendered", msg.get("message", ""))[:1500])
    return bad, out[-3000:]


def run(tier, seed, replay):
    chk = common.Check("C10", tier, seed)
    rng = chk.rng
    inproc = common.build_inproc()

    replay_class = None
    if replay:
        replay_class = json.load(open(replay)).get("class")
        rp = json.load(open(replay))["replay"]
        cases = [rp["case"]] if "case" in rp and "derives" in rp["case"] else []
        static = [(rp["derive"], rp["case"])] if "derive" in rp and not cases else []
        for c in cases:
            c["id"] = "m0"
    else:
        cases = gen_cases(rng, tier)
        static = gen_static_cases(rng, tier)

    # ---- pre-screen every (case, derive) through the in-process expander; this is also tie 1's real side
    pre_reqs = []
    pre_idx = []
    for c in cases:
        for tr in c["derives"]:
            pre_reqs.append({"cmd": "expand", "derive": tr, "item": item_rust(c)})
            pre_idx.append((tr, c))
    for (tr, c) in static:
        pre_reqs.append({"cmd": "expand", "derive": tr, "item": item_rust(c)})
        pre_idx.append((tr, c))
    pre = common.run_jsonl(inproc, pre_reqs)
    n_screened = 0
    for (tr, c), r in zip(pre_idx, pre):
        if "derives" in c and real_outcome(r)[0] != "ok" and tr in c["derives"]:
            # a declaration the generator believes supported is rejected: keep it out of the crate, report below
            c["derives"] = [t for t in c["derives"] if t != tr]
            c.setdefault("screened", []).append((tr, real_outcome(r)))
            n_screened += 1
    chk.log("%d run-time cases, %d expansions pre-screened in-process (%d removed)" % (len(cases), len(pre_reqs), n_screened))

    # ---- the generated crate is compiled in the background while Coq works
    crate = {}

    def bg():
        try:
            crate["res"] = build_and_run(cases, "c10rt")
            chk.log("generated crate built and run (background)")
        except Exception as e:       # noqa
            crate["exc"] = e
    th = threading.Thread(target=bg)
    if cases:
        th.start()

    st = common.check_proofs(chk, "C10")
    chk.log("proofs: %d/%d obligations, ok=%s" % (st["discharged"], st["obligations"], st["ok"]))

    # ---- regression for the repaired class (733f9d7): #[mul(forward)] on an enum is documented as supported
    #      (doc/mul.md "except when you use #[mul(forward)]") and must be accepted
    if not replay or replay_class == "mul-forward-enum-rejected":
        doc = open(os.path.join(common.REPO, "impl", "doc", "mul.md")).read()
        documented = re.search(r"enums is not \(yet\) supported, except when you use\s+`#\[mul\(forward\)\]`", doc) is not None
        probe = {"kind": "enum", "generic": {}, "attrs": [{"name": "mul", "meta": ["forward"]}], "custom": [], "fwd": [],
                 "variants": [{"name": "A", "shape": "tuple", "fields": [{"name": None, "tag": 0, "attrs": []}], "attrs": []},
                              {"name": "U", "shape": "unit", "fields": [], "attrs": []}]}
        r = common.run_jsonl(inproc, [{"cmd": "expand", "derive": "Mul", "item": item_rust(probe)}])[0]
        chk.count(("doc-mul-forward-enum",), True)
        if documented and real_outcome(r)[0] != "ok":
            chk.violation("mul-forward-enum-rejected",
                          {"derive": "Mul", "case": probe, "item": item_rust(probe), "observed": real_outcome(r),
                           "documented": "impl/doc/mul.md: 'Deriving `Mul` for enums is not (yet) supported, except when you use `#[mul(forward)]`'"},
                          "#[derive(Mul)] #[mul(forward)] on an enum is documented as supported (field-wise inside a variant, "
                          "like Add) but the macro rejects it: %s" % (real_outcome(r),))

    # ---- tie 1: model expansion vs real expansion (tokens), all pre-screened requests
    tab = common.coq_eval(["Verif.C10.Model"],
                          ["map (fun t => (trait_name t, (std_method t, expander_of t))) all_traits"])[0]
    coq_tab = {py_str(n): (py_str(m), COQ_EXPANDER[x]) for (n, (m, x)) in tab}
    lib_rs = open(os.path.join(common.REPO, "impl", "src", "lib.rs")).read()
    real_tab = {m.group(3): m.group(2) for m in
                re.finditer(r"create_derive!\(\s*\"(\w+)\",\s*(\w+),\s*(\w+),", lib_rs) if m.group(3) in STD}
    for tr in ALL24:
        chk.count(("table", tr), True)
        if coq_tab.get(tr) != (STD[tr], EXPANDER[tr]) or real_tab.get(tr) != EXPANDER[tr]:
            chk.violation("tie-dispatch-table", {"trait": tr, "coq": coq_tab.get(tr), "lib_rs": real_tab.get(tr),
                                                 "python": (STD[tr], EXPANDER[tr])},
                          "trait -> expander / std method tables disagree for %s" % tr)

    # one evaluation per declaration: all its derives at once
    groups = []
    for k, (tr, c) in enumerate(pre_idx):
        if groups and groups[-1][0] is c:
            groups[-1][1].append(tr)
        else:
            groups.append((c, [tr]))
    exprs = ["(fun (I : input) (G : generics) => [%s]) (%s) (%s)" %
             ("; ".join("(derive ascii_lower T%s I, derive_header ascii_lower T%s G I)" % (tr, tr) for tr in trs),
              input_coq(c), generics_coq(c))
             for (c, trs) in groups]
    terms = [t for g in common.coq_eval(["Verif.C10.Model"], exprs, batch=12) for t in g]
    n_tie1 = 0
    for (tr, c), r, (t, hdr) in zip(pre_idx, pre, terms):
        mo = model_outcome(t)
        ro = real_outcome(r)
        is_static = "derives" not in c
        bucket = "static:" + classify_static(tr, c, ro, mo) if is_static else "expansion:" + EXPANDER[tr]
        chk.bump(bucket + ":" + ro[0])
        n_tie1 += 1
        key = ("exp", tr, item_rust(c))
        chk.count(key, True)
        rep = {"derive": tr, "case": c, "item": item_rust(c)}
        if mo[0] != ro[0] or (mo[0] != "ok" and mo[1] != ro[1]):
            chk.violation("tie-expansion-outcome", dict(rep, model=mo if mo[0] != "ok" else "ok", real=ro if ro[0] != "ok" else "ok"),
                          "model and real expander disagree on accept/reject for derive(%s) on `%s`: model %s, real %s" %
                          (tr, item_rust(c), mo[0] if mo[0] == "ok" else mo, ro[0] if ro[0] == "ok" else ro))
            continue
        if mo[0] != "ok":
            continue
        name = "S" if c["kind"] == "struct" else "E"
        ms = Render(c, name, mo[1]).summary()
        rs = real_summary(r, tr in FOLD)
        if rs.pop("n_items") != 1 or ms != rs:
            diff = {k: (ms.get(k), rs.get(k)) for k in ms if ms.get(k) != rs.get(k)}
            chk.violation("tie-expansion-tokens", dict(rep, diff=diff),
                          "the model's expansion of derive(%s) on `%s` differs from the real one in %s" %
                          (tr, item_rust(c), sorted(diff)))
            continue
        # the impl header: generic parameters (their order, the added bounds, __RhsT) and the where-clause
        mh = render_header(c, name, hdr[1])
        rh = real_header(r, mh["n_scalar"])
        chk.bump("header:%s:%s" % (EXPANDER[tr], "generic" if gen_of(c)["params"] else "plain"))
        if mh != rh:
            chk.violation("tie-expansion-header", dict(rep, model=mh, real=rh),
                          "the model's impl header (generic parameters / where-clause) of derive(%s) on `%s` differs "
                          "from the real one: %s vs %s" % (tr, item_rust(c), mh, rh))
            continue
        # oracle on the expansion itself: the method is std's
        if rs["method"] != STD[tr]:
            chk.violation("method-name", dict(rep, method=rs["method"], std=STD[tr]),
                          "derive(%s) implements method `%s`, std's is `%s`" % (tr, rs["method"], STD[tr]))
        chk.sample({"derive": tr, "item": item_rust(c), "body": r["items"][0]["members"][-1]["body"][:300]}, limit=6)
    chk.log("tie 1: %d expansions compared (model tokens vs in-process expander)" % n_tie1)

    # ---- model observations for the run-time cases
    mterms = common.coq_eval(["Verif.C10.Model"], [model_exprs(c) for c in cases], batch=8) if cases else []

    # ---- tie 2 + oracle: the real macro at run time
    n_rt = 0
    if cases:
        th.join()
        if "exc" in crate:
            raise crate["exc"]
        d, main, rc, err, out = crate["res"]
        if rc != 0 or out is None:
            bad, tail = failing_modules(d, main, cases)
            for cid, msg in sorted(bad.items()):
                c = [x for x in cases if x["id"] == cid][0]
                chk.violation("generated-code-rejected", {"case": c, "item": item_rust(c), "rustc": msg},
                              "rustc rejects the expansion (or the harness code) for `%s` deriving %s: %s" %
                              (item_rust(c), c["derives"], msg[:300]))
            keep = [c for c in cases if c["id"] not in bad]
            if not bad:
                chk.violation("crate-build-failed", {"output": (err or tail)[-3000:]}, "the generated crate does not build", no_input=True)
                keep = []
            if keep and bad:
                keep_ids = set(c["id"] for c in keep)
                mterms = [t for c, t in zip(cases, mterms) if c["id"] in keep_ids]
                cases = keep
                d, main, rc, err, out = build_and_run(cases, "c10rt")
                if rc != 0 or out is None:
                    chk.violation("crate-build-failed", {"output": (err or "")[-3000:]}, "the generated crate does not build", no_input=True)
                    cases = []
            else:
                cases = []
        obs = {}
        for l in (out or "").splitlines():
            p = l.split("\t")
            if len(p) == 3:
                obs[(p[0], p[1])] = p[2]
        for c, mt in zip(cases, mterms):
            ops = struct_ops(c) if c["kind"] == "struct" else enum_ops(c)
            if len(mt) != len(ops):
                chk.violation("tie-runtime", {"case": c}, "model returned %d observations for %d operations" % (len(mt), len(ops)))
                continue
            shape_key = (c["kind"], c.get("shape"), len(c.get("fields", [])), tuple(c["fwd"]), tuple(c["custom"]),
                         bool(c["generic"]), bool(c.get("hij")), tuple((v["shape"], len(v["fields"])) for v in c.get("variants", [])))
            results = {}
            for op, m in zip(ops, mt):
                key, tr = op[0], op[1]
                real = obs.get((c["id"], key))
                model = py_str(m)
                if c["kind"] == "struct":
                    want = oracle_struct(c, *op)
                    chk.bump("runtime:struct%s:%s:%s" % ("-inherent-namesakes" if c.get("hij") else "", c["shape"], op[2]))
                else:
                    want = oracle_enum(c, *op)
                    chk.bump("runtime:enum:" + ("unary" if op[3] is None else "same" if op[2] == op[3] else "mismatch"))
                n_rt += 1
                chk.count((shape_key, key), True)
                results[key] = real
                rep = {"case": c, "item": item_rust(c), "derive": tr, "operation": key}
                if real is None:
                    chk.violation("runtime-missing", rep, "no output for %s %s" % (c["id"], key))
                    continue
                if real != want:
                    chk.violation(runtime_class(c, op, real, want), dict(rep, observed=real, expected=want),
                                  "derive(%s) on `%s`, operation %s: real macro gives %r, the property says %r" %
                                  (tr, item_rust(c), key, real, want))
                if model != real:
                    chk.violation("tie-runtime", dict(rep, model=model, real=real),
                                  "Coq model (free term algebra) and the real macro disagree on `%s` %s: %r vs %r" %
                                  (item_rust(c), key, model, real))
                chk.sample({"item": item_rust(c), "operation": key, "real": real}, limit=14)
            # `a op= b` leaves a equal to what `a op b` returns (both taken from the real run)
            for key, real in results.items():
                tr = key.split(":")[0]
                if tr.endswith("Assign"):
                    bk = base_of(tr) + key[len(tr):]
                    if bk in results and (tr in c["fwd"]) == (base_of(tr) in c["fwd"]) and base_of(tr) not in c["custom"]:
                        chk.count((shape_key, "assign-vs-binary", key), True)
                        if results[bk] != real:
                            chk.violation("assign-differs-from-binary",
                                          {"case": c, "item": item_rust(c), "assign": real, "binary": results[bk], "operation": key},
                                          "`a %s b` leaves %r but `a %s b` returns %r on `%s`" % (key, real, bk, results[bk], item_rust(c)))
        common.cleanup_scratch("c10rt")
    chk.cov["traces_validated_against_impl"] = n_tie1 + n_rt
    chk.log("tie 2 + oracle: %d run-time observations of the real macro compared" % n_rt)

    if getattr(chk, "proof_broken", False) and not chk.violations:
        chk.violation("proof-broken", chk.proof_failure, "a C10 proof obligation no longer checks: %s" %
                      chk.proof_failure["failed"], no_input=True)
    elif getattr(chk, "proof_broken", False):
        chk.notes.append("proof obligation broken at %s; failing inputs found by the differential run" % chk.proof_failure["failed"])

    return chk.finish(
        proof=st,
        rule="run-time cases: every struct shape tuple/named x 1..4 fields x {all mul-like scalar, all forward, hand-written "
             "Add/Mul} + unit/empty structs + random structs (0..6 fields of 4 distinct operand types, random subset of the ten "
             "mul-like derives under #[..(forward)] / #[..(not(forward))], 15% generic, random hand-written Add/Mul for Sum/Product) "
             "+ structs (tuple/named x 1..4 fields + random) whose field types additionally have INHERENT methods named like "
             "every operator method (all derives; a derive reaching a field by method-call syntax would call those), enums too "
             "+ every 1- and 2-variant enum over {tuple, named, unit} (all five Mul-like derives forwarded) + random enums "
             "(1..5 variants, 0..3 fields, random subset of Mul-like derives under #[..(forward)]); each type "
             "derives every applicable one of the 24 traits with the real macro and every operation is run (binary, scalar with 3 "
             "scalar types, assign, unary, Sum/Product of 0/1/3 elements, all variant pairs). static cases: 24 derives x random "
             "struct/enum/union declarations with random container/variant/field attributes (accepted, rejected and panicking). "
             "non-trivial = every (declaration shape, operation) pair; distinct by shape+operation / by derive+item text",
        trusted=TRUSTED)


def runtime_class(c, op, real, want):
    tr = op[1]
    if c.get("hij"):
        # the field type has inherent methods named like the operator methods
        return "inherent-namesake-shadows-%s" % EXPANDER[tr]
    if c["kind"] == "enum":
        return "enum-%s-result" % EXPANDER[tr]
    return "struct-%s-%s-result" % (EXPANDER[tr], op[2])


META = {
    "level": "proof",
    "technique": "Coq proof over an executable model of the six operator expanders and an explicit semantics of the emitted "
                 "expressions (uninterpreted non-commutative op) + token-level and behavioural correspondence with the real macro",
    "text": "Theorems for every arity / every enum shape (induction over the field and variant lists): derived binary operators "
            "return map2 (op m) lhs rhs with m std's method name, scalar Mul-like derives map (fun x => op m x r), Not/Neg map uop, "
            "*Assign leaves what the binary derive returns, Sum/Product are fold_left of the struct's Add/Mul from the field-wise "
            "identity, enums: same variant field-wise / unit error / mismatch error; the 24 method names equal std's. The model is "
            "re-tied on every run: its expansion is rendered to tokens and compared with the in-process expander (also on rejected "
            "and panicking inputs), and its semantics (free term algebra, vm_compute) is compared with the real proc-macro compiled "
            "by rustc and run on an instrumented, non-commutative operand type; an independent evaluator of the property text "
            "checks the same run-time output.",
    "note": "Trusted: Coq kernel/vm_compute; the hand model and its Layer-2 expression semantics (tied by differential runs); "
            "the renderers and the instrumented operand types in tools/props/c10.py; to_lowercase = ASCII lowering on ASCII names.",
    "design_ref": "DESIGN.md section 2 / C10",
}
