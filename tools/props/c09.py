"""C09 - `Error::source` returns exactly the field the documented rules select.

proofs : coq/theories/C09 (model of impl/src/error.rs with its two index spaces; for every layout: selection =
         documented rules, ignored fields are inert, ambiguous layouts are rejected, the None cases, the bound is on
         the selected field's type, no internal failure; the behaviour before /repo commit 6329c3f is kept as
         `expand_old` with historical regression lemmas)
tie 1  : Coq model (outcome, returned field, bound)  vs  the real expansion (in-process expand: which member / which
         pattern position `source` is, which where-predicates are added, err / panic)           - every layout
tie 2  : the reading of the expansion (Layer-2 semantics `source_returns`) vs the compiled real macro: address of
         the object `source()` returns compared with the addresses of the value's fields         - compilable layouts
enums  : whole enums with 1..3 (thorough: 4) variants - {variant with a source, without, ignored with / without a
         would-be source, ambiguous} in every order; `source()` is observed on EVERY variant (ignored ones must give
         None), the emitted `match self` must be exhaustive (wildcard decided against ALL variants), and a
         documented-valid enum whose expansion does not compile is a violation with the enum as replay.
provide: the model of render_provide_as_struct / _enum_variant_match_arm and of the backtrace selection vs the real
         expansion (which member / binding is handed to `provide_ref::<Backtrace>`, whose `provide` is forwarded, the
         `_ => ()` arm) - every layout and every enum; documented provide() rules by an independent evaluator.
types  : the model of utils.rs is_type_parameter_used_in_type / get_if_.. and error.rs is_type_path_ends_with_segment on
         generated field types (paths with qself / generic / associated / constraint arguments, references, arrays,
         slices, pointers, tuples, fn types, trait objects, never/infer/impl/macro) vs the real derive: which type
         receives the `Error + 'static` bound (text of the bounded type) and whether the type counts as `Backtrace`.
oracle : an independent Python evaluator of impl/doc/error.md + the property text (NOT the Coq spec) decides what
         must be returned / rejected; compared with the run-time observation (or the expansion where the layout
         cannot be compiled), and cross-checked against the Coq `documented_source`.
"""
import itertools
import json
import os
import re
import subprocess
import time
from concurrent.futures import ThreadPoolExecutor

from lib import common

TRUSTED = [
    "Coq 8.16.1 kernel + vm_compute (coqc full .vo build); no axioms (Print Assumptions: closed)",
    "hand-written Gallina model coq/theories/C09/Model.v of impl/src/error.rs + utils.rs (enabled_fields*, matcher), "
    "tied to the code on every run (model outcome/returned field/bound vs the in-process expansion of the unmodified sources)",
    "Layer-2 reading of the emitted code (`Some(self.<m>.as_dyn_error())` returns member m; the arm pattern binds `source` "
    "to the field at that position), validated on every run against rustc + execution by address comparison",
    "tools/props/c09.py: layout renderer, expansion reader, independent evaluator of the documented rules",
    "nightly rustc (feature error_generic_member_access) for the layouts whose expansion contains `provide`; "
    "stable 1.95 for all others",
]

ATTRS = ["", "source", "not(source)", "backtrace", "not(backtrace)", "ignore"]
TYPES = ["inner", "bt", "box", "gen"]
NAMES = ["source", "backtrace", "other"]
KINDS = ["struct", "variant", "ignored_variant"]


# ------------------------------------------------------------------ layouts

def name_assignments(n):
    for t in itertools.product(NAMES, repeat=n):
        if t.count("source") <= 1 and t.count("backtrace") <= 1:
            yield t


def layouts(shape, n):
    """every field list of length n: (name|None, type, attr) per field"""
    per = list(itertools.product(TYPES, ATTRS))
    if shape == "unnamed":
        for combo in itertools.product(per, repeat=n):
            yield tuple((None, ty, at) for (ty, at) in combo)
    else:
        for names in name_assignments(n):
            for combo in itertools.product(per, repeat=n):
                yield tuple((nm, ty, at) for nm, (ty, at) in zip(names, combo))


def random_layout(rng, shape, n):
    if shape == "unnamed":
        return tuple((None, rng.choice(TYPES), rng.choice(ATTRS)) for _ in range(n))
    names = rng.choice(list(name_assignments(n)))
    return tuple((nm, rng.choice(TYPES), rng.choice(ATTRS)) for nm in names)


def fname(f, i):
    return f[0] if f[0] in ("source", "backtrace") else "other%d" % i


CORPUS = [
    ("variant", "named", ((("other"), "inner", "ignore"), ("source", "inner", ""))),
    ("struct", "named", (("other", "inner", "ignore"), ("source", "inner", ""))),
    ("struct", "named", (("other", "inner", "ignore"), ("source", "gen", ""))),
    ("struct", "named", (("other", "gen", "ignore"), ("source", "inner", ""))),
    ("struct", "unnamed", ((None, "inner", "ignore"), (None, "bt", ""))),
    ("struct", "unnamed", ((None, "bt", ""), (None, "inner", "ignore"))),
    ("struct", "unnamed", ((None, "inner", "ignore"), (None, "inner", ""))),
    ("variant", "unnamed", ((None, "inner", "ignore"), (None, "inner", "source"))),
    ("variant", "unnamed", ((None, "inner", "ignore"), (None, "inner", ""), (None, "bt", ""))),
    ("struct", "unnamed", ((None, "inner", ""), (None, "bt", ""))),
    ("struct", "unnamed", ((None, "inner", "backtrace"),)),
    ("struct", "unnamed", ((None, "bt", "not(backtrace)"),)),
    ("struct", "unnamed", ((None, "bt", "not(backtrace)"), (None, "bt", ""))),
    ("variant", "unnamed", ((None, "box", ""),)),
    ("struct", "named", (("source", "box", ""), ("other", "inner", "source"))),
    ("struct", "named", (("other", "inner", "source"), ("other", "inner", "source"))),
    ("struct", "unnamed", ((None, "bt", ""), (None, "bt", ""))),
    ("ignored_variant", "named", (("other", "inner", "source"), ("other", "inner", "source"))),
    ("ignored_variant", "unnamed", ((None, "gen", ""),)),
    ("struct", "named", ()),
    ("struct", "unnamed", ()),
    ("variant", "named", ()),
    ("variant", "unnamed", ()),
]


def generate(chk, tier):
    rng = chk.rng
    base = []                      # (shape, fields)
    for shape in ("named", "unnamed"):
        for n in (0, 1):
            base += [(shape, fs) for fs in layouts(shape, n)]
    n2u = list(layouts("unnamed", 2))
    n2n = list(layouts("named", 2))
    if tier == "quick":
        base += [("unnamed", fs) for fs in n2u]
        base += [("named", fs) for fs in rng.sample(n2n, 3000)]
        base += [("unnamed", random_layout(rng, "unnamed", 3)) for _ in range(2000)]
        base += [("named", random_layout(rng, "named", 3)) for _ in range(2000)]
    else:
        base += [("unnamed", fs) for fs in n2u] + [("named", fs) for fs in n2n]
        base += [("unnamed", fs) for fs in layouts("unnamed", 3)]
        base += [("named", random_layout(rng, "named", 3)) for _ in range(40000)]
    base = list(dict.fromkeys(base))
    cases = list(CORPUS)
    for shape, fs in base:
        cases.append(("struct", shape, fs))
        cases.append(("variant", shape, fs))
    ign = rng.sample(base, min(len(base), 150 if tier == "quick" else 1500))
    cases += [("ignored_variant", shape, fs) for shape, fs in ign]
    return list(dict.fromkeys(cases))


# ------------------------------------------------------------------ rendering

def n_generics(fields):
    return [i for i, f in enumerate(fields) if f[1] == "gen"]


def ty_text(f, i, real):
    return {"inner": "Inner", "bt": "real::Backtrace" if i in real else "fake::Backtrace",
            "box": "Box<dyn Error + 'static>", "gen": "T%d" % i}[f[1]]


def field_decl(f, i, shape, real):
    at = "#[error(%s)] " % f[2] if f[2] else ""
    if shape == "named":
        return "%s%s: %s" % (at, fname(f, i), ty_text(f, i, real))
    return "%s%s" % (at, ty_text(f, i, real))


def render_item(case, real=()):
    """the type definition (without derives)"""
    kind, shape, fields = case
    gens = n_generics(fields)
    gp = "<%s>" % ", ".join("T%d" % i for i in gens) if gens else ""
    decls = ", ".join(field_decl(f, i, shape, real) for i, f in enumerate(fields))
    body = "{ %s }" % decls if shape == "named" else "(%s)" % decls
    if kind == "struct":
        return "struct E%s %s%s" % (gp, body, "" if shape == "named" else ";")
    va = "#[error(ignore)] " if kind == "ignored_variant" else ""
    return "enum E%s { %sV %s, U }" % (gp, va, body)


def value_expr(f, i, real):
    return {"inner": "Inner(%d)" % (i + 1), "bt": "real::Backtrace::disabled()" if i in real else "fake::Backtrace(%d)" % (i + 1),
            "box": "Box::new(Inner(%d))" % (i + 1), "gen": "Inner(%d)" % (i + 1)}[f[1]]


def render_module(cid, case, real=()):
    kind, shape, fields = case
    gens = n_generics(fields)
    gp = "<%s>" % ", ".join("T%d" % i for i in gens) if gens else ""
    inst = "::<%s>" % ", ".join("Inner" for _ in gens) if gens else ""
    vals = [value_expr(f, i, real) for i, f in enumerate(fields)]
    if shape == "named":
        lit = "{ %s }" % ", ".join("%s: %s" % (fname(f, i), v) for i, (f, v) in enumerate(zip(fields, vals)))
        pat = "{ %s }" % ", ".join("%s: f%d" % (fname(f, i), i) for i, f in enumerate(fields))
    else:
        lit = "(%s)" % ", ".join(vals)
        pat = "(%s)" % ", ".join("f%d" % i for i in range(len(fields)))
    out = ["mod m%d {" % cid, "    use super::*;",
           "    #[derive(Debug, derive_more::Error)]", "    pub " + render_item(case, real),
           "    impl%s fmt::Display for E%s { fn fmt(&self, f: &mut fmt::Formatter<'_>) -> fmt::Result { f.write_str(\"E\") } }" % (gp, gp),
           "    pub fn run() {"]
    if kind == "struct":
        out.append("        let v = E%s;" % ((" " + lit) if shape == "named" else lit))
        addrs = []
        for i, f in enumerate(fields):
            acc = "v.%s" % (fname(f, i) if shape == "named" else str(i))
            addrs.append("addr(&*%s)" % acc if f[1] == "box" else "addr(&%s)" % acc)
        out.append("        report(%d, \"V\", v.source(), &[%s]);" % (cid, ", ".join(addrs)))
    else:
        out.append("        let v = E%s::V%s;" % (inst, (" " + lit) if shape == "named" else lit))
        addrs = ["addr(&**f%d)" % i if f[1] == "box" else "addr(f%d)" % i for i, f in enumerate(fields)]
        out.append("        if let E::V%s = &v { report(%d, \"V\", v.source(), &[%s]); }" %
                   ((" " + pat) if shape == "named" else pat, cid, ", ".join(addrs)))
        out.append("        let u = E%s::U;" % inst)
        out.append("        report(%d, \"U\", u.source(), &[]);" % cid)
    out += ["    }", "}"]
    return "\n".join(out)


PRELUDE = """#![allow(dead_code, unused_variables, unused_imports, non_camel_case_types, irrefutable_let_patterns)]
%s
use std::error::Error;
use std::fmt;

#[derive(Debug)]
pub struct Inner(pub u8);
impl fmt::Display for Inner { fn fmt(&self, f: &mut fmt::Formatter<'_>) -> fmt::Result { f.write_str("Inner") } }
impl Error for Inner {}

pub mod fake {
    // a type merely NAMED `Backtrace` (the macro only looks at the last path segment); it is an error type so
    // that it may also be selected as a source
    #[derive(Debug)]
    pub struct Backtrace(pub u8);
    impl std::fmt::Display for Backtrace { fn fmt(&self, f: &mut std::fmt::Formatter<'_>) -> std::fmt::Result { f.write_str("bt") } }
    impl std::error::Error for Backtrace {}
}
pub mod real { pub use std::backtrace::Backtrace; }

pub fn addr<T: ?Sized>(r: &T) -> *const () { r as *const T as *const () }

pub fn report(id: u32, what: &str, got: Option<&(dyn Error + 'static)>, addrs: &[*const ()]) {
    match got {
        None => println!("{}\\t{}\\tNone", id, what),
        Some(e) => {
            let p = e as *const dyn Error as *const ();
            let hits: Vec<usize> = addrs.iter().enumerate().filter(|(_, a)| **a == p).map(|(i, _)| i).collect();
            if hits.len() == 1 { println!("{}\\t{}\\tSome({})", id, what, hits[0]); }
            else { println!("{}\\t{}\\tSome(?{:?})", id, what, hits); }
        }
    }
}
"""


# ------------------------------------------------------------------ reading the real expansion

# `Some` / `None` as emitted by error.rs: bare (before /repo commit afa82ab) or fully qualified (since)
OPT = r"(?:derive_more :: core :: option :: Option :: )?"


def field_index(tok, case):
    kind, shape, fields = case
    if shape == "unnamed":
        return int(tok) if tok.isdigit() else None
    for i, f in enumerate(fields):
        if fname(f, i) == tok:
            return i
    return None


def pattern_binding(body, case, binding, tail, vname="V"):
    """position of `binding` in the arm `E :: <vname> <pattern> => <tail>` of a match in `body`"""
    kind, shape, fields = case
    if shape == "named":
        m = re.search(r"E :: " + vname + r" \{ ?(.*?) ?\} => " + tail, body)
    else:
        m = re.search(r"E :: " + vname + r" \( ?(.*?) ?\) => " + tail, body)
    if not m:
        return "no-arm"
    parts = [p.strip() for p in m.group(1).split(" , ")] if m.group(1).strip() else []
    hits = []
    for k, p in enumerate(parts):
        if shape == "named":
            nm, _, b = p.partition(" : ")
            if b.strip() == binding:
                hits.append(field_index(nm.strip(), case))
        elif p == binding:
            hits.append(k)
    if len(parts) != len(fields):
        return "arity"
    return hits[0] if len(hits) == 1 else ("unbound" if not hits else "twice")


def read_expansion(case, resp):
    """-> dict(outcome, returned, bounds, provide, bt_field, src_in_provide, msg)"""
    kind, shape, fields = case
    if resp is None or "crash" in resp or "bad_request" in resp or "item_unparsable" in resp:
        return {"outcome": "harness-failure", "msg": json.dumps(resp)[:300]}
    if "panic" in resp:
        return {"outcome": "panic", "msg": "%s at %s" % (resp["panic"].get("msg"), resp["panic"].get("loc"))}
    if "err" in resp:
        return {"outcome": "err", "msg": resp["err"]}
    impls = [it for it in resp["items"] if it.get("kind") == "impl"]
    if len(impls) != 1 or not impls[0]["trait"].endswith("Error"):
        return {"outcome": "unreadable", "msg": resp["ok"][:300]}
    impl = impls[0]
    mem = {}
    for m in impl["members"]:
        mem[m["sig"].split()[1]] = m["body"]
    r = {"outcome": "ok", "returned": None, "bounds": [], "provide": "provide" in mem, "bt_field": None,
         "provide_source": False, "msg": ""}
    if "source" in mem:
        body = mem["source"]
        if kind == "struct":
            m = re.search(r"\{ use derive_more :: __private :: AsDynError ; " + OPT + r"Some \(self \. (\w+) \. as_dyn_error \(\)\) \}$", body)
            r["returned"] = field_index(m.group(1), case) if m else "unreadable"
        else:
            r["returned"] = pattern_binding(body, case, "source", OPT + r"Some \(source \. as_dyn_error \(\)\)")
            r["wildcard"] = re.search(r"_ => " + OPT + r"None \}", body) is not None
    r["provided"] = (None, None)              # (field handed to provide_ref::<Backtrace>, field whose provide() is forwarded)
    if "provide" in mem:
        body = mem["provide"]
        r["provide_source"] = "Error :: provide (" in body
        if kind == "struct":
            m = re.search(r"provide_ref :: < :: std :: backtrace :: Backtrace > \(& self \. (\w+)\)", body)
            r["bt_field"] = field_index(m.group(1), case) if m else None
            m2 = re.search(r"with_trait :: Error :: provide \(& self \. (\w+) , request\)", body)
            r["provided"] = (r["bt_field"], field_index(m2.group(1), case) if m2 else None)
        else:
            if "provide_ref" in body:
                r["bt_field"] = pattern_binding(body, case, "backtrace", r"\{")
            fwd = pattern_binding(body, case, "source", r"\{") if "Error :: provide (source , request)" in body else None
            r["provided"] = (r["bt_field"], fwd)
    for w in impl["where"]:
        m = re.match(r"^T(\d+) : .*with_trait :: Error \+ 'static$", w)
        if m:
            r["bounds"].append(int(m.group(1)))
        elif not re.match(r"^E < .* > : derive_more :: core :: fmt :: Debug \+ derive_more :: core :: fmt :: Display$", w):
            r["bounds"].append("?" + w)
    r["bounds"].sort(key=str)
    return r


# ------------------------------------------------------------------ the documented rules (independent evaluator)

def doc_source(shape, fields):
    """impl/doc/error.md + property text: index among ALL fields | None | 'ambiguous'"""
    live = [(i, f) for i, f in enumerate(fields) if f[2] != "ignore"]        # "ignore it both for detecting backtrace and source"
    marked = [i for i, f in live if f[2] == "source"]                          # rule 3
    if len(marked) > 1:
        return "ambiguous"
    if marked:
        return marked[0]
    if shape == "named":                                                       # rule 1
        c = [i for i, f in live if f[0] == "source" and f[2] != "not(source)"]
        return "ambiguous" if len(c) > 1 else (c[0] if c else None)
    # rule 2: "exactly one field that is not used as the backtrace: either a tuple struct with one field, or one
    # with two where one is the backtrace"
    if len(live) == 1:
        i, f = live[0]
        return None if (f[1] == "bt" or f[2] == "not(source)") else i
    if len(live) == 2:
        bts = [i for i, f in live if f[2] == "backtrace"]
        if not bts:
            bts = [i for i, f in live if f[1] == "bt" and f[2] != "not(backtrace)"]
        if len(bts) > 1:
            return "ambiguous"
        if not bts:
            return None
        (o, of), = [(i, f) for i, f in live if i != bts[0]]
        return None if of[2] == "not(source)" else o
    return None


def doc_backtrace(shape, fields):
    """provide() rules of impl/doc/error.md (+ named-by-type, pinned by the nightly tests): index | None | 'ambiguous'"""
    live = [(i, f) for i, f in enumerate(fields) if f[2] != "ignore"]
    marked = [i for i, f in live if f[2] == "backtrace"]
    if len(marked) > 1:
        return "ambiguous"
    if marked:
        return marked[0]
    c = [i for i, f in live if f[2] != "not(backtrace)" and (f[1] == "bt" or (shape == "named" and f[0] == "backtrace"))]
    return "ambiguous" if len(c) > 1 else (c[0] if c else None)


def doc_provide(shape, fields):
    """(field offered by reference as the Backtrace, field whose provide() is forwarded) | 'ambiguous'"""
    b, s = doc_backtrace(shape, fields), doc_source(shape, fields)
    if b == "ambiguous" or s == "ambiguous":
        return "ambiguous"
    if b is None:
        return (None, None)
    return (None if s == b else b, s)


def doc_backtrace_ambiguous(shape, fields):
    """is the *backtrace* selection ambiguous under any reading of the provide() rules (a rejection is then
    justified although the source is determined)"""
    live = [f for f in fields if f[2] != "ignore"]
    if sum(1 for f in live if f[2] == "backtrace") > 1:
        return True
    if any(f[2] == "backtrace" for f in live):
        return False
    c = [f for f in live if f[2] not in ("backtrace", "not(backtrace)") and
         (f[1] == "bt" or (shape == "named" and f[0] == "backtrace"))]
    return len(c) > 1


def expected(case):
    kind, shape, fields = case
    if kind == "ignored_variant":
        return None
    return doc_source(shape, fields)


# ------------------------------------------------------------------ the Coq model

def coq_field(f, i):
    nm = {"source": "(Some 0)", "backtrace": "(Some 1)", "other": "(Some %d)" % (10 + i), None: "None"}[f[0]]
    b = lambda x: "true" if x else "false"
    src = {"source": "(Some true)", "not(source)": "(Some false)"}.get(f[2], "None")
    bt = {"backtrace": "(Some true)", "not(backtrace)": "(Some false)"}.get(f[2], "None")
    return "(mkField %s %s %s %s %s %s)" % (nm, b(f[1] == "bt"), b(f[1] == "gen"), src, bt, b(f[2] == "ignore"))


def coq_case(case):
    kind, shape, fields = case
    fs = "[" + "; ".join(coq_field(f, i) for i, f in enumerate(fields)) + "]"
    sh = "Named" if shape == "named" else "Unnamed"
    k = "Struct" if kind == "struct" else "Variant"
    ign = "true" if kind == "ignored_variant" else "false"
    if kind == "struct":
        return "(run_full %s %s %s, run_case_old %s %s %s, (OOk, @None nat, @None nat))" % (k, sh, fs, k, sh, fs)
    return "(run_full %s %s %s, run_case_old %s %s %s, run_enum_case %s %s %s)" % (k, sh, fs, k, sh, fs, ign, sh, fs)


def copt(t):
    if t == "None":
        return None
    assert t[0] == "Some", t
    return t[1]


def cdoc(t):
    if t == "Ambiguous":
        return "ambiguous"
    assert t[0] == "Sel", t
    return copt(t[1])


OUTC = {"OOk": "ok", "OErr": "err", "OPanic": "panic"}


def cprov(t):
    return "ambiguous" if t == "Ambiguous" else (copt(t[1][0]), copt(t[1][1]))


def model_result(case, term):
    kind = case[0]
    # Coq prints left-nested pairs flattened: run_full is (o, (a, b, c), (d, e, f), (g, h, i)); the outer tuple
    # (run_full, old[, enum]) therefore starts with run_full's four components
    o, (sel, ret, bnd), (bt, pref, pfwd), (dsrc, dbt, dprov) = term[0], term[1], term[2], term[3]
    rf = term[4]
    re_ = term[5] if len(term) > 5 else None
    r = {"doc": cdoc(dsrc),
         "old": {"outcome": OUTC[rf[0]], "returned": copt(rf[2]), "bound": copt(rf[3])},
         "provide": {"outcome": OUTC[o], "backtrace": copt(bt), "provided": (copt(pref), copt(pfwd)),
                     "doc_backtrace": cdoc(dbt), "doc_provide": cprov(dprov)}}
    if kind == "struct":
        r.update(outcome=OUTC[o], returned=copt(ret), bound=copt(bnd), sel=copt(sel))
    elif kind == "variant":
        r.update(outcome=OUTC[o], returned=copt(ret), bound=copt(bnd), sel=copt(sel),
                 enum=(OUTC[re_[0]], copt(re_[1]), copt(re_[2])))
    else:
        r.update(outcome=OUTC[re_[0]], returned=copt(re_[1]), bound=None, sel=None,
                 enum=(OUTC[re_[0]], copt(re_[1]), copt(re_[2])))
    return r


# ------------------------------------------------------------------ compiled crates

def build_and_run(chk, name, toolchain, mods, nbins):
    """mods: list of (cid, module source). Returns ({cid: {what: observation}}, {cid: compile message})."""
    feature = "#![feature(error_generic_member_access)]" if toolchain == "nightly" else ""
    pre = PRELUDE % feature
    failed = {}
    mods = list(mods)
    target = common.rt_target_dir() + ("-nightly" if toolchain == "nightly" else "")
    for attempt in range(4):
        if not mods:
            return {}, failed
        parts = [mods[k::nbins] for k in range(nbins)]
        parts = [p for p in parts if p]
        files = {}
        linemap = {}
        for k, p in enumerate(parts):
            src = [pre]
            line = pre.count("\n") + 1
            rel = "main.rs" if k == 0 else "bin/%s_p%d.rs" % (name, k)
            for cid, m in p:
                n = m.count("\n") + 1
                for ln in range(line, line + n):
                    linemap[(rel, ln)] = cid
                src.append(m)
                line += n
            src.append("fn main() {\n" + "".join("    m%d::run();\n" % cid for cid, _ in p) + "}\n")
            files[rel] = "\n".join(src)
        d = common.make_crate(name, files["main.rs"], extra_files={k: v for k, v in files.items() if k != "main.rs"})
        args = (["+nightly"] if toolchain == "nightly" else []) + ["build", "--message-format=json"]
        rc, out = common.cargo(d, args, target_dir=(target if toolchain == "nightly" else None), timeout=1400)
        if rc == 0:
            obs = {}
            for k in range(len(parts)):
                binp = os.path.join(target, "debug", name if k == 0 else "%s_p%d" % (name, k))
                p = subprocess.run([binp], stdout=subprocess.PIPE, stderr=subprocess.PIPE, text=True, timeout=600)
                if p.returncode != 0:
                    chk.violation("crate-run-failed", {"bin": binp, "stderr": p.stderr[-1500:]},
                                  "generated %s binary exits with %d" % (toolchain, p.returncode), no_input=True)
                for l in p.stdout.splitlines():
                    a = l.split("\t")
                    if len(a) == 3:
                        obs.setdefault(int(a[0]), {})[a[1]] = a[2]
            return obs, failed
        bad = {}
        other = []
        for l in out.splitlines():
            if not l.startswith("{"):
                continue
            try:
                j = json.loads(l)
            except Exception:
                continue
            msg = j.get("message") if j.get("reason") == "compiler-message" else None
            if not msg or msg.get("level") != "error":
                continue
            hit = False
            for sp in msg.get("spans", []):
                fn = sp["file_name"].replace("\\", "/")
                rel = fn.split("src/", 1)[1] if "src/" in fn else fn
                cid = linemap.get((rel, sp["line_start"]))
                if cid is not None:
                    bad.setdefault(cid, msg.get("rendered", msg.get("message", ""))[:1200])
                    hit = True
            if not hit:
                other.append(msg.get("rendered", msg.get("message", ""))[:600])
        if not bad:
            chk.violation("crate-build-failed", {"toolchain": toolchain, "output": (other or [out[-3000:]])[:3]},
                          "the generated %s crate does not build and no module is to blame" % toolchain, no_input=True)
            return {}, failed
        failed.update(bad)
        mods = [(cid, m) for cid, m in mods if cid not in bad]
    return {}, failed


# ------------------------------------------------------------------ whole enums with several variants
#
# An enum case is ("enum", variants), variants = tuple of (ignored?, shape, fields); variant k is called Vk, a
# field-less named variant is written as a unit variant, the type parameter of field i of variant k is T<k>_<i>.

def m_ty(f, v, i, real):
    return {"inner": "Inner", "bt": "real::Backtrace" if (v, i) in real else "fake::Backtrace",
            "box": "Box<dyn Error + 'static>", "gen": "T%d_%d" % (v, i)}[f[1]]


def m_gens(variants):
    return [(v, i) for v, (ig, sh, fs) in enumerate(variants) for i, f in enumerate(fs) if f[1] == "gen"]


def m_item(variants, real=()):
    gens = m_gens(variants)
    gp = "<%s>" % ", ".join("T%d_%d" % g for g in gens) if gens else ""
    vs = []
    for v, (ig, sh, fs) in enumerate(variants):
        decls = []
        for i, f in enumerate(fs):
            at = "#[error(%s)] " % f[2] if f[2] else ""
            decls.append("%s%s%s" % (at, (fname(f, i) + ": ") if sh == "named" else "", m_ty(f, v, i, real)))
        body = "" if (sh == "named" and not fs) else (" { %s }" % ", ".join(decls) if sh == "named" else "(%s)" % ", ".join(decls))
        vs.append("%sV%d%s" % ("#[error(ignore)] " if ig else "", v, body))
    return "enum E%s { %s }" % (gp, ", ".join(vs))


def m_show(variants):
    return "#[derive(Error)] " + m_item(variants)


def m_module(cid, variants, real=()):
    gens = m_gens(variants)
    gp = "<%s>" % ", ".join("T%d_%d" % g for g in gens) if gens else ""
    inst = "::<%s>" % ", ".join("Inner" for _ in gens) if gens else ""
    out = ["mod m%d {" % cid, "    use super::*;", "    #[derive(Debug, derive_more::Error)]", "    pub " + m_item(variants, real),
           "    impl%s fmt::Display for E%s { fn fmt(&self, f: &mut fmt::Formatter<'_>) -> fmt::Result { f.write_str(\"E\") } }" % (gp, gp),
           "    pub fn run() {"]
    for v, (ig, sh, fs) in enumerate(variants):
        vals = [{"inner": "Inner(%d)" % (i + 1), "bt": "real::Backtrace::disabled()" if (v, i) in real else "fake::Backtrace(%d)" % (i + 1),
                 "box": "Box::new(Inner(%d))" % (i + 1), "gen": "Inner(%d)" % (i + 1)}[f[1]] for i, f in enumerate(fs)]
        if sh == "named" and not fs:
            lit = pat = ""
        elif sh == "named":
            lit = " { %s }" % ", ".join("%s: %s" % (fname(f, i), x) for i, (f, x) in enumerate(zip(fs, vals)))
            pat = " { %s }" % ", ".join("%s: f%d" % (fname(f, i), i) for i, f in enumerate(fs))
        else:
            lit = "(%s)" % ", ".join(vals)
            pat = "(%s)" % ", ".join("f%d" % i for i in range(len(fs)))
        addrs = ["addr(&**f%d)" % i if f[1] == "box" else "addr(f%d)" % i for i, f in enumerate(fs)]
        out.append("        { let v = E%s::V%d%s; if let E::V%d%s = &v { report(%d, \"V%d\", v.source(), &[%s]); } }" %
                   (inst, v, lit, v, pat, cid, v, ", ".join(addrs)))
    out += ["    }", "}"]
    return "\n".join(out)


def m_expected(variants):
    """per variant: None | field index; or 'ambiguous' for the whole enum (an enabled variant is ambiguous)"""
    exp = []
    for ig, sh, fs in variants:
        if ig:
            exp.append(None)                       # "source() is None for an ignored variant"
            continue
        d = doc_source(sh, fs)
        if d == "ambiguous":
            return "ambiguous"
        exp.append(d)
    return exp


def m_read(variants, resp):
    """-> dict(outcome, has_fn, wildcard, returned[per variant], bounds[(v, i)], provide, real{(v,i)}, compilable, msg)"""
    if resp is None or "crash" in resp or "bad_request" in resp or "item_unparsable" in resp:
        return {"outcome": "harness-failure", "msg": json.dumps(resp)[:300]}
    if "panic" in resp:
        return {"outcome": "panic", "msg": "%s at %s" % (resp["panic"].get("msg"), resp["panic"].get("loc"))}
    if "err" in resp:
        return {"outcome": "err", "msg": resp["err"]}
    impls = [it for it in resp["items"] if it.get("kind") == "impl"]
    if len(impls) != 1 or not impls[0]["trait"].endswith("Error"):
        return {"outcome": "unreadable", "msg": resp["ok"][:300]}
    impl = impls[0]
    mem = {m["sig"].split()[1]: m["body"] for m in impl["members"]}
    r = {"outcome": "ok", "has_fn": "source" in mem, "wildcard": False, "returned": [None] * len(variants), "bounds": [],
         "provide": "provide" in mem, "real": set(), "compilable": True, "why": "", "msg": "", "provide_wildcard": None,
         "provide_arms": [], "provided": [(None, None)] * len(variants)}
    if "source" in mem:
        body = mem["source"]
        if not re.match(r"^\{ use derive_more :: __private :: AsDynError ; match self \{ .* \} \}$", body):
            return {"outcome": "unreadable", "msg": body[:300]}
        r["wildcard"] = re.search(r"_ => " + OPT + r"None \} \}$", body) is not None
        narms = len(re.findall(r"=> " + OPT + r"Some \(source \. as_dyn_error \(\)\)", body))
        for v, (ig, sh, fs) in enumerate(variants):
            b = pattern_binding(body, ("variant", sh, fs), "source", OPT + r"Some \(source \. as_dyn_error \(\)\)", "V%d" % v)
            r["returned"][v] = None if b == "no-arm" else b
        if narms != sum(1 for x in r["returned"] if x is not None):
            return {"outcome": "unreadable", "msg": "arms not attributed: " + body[:300]}
    if "provide" in mem:
        body = mem["provide"]
        r["provide_wildcard"] = re.search(r"_ => \(\) \} \}$", body) is not None
        for v, (ig, sh, fs) in enumerate(variants):
            if sh == "named":
                m = re.search(r"E :: V%d \{ ?(.*?) ?\} => \{ (.*?) \}" % v, body)
            else:
                m = re.search(r"E :: V%d \( ?(.*?) ?\) => \{ (.*?) \}" % v, body)
            if not m:
                continue
            r["provide_arms"].append(v)
            arm = m.group(2)
            src = pattern_binding(body, ("variant", sh, fs), "source", r"\{", "V%d" % v)
            bt = pattern_binding(body, ("variant", sh, fs), "backtrace", r"\{", "V%d" % v)
            r["provided"][v] = (bt if "provide_ref" in arm else None, src if "Error :: provide (source , request)" in arm else None)
            if "Error :: provide (source" in arm and isinstance(src, int) and fs[src][1] == "box":
                r["compilable"], r["why"] = False, "provide-through-box"
            if "provide_ref" in arm:
                if not isinstance(bt, int) or fs[bt][1] != "bt":
                    r["compilable"], r["why"] = False, "provide-type-mismatch"
                else:
                    r["real"].add((v, bt))
    for w in impl["where"]:
        m = re.match(r"^T(\d+)_(\d+) : .*with_trait :: Error \+ 'static$", w)
        if m:
            r["bounds"].append((int(m.group(1)), int(m.group(2))))
        elif not re.match(r"^E < .* > : derive_more :: core :: fmt :: Debug \+ derive_more :: core :: fmt :: Display$", w):
            r["bounds"].append(("?", w))
    r["bounds"].sort(key=str)
    return r


def m_coq(variants):
    vs = []
    for ig, sh, fs in variants:
        vs.append("(mkVariant %s %s [%s])" % ("true" if ig else "false", "Named" if sh == "named" else "Unnamed",
                                              "; ".join(coq_field(f, i) for i, f in enumerate(fs))))
    return "(run_enum [%s], run_enum_provide [%s])" % ("; ".join(vs), "; ".join(vs))


def m_model(term):
    o, flags, rets, bounds, prov = term          # run_enum's four components (flattened), then run_enum_provide
    po, pflags, prets = prov
    return {"outcome": OUTC[o], "has_fn": flags[0] == "true", "wildcard": flags[1] == "true", "exhaustive": flags[2] == "true",
            "returned": [copt(x) for x in rets], "bounds": sorted([(a, b) for (a, b) in bounds], key=str),
            "provide": {"outcome": OUTC[po], "has_fn": pflags[0] == "true", "wildcard": pflags[1] == "true",
                        "exhaustive": pflags[2] == "true", "provided": [(copt(a), copt(b)) for (a, b) in prets]}}


M_CORPUS = [
    # the shape of the missed change: every enabled variant has a source, one variant is ignored
    ((False, "unnamed", ((None, "inner", ""),)), (False, "named", (("source", "inner", ""),)), (True, "unnamed", ((None, "inner", ""),))),
    ((False, "unnamed", ((None, "gen", ""),)), (True, "named", (("source", "gen", ""),))),
    ((True, "unnamed", ((None, "inner", ""),)), (False, "unnamed", ((None, "inner", ""),))),
    ((True, "named", ()), (False, "named", (("source", "box", ""),))),
    # every variant has a source: no wildcard at all
    ((False, "unnamed", ((None, "inner", ""),)), (False, "named", (("source", "inner", ""),))),
    ((False, "unnamed", ((None, "inner", ""),)),),
    # only ignored variants / no variant
    ((True, "unnamed", ((None, "inner", ""),)), (True, "named", (("source", "inner", ""),))),
    ((True, "unnamed", ((None, "inner", ""),)),),
    # source-less variant between two with a source
    ((False, "named", (("source", "inner", ""),)), (False, "named", ()), (False, "unnamed", ((None, "inner", "ignore"), (None, "inner", "")))),
    # an ignored variant whose fields would be ambiguous
    ((False, "unnamed", ((None, "inner", ""),)), (True, "named", (("other", "inner", "source"), ("other", "inner", "source")))),
    # backtrace in one variant (provide, nightly)
    ((False, "unnamed", ((None, "inner", ""), (None, "bt", ""))), (True, "unnamed", ((None, "inner", ""),))),
    ((False, "unnamed", ((None, "inner", ""), (None, "bt", ""))), (False, "named", (("source", "inner", ""), ("backtrace", "bt", ""))),
     (True, "named", (("source", "inner", ""),))),
]


def m_generate(chk, tier):
    rng = chk.rng
    pool = {"S": [], "N": [], "A": []}
    srcs = [(sh, fs) for sh in ("named", "unnamed") for n in (0, 1, 2) for fs in layouts(sh, n)]
    srcs += [(sh, random_layout(rng, sh, 3)) for sh in ("named", "unnamed") for _ in range(400)]
    for sh, fs in srcs:
        d = doc_source(sh, fs)
        if d == "ambiguous":
            pool["A"].append((sh, fs))
        elif doc_backtrace_ambiguous(sh, fs):
            continue
        elif d is None:
            pool["N"].append((sh, fs))
        else:
            pool["S"].append((sh, fs))
    # plain (backtrace-free) layouts are the common case: give them half of the draws
    plain = {k: [x for x in v if all(f[1] != "bt" and f[0] != "backtrace" and "backtrace" not in f[2] for f in x[1])]
             for k, v in pool.items()}

    def draw(k):
        src = plain[k] if rng.random() < 0.6 else pool[k]
        return rng.choice(src)

    def concretise(seq):
        vs = []
        for a in seq:
            if a == "S":
                vs.append((False,) + draw("S"))
            elif a == "N":
                vs.append((False,) + draw("N"))
            elif a == "Iw":                              # ignored, with a would-be source
                vs.append((True,) + draw("S"))
            elif a == "Io":                              # ignored, without
                vs.append((True,) + draw("N"))
            elif a == "Ia":                              # ignored, fields would be ambiguous
                vs.append((True,) + draw("A"))
            else:                                        # enabled and ambiguous: the derive must be rejected
                vs.append((False,) + draw("A"))
        return tuple(vs)

    arche = ["S", "N", "Iw", "Io"]
    maxlen, per = (3, 7) if tier == "quick" else (4, 25)
    cases = list(M_CORPUS)
    for n in range(1, maxlen + 1):
        for seq in itertools.product(arche, repeat=n):
            for _ in range(per):
                cases.append(concretise(seq))
    # the masked shape, systematically: all enabled variants have a source, >= 1 ignored variant, every order
    for n in (2, 3, 4):
        for seq in itertools.product(["S", "Iw", "Io", "Ia"], repeat=n):
            if "S" in seq and any(a != "S" for a in seq) and (tier != "quick" or n <= 3 or rng.random() < 0.15):
                cases.append(concretise(seq))
    for _ in range(40 if tier == "quick" else 400):      # one ambiguous enabled variant somewhere
        seq = [rng.choice(arche) for _ in range(rng.randrange(0, 3))]
        seq.insert(rng.randrange(len(seq) + 1), "A")
        cases.append(concretise(seq))
    return list(dict.fromkeys(cases))


# ------------------------------------------------------------------ field types (utils.rs: which types get bounded)
#
# Python AST of a type (mirrors Model.ty):
#   ("path", qself|None, [(name, args)])      args: None | ("angle", [garg]) | ("paren", [ty], ty|None)
#   garg: ("type", ty) | ("assoc", name, ty) | ("constraint", name, boundname) | ("lifetime",) | ("const",) | ("assoc_const", name)
#   ("ref", mut, ty) | ("wrap", kind, ty) kind in array/slice/paren/ptr_const/ptr_mut | ("tuple", [ty]) |
#   ("barefn", [ty], ty|None) | ("dyn", [bound]) bound: ("trait", [(name, args)]) | ("lifetime",) | ("other", kind)

T_ID = {"Backtrace": 2, "Vec": 10, "u8": 11, "Box": 12, "Option": 13, "Tr": 14, "X": 15, "std": 16, "Foo": 17, "Fn": 18,
        "Inner": 19, "bt": 20, "T0": 100, "T1": 101}
T_PARAMS = ["T0", "T1"]


def t_rust(t):
    k = t[0]
    if k == "path":
        segs = "::".join(n + t_args(a) for n, a in t[2])
        if t[1] is None:
            return segs
        if len(t[2]) >= 2:
            return "<%s as %s>::%s" % (t_rust(t[1]), "::".join(n + t_args(a) for n, a in t[2][:-1]), t[2][-1][0] + t_args(t[2][-1][1]))
        return "<%s>::%s" % (t_rust(t[1]), segs)
    if k == "ref":
        return "&'static %s%s" % ("mut " if t[1] else "", t_rust(t[2]))
    if k == "wrap":
        e = t_rust(t[2])
        return {"array": "[%s; 2]", "slice": "[%s]", "paren": "(%s)", "ptr_const": "*const %s", "ptr_mut": "*mut %s"}[t[1]] % e
    if k == "tuple":
        return "(%s%s)" % (", ".join(t_rust(x) for x in t[1]), "," if len(t[1]) == 1 else "")
    if k == "barefn":
        return "fn(%s)%s" % (", ".join(t_rust(x) for x in t[1]), "" if t[2] is None else " -> " + t_rust(t[2]))
    if k == "dyn":
        return "dyn " + " + ".join("'static" if b[0] == "lifetime" else "::".join(n + t_args(a) for n, a in b[1]) for b in t[1])
    return {"never": "!", "infer": "_", "impl": "impl Tr<T0>", "macro": "mac!(T0)"}[t[1]]


def t_args(a):
    if a is None:
        return ""
    if a[0] == "angle":
        out = []
        for g in a[1]:
            out.append({"type": lambda: t_rust(g[1]), "assoc": lambda: "%s = %s" % (g[1], t_rust(g[2])),
                        "constraint": lambda: "%s: %s" % (g[1], g[2]), "lifetime": lambda: "'static", "const": lambda: "3",
                        "assoc_const": lambda: "%s = 3" % g[1]}[g[0]]())
        return "<%s>" % ", ".join(out)
    return "(%s)%s" % (", ".join(t_rust(x) for x in a[1]), "" if a[2] is None else " -> " + t_rust(a[2]))


def t_coq(t):
    k = t[0]
    lst = lambda xs, f: "[" + "; ".join(f(x) for x in xs) + "]"
    opt = lambda x: "None" if x is None else "(Some %s)" % t_coq(x)
    if k == "path":
        return "(TyPath %s %s)" % (opt(t[1]), lst(t[2], t_coq_seg))
    if k == "ref":
        return "(TyRef %s)" % t_coq(t[2])
    if k == "wrap":
        return "(TyWrap %s)" % t_coq(t[2])
    if k == "tuple":
        return "(TyTuple %s)" % lst(t[1], t_coq)
    if k == "barefn":
        return "(TyBareFn %s %s)" % (lst(t[1], t_coq), opt(t[2]))
    if k == "dyn":
        return "(TyTraitObject %s)" % lst(t[1], lambda b: "BLifetime" if b[0] == "lifetime" else "(BTrait %s)" % lst(b[1], t_coq_seg))
    return "TyOther"


def t_coq_seg(sg):
    n, a = sg
    if a is None:
        ca = "PNone"
    elif a[0] == "angle":
        ca = "(PAngle [" + "; ".join({"type": lambda: "(GType %s)" % t_coq(g[1]), "assoc": lambda: "(GAssocType %s)" % t_coq(g[2]),
                                       "constraint": lambda: "(GConstraint %d)" % T_ID[g[1]]}.get(g[0], lambda: "GOther")()
                                      for g in a[1]) + "])"
    else:
        ca = "(PParen [%s] %s)" % ("; ".join(t_coq(x) for x in a[1]), "None" if a[2] is None else "(Some %s)" % t_coq(a[2]))
    return "(Seg %d %s)" % (T_ID[n], ca)


def t_random(rng, depth):
    leafs = ["T0", "T1", "u8", "Inner", "Backtrace"]
    if depth <= 0 or rng.random() < 0.25:
        n = rng.choice(leafs)
        r = rng.random()
        if r < 0.15:
            return ("path", None, [(rng.choice(["bt", "std"]), None), (n, None)])
        if r < 0.25 and n in T_PARAMS:
            return ("path", None, [(n, None), ("X", None)])                    # T0::X
        return ("path", None, [(n, None)])
    sub = lambda: t_random(rng, depth - 1)
    k = rng.choice(["generic", "generic", "ref", "wrap", "tuple", "barefn", "dyn", "dyn", "qself", "other", "gargs"])
    # (a bare `Fn(A) -> B` path type is not accepted by this syn as a field type; parenthesized arguments are
    #  exercised through `dyn Tr(A) -> B` bounds, which go through the same `used_in_path`)
    if k == "generic":
        head = rng.choice(["Vec", "Box", "Option", "Foo", "Backtrace"])
        segs = [(head, ("angle", [("type", sub()) for _ in range(rng.randrange(1, 3))]))]
        if rng.random() < 0.2:
            segs = [("std", None)] + segs
        if rng.random() < 0.15:
            segs = segs + [("X", None)]
        return ("path", None, segs)
    if k == "gargs":
        g = rng.choice([("assoc", "X", sub()), ("constraint", rng.choice(["X", "T0", "T1"]), "Tr"), ("lifetime",), ("const",),
                        ("assoc_const", "X"), ("type", sub())])
        return ("path", None, [("Foo", ("angle", [g] + ([("type", sub())] if rng.random() < 0.3 else [])))])
    if k == "ref":
        return ("ref", rng.random() < 0.3, sub())
    if k == "wrap":
        return ("wrap", rng.choice(["array", "slice", "paren", "ptr_const", "ptr_mut"]), sub())
    if k == "tuple":
        return ("tuple", [sub() for _ in range(rng.randrange(0, 4))])
    if k == "barefn":
        return ("barefn", [sub() for _ in range(rng.randrange(0, 3))], sub() if rng.random() < 0.6 else None)
    if k == "dyn":
        bs = [("trait", [(rng.choice(["Tr", "T0"]), rng.choice([None, ("angle", [("type", sub())]), ("angle", [("assoc", "X", sub())]),
                                                               ("paren", [sub()], sub() if rng.random() < 0.5 else None)]))])]
        if rng.random() < 0.4:
            bs.append(("lifetime",))
        return ("dyn", bs)
    if k == "qself":
        # always `<Q as Tr>::X`: the trait-less `<Q>::X` (inherent associated type, unstable) makes add_extra_where_clauses
        # panic ("generic parameters on `where` clauses are reserved") - an internal failure outside this property
        return ("path", sub(), [("Tr", rng.choice([None, ("angle", [("type", sub())])])), ("X", None)])
    return ("other", rng.choice(["never", "infer", "impl", "macro"]))


P = lambda n: ("path", None, [(n, None)])
T_CORPUS = [
    P("T0"), P("u8"), P("Backtrace"), ("path", None, [("bt", None), ("Backtrace", None)]),
    ("path", None, [("Backtrace", ("angle", [("type", P("u8"))]))]), ("path", None, [("Backtrace", None), ("X", None)]),
    ("ref", False, P("T0")), ("ref", True, ("ref", False, P("T1"))), ("ref", False, P("Backtrace")),
    ("wrap", "array", P("T0")), ("wrap", "slice", P("T0")), ("wrap", "paren", P("T0")), ("wrap", "ptr_const", P("T0")),
    ("wrap", "paren", P("Backtrace")),
    ("tuple", [P("u8"), P("T1")]), ("tuple", []), ("tuple", [P("T0")]),
    ("barefn", [P("T0")], None), ("barefn", [], P("T1")), ("barefn", [P("u8")], P("u8")),
    ("dyn", [("trait", [("Tr", ("angle", [("type", P("T0"))]))]), ("lifetime",)]),
    ("dyn", [("trait", [("Tr", ("angle", [("assoc", "X", P("T0"))]))])]),
    ("dyn", [("trait", [("Fn", ("paren", [P("T0")], P("T1")))])]),
    ("dyn", [("trait", [("T0", None)])]),                                   # a bound path is not a path TYPE: first segment not tested
    ("path", None, [("Box", ("angle", [("type", ("dyn", [("trait", [("Fn", ("paren", [P("u8")], P("T1")))])]))]))]),
    ("path", None, [("Vec", ("angle", [("type", ("path", None, [("Option", ("angle", [("type", P("T0"))]))]))]))]),
    ("path", None, [("T0", None), ("X", None)]), ("path", None, [("std", None), ("T0", None)]),   # only the FIRST segment is tested
    ("path", P("T0"), [("Tr", None), ("X", None)]), ("path", P("u8"), [("Tr", ("angle", [("type", P("T1"))])), ("X", None)]),
    ("path", None, [("Foo", ("angle", [("constraint", "T0", "Tr")]))]), ("path", None, [("Foo", ("angle", [("constraint", "X", "Tr")]))]),
    ("path", None, [("Foo", ("angle", [("lifetime",), ("const",), ("assoc_const", "X")]))]),
    ("dyn", [("trait", [("Fn", ("paren", [P("T0")], None))])]), ("dyn", [("trait", [("Fn", ("paren", [], P("T0")))])]),
    ("other", "never"), ("other", "infer"), ("other", "impl"), ("other", "macro"),
    ("wrap", "array", ("tuple", [P("u8"), ("ref", False, ("wrap", "slice", P("T1")))])),
]


def t_from_coq(term):
    """parsed Coq `ty` -> a canonical nested tuple (to compare model outputs with the encodings of candidate types)"""
    return json.dumps(term, sort_keys=True)


def t_mentions_param(t):
    return re.search(r"\bT[01]\b", t_rust(t)) is not None


def run_types(chk, inproc, tier):
    rng = chk.rng
    types = list(T_CORPUS) + [t_random(rng, rng.randrange(1, 4)) for _ in range(700 if tier == "quick" else 6000)]
    types = list({t_rust(t): t for t in types}.values())
    reqs = []
    for t in types:
        reqs.append({"cmd": "expand", "derive": "Error", "item": "struct E<T0, T1>(#[error(source)] %s);" % t_rust(t)})
        reqs.append({"cmd": "expand", "derive": "Error", "item": "struct E<T0, T1>(%s, Inner);" % t_rust(t)})
    resps = common.run_jsonl(inproc, reqs)
    ps = "[%d; %d]" % (T_ID["T0"], T_ID["T1"])
    # per type: the model's verdicts, and the Coq encodings of the two candidate bounded types (the type itself, and the
    # referent when it is a reference) so that the model's choice can be named without re-implementing it here
    exprs = []
    for t in types:
        cands = [t] + ([t[2]] if t[0] == "ref" else [])
        exprs.append("(run_type %s %s, [%s])" % (ps, t_coq(t), "; ".join(t_coq(c) for c in cands)))
    B = 25
    batches = ["[" + "; ".join(exprs[i:i + B]) + "]" for i in range(0, len(exprs), B)]
    terms = [x for lst in common.coq_eval(["Verif.C09.Model"], batches, preamble="Close Scope N_scope.", batch=4, tag="c09t") for x in lst]
    n = 0
    for k, (t, term) in enumerate(zip(types, terms)):
        r_b, r_e = resps[2 * k], resps[2 * k + 1]
        rep = {"type": t_rust(t), "type_ast": t}
        getif, ends, cands = term
        chk.count(("type", t_rust(t)), True)
        chk.bump("type:" + t[0])
        if "item_unparsable" in r_b or "item_unparsable" in r_e:
            chk.bump("type: not a field type for syn (skipped)")
            continue
        if "ok" not in r_b or "ok" not in r_e:
            chk.violation("type-expansion-unreadable", dict(rep, real=[str(r_b)[:300], str(r_e)[:300]]),
                          "derive(Error) on a struct with field type `%s` is not accepted in-process: %s" % (t_rust(t), str(r_b)[:200]))
            continue
        n += 1
        # bounded type: model
        want = None
        if getif != "None":
            enc = t_from_coq(getif[1])
            cl = [t] + ([t[2]] if t[0] == "ref" else [])
            hit = [c for c, ce in zip(cl, cands) if t_from_coq(ce) == enc]
            want = re.sub(r"\s+", "", t_rust(hit[0])) if hit else "?model-output-is-neither-candidate"
        # bounded type: real
        got = None
        for it in r_b["items"]:
            for w in it.get("where", []):
                mm = re.match(r"^(.*) : derive_more :: core :: fmt :: Debug \+ derive_more :: core :: fmt :: Display \+ derive_more :: with_trait :: Error \+ 'static$", w)
                if mm:
                    got = re.sub(r"\s+", "", mm.group(1))
        if got != want:
            chk.violation("tie-model-type-bound", dict(rep, model=want, real=got),
                          "field type `%s`: the model bounds %s, the real derive bounds %s" % (t_rust(t), want, got))
        if (got is not None) != t_mentions_param(t):
            chk.bump("type: parameter only in a position the walk does not visit" if got is None else "type: bounded without naming a parameter")
        # `Backtrace`-named type: model vs real (two-field tuple: the other field becomes the source iff field 0 is the backtrace)
        real_ends = any(re.search(r"Some \(self \. 1 \. as_dyn_error \(\)\)", mb["body"]) for it in r_e["items"] for mb in it.get("members", [])
                        if mb["sig"].split()[1] == "source")
        if real_ends != (ends == "true"):
            chk.violation("tie-model-type-backtrace", dict(rep, model=ends, real=real_ends),
                          "field type `%s`: model says is_type_path_ends_with_segment(.., \"Backtrace\") = %s, the real derive behaves as %s" %
                          (t_rust(t), ends, real_ends))
    return len(types), n


# ------------------------------------------------------------------ the check

def classify(case, real_outcome, returned, exp):
    kind, shape, fields = case
    ignored = [i for i, f in enumerate(fields) if f[2] == "ignore"]
    if real_outcome == "panic":
        return "infer-source-index-panic"
    if exp == "ambiguous":
        return "ambiguous-accepted"
    if kind == "variant" and isinstance(returned, int) and isinstance(exp, int) and any(i < exp for i in ignored):
        return "variant-ignored-field-before-source"
    if shape == "unnamed" and ignored and kind != "ignored_variant":
        return "tuple-ignored-field-counted-in-length"
    if kind == "ignored_variant":
        return "ignored-variant-has-source"
    return "wrong-source"


def show(case):
    return "#[derive(Error)] " + render_item(case)


def run(tier, seed, replay):
    chk = common.Check("C09", tier, seed)
    inproc = common.build_inproc()
    st = common.check_proofs(chk, "C09")

    rp = json.load(open(replay)).get("replay", {}) if replay else {}
    enums = []
    if isinstance(rp, dict) and "enum" in rp:
        cases = []
        enums = [tuple((bool(v[0]), v[1], tuple((f[0], f[1], f[2]) for f in v[2])) for v in rp["enum"])]
    elif isinstance(rp, dict) and "case" in rp:
        c = rp["case"]
        cases = [(c[0], c[1], tuple((f[0], f[1], f[2]) for f in c[2]))]
    else:
        replay = None
        cases = generate(chk, tier)
        enums = m_generate(chk, tier)
    chk.log("%d layouts, %d multi-variant enums" % (len(cases), len(enums)))

    # ---- the real expansion (in-process, unmodified sources)
    resps = common.run_jsonl(inproc, [{"cmd": "expand", "derive": "Error", "item": render_item(c)} for c in cases])
    real = [read_expansion(c, r) for c, r in zip(cases, resps)]

    # ---- the model
    B = 60
    exprs = ["[" + "; ".join(coq_case(c) for c in cases[i:i + B]) + "]" for i in range(0, len(cases), B)]
    terms = [t for lst in common.coq_eval(["Verif.C09.Model"], exprs, preamble="Close Scope N_scope.", batch=8, tag="c09")
             for t in lst]
    assert len(terms) == len(cases)
    model = [model_result(c, t) for c, t in zip(cases, terms)]

    # ---- tie 1 (model vs expansion), static oracle, selection of the compilable layouts
    stable, nightly = [], []
    skipped = {"provide-type-mismatch": 0, "provide-through-box": 0, "rejected": 0, "panic": 0, "missing-bound": 0}
    n_tie = 0
    n_prov = 0
    deferred = {}                  # cid -> verdict on the expansion, reported together with the run-time observation
    verdicts = []                  # oracle verdicts, reported in layout order (hand corpus first) at the end

    def emit(cid, *args):
        verdicts.append((cid, args))
    for cid, (c, r, m) in enumerate(zip(cases, real, model)):
        kind, shape, fields = c
        exp = expected(c)
        nontrivial = exp is not None or r["outcome"] != "ok" or any(f[2] for f in fields)
        chk.count(c, nontrivial)
        chk.bump("%s/%s/%d fields" % (kind, shape, len(fields)))
        chk.bump("documented:" + ("ambiguous" if exp == "ambiguous" else "none" if exp is None else "field"))
        chk.bump("macro:" + r["outcome"])
        rep = {"case": [kind, shape, [list(f) for f in fields]], "item": show(c), "documented": exp}
        if r["outcome"] in ("harness-failure", "unreadable") or r.get("returned") in ("unreadable", "arity", "twice", "unbound", "no-arm"):
            chk.violation("expansion-unreadable", dict(rep, real=r), "cannot read the expansion of %s: %s" % (show(c), r))
            continue
        # spec cross-check: Coq documented_source vs the independent evaluator
        if kind != "ignored_variant" and m["doc"] != exp:
            chk.violation("spec-oracle-mismatch", dict(rep, coq_documented=m["doc"]),
                          "Coq documented_source says %s, the independent evaluator %s on %s" % (m["doc"], exp, show(c)))
        # tie 1
        n_tie += 1
        mb = [] if m.get("bound") is None else [m["bound"]]
        if r["outcome"] != m["outcome"] or (r["outcome"] == "ok" and (r["returned"] != m["returned"] or r["bounds"] != mb)):
            chk.violation("tie-model", dict(rep, model=m, real=r),
                          "model (%s, returns %s, bound %s) vs expansion (%s, returns %s, bounds %s) on %s" %
                          (m["outcome"], m["returned"], mb, r["outcome"], r.get("returned"), r.get("bounds"), show(c)))
        if kind != "struct" and r["outcome"] == "ok" and m.get("enum") and \
                (m["enum"][0] != "ok" or m["enum"][1] != m["returned"] or m["enum"][2] is not None):
            chk.violation("tie-model", dict(rep, model=m), "render_enum disagrees with the per-variant expansion on %s" % show(c))
        # provide(): model vs expansion, Coq spec vs independent evaluator, expansion vs documented rules
        if kind != "ignored_variant":
            mp = m["provide"]
            dp = doc_provide(shape, fields)
            if mp["doc_backtrace"] != doc_backtrace(shape, fields) or mp["doc_provide"] != dp:
                chk.violation("spec-oracle-mismatch", dict(rep, coq=[mp["doc_backtrace"], mp["doc_provide"]],
                                                           evaluator=[doc_backtrace(shape, fields), dp]),
                              "Coq documented_backtrace/provide vs the independent evaluator on %s" % show(c))
            if r["outcome"] == "ok":
                n_prov += 1
                if mp["outcome"] != "ok" or tuple(mp["provided"]) != tuple(r["provided"]):
                    chk.violation("tie-model-provide", dict(rep, model=mp, real=r["provided"]),
                                  "model provide() offers %s, the expansion %s on %s" % (mp["provided"], r["provided"], show(c)))
                if dp != "ambiguous" and tuple(r["provided"]) != tuple(dp):
                    emit(cid, "provide-wrong-field", dict(rep, observed={"provide_offers": r["provided"]}, documented_provide=dp),
                         "%s: provide() offers (backtrace by reference, forwarded source) = %s, the documented rules say %s" %
                         (show(c), r["provided"], dp))
        # regression coverage: layouts on which the code before commit 6329c3f (Model.expand_old) misbehaved
        if kind != "ignored_variant":
            old = m["old"]
            if old["outcome"] == "panic":
                chk.bump("regression:infer-source-index-panic")
            elif old["outcome"] == "ok" and exp != "ambiguous" and old["returned"] != exp:
                chk.bump("regression:" + classify(c, "ok", old["returned"], exp))
            elif old["outcome"] == "ok" and m["outcome"] == "ok" and old["bound"] != m["bound"]:
                chk.bump("regression:bound-on-wrong-field")
        # static oracle
        if r["outcome"] == "panic":
            skipped["panic"] += 1
            emit(cid, classify(c, "panic", None, exp), dict(rep, observed="panic: " + r["msg"]),
                          "%s: the derive panics (%s); documented: %s" % (show(c), r["msg"], exp))
            continue
        if r["outcome"] == "err":
            skipped["rejected"] += 1
            if exp != "ambiguous":
                if doc_backtrace_ambiguous(shape, fields) or kind == "ignored_variant":
                    chk.bump("rejected: backtrace ambiguous, source determined")
                else:
                    emit(cid, "rejected-unambiguous", dict(rep, observed="compile error: " + r["msg"]),
                                  "%s is rejected (%s) although the documented rules determine the source: %s" % (show(c), r["msg"], exp))
            continue
        if exp == "ambiguous" or r["returned"] != exp:
            deferred[cid] = (classify(c, "ok", r["returned"], exp), dict(rep, observed={"expansion_returns": r["returned"]}),
                             "%s: the expansion returns field %s, the documented rules select %s" % (show(c), r["returned"], exp))
        want_b = [r["returned"]] if isinstance(r["returned"], int) and fields[r["returned"]][1] == "gen" else []
        if r["bounds"] != want_b:
            emit(cid, "bound-on-wrong-field", dict(rep, observed={"returned": r["returned"], "bounds": r["bounds"]}, expected_bounds=want_b),
                          "%s: source() returns field %s but the `Error + 'static` bound is on %s (expected %s)" %
                          (show(c), r["returned"], ["T%s" % b for b in r["bounds"]], ["T%d" % b for b in want_b]))
            if want_b and want_b[0] not in r["bounds"]:
                skipped["missing-bound"] += 1
                if cid in deferred:
                    emit(cid, *deferred.pop(cid))
                continue                     # `as_dyn_error` on an unbounded T cannot compile
        # compilable?
        realbt = set()
        if r["provide"]:
            src = r["returned"]
            if r["provide_source"] and isinstance(src, int) and fields[src][1] == "box":
                skipped["provide-through-box"] += 1      # `Error::provide(&Box<dyn Error>, ..)`: user-side type error
                if cid in deferred:
                    emit(cid, *deferred.pop(cid))
                continue
            if r["bt_field"] is not None:
                if not isinstance(r["bt_field"], int) or fields[r["bt_field"]][1] != "bt":
                    skipped["provide-type-mismatch"] += 1  # `provide_ref::<Backtrace>(&<not a Backtrace>)`
                    if cid in deferred:
                        emit(cid, *deferred.pop(cid))
                    continue
                realbt = {r["bt_field"]}
            nightly.append((cid, realbt))
        else:
            stable.append((cid, realbt))

    # ---- whole enums: expansion, model, static oracle
    EN = 1000000
    e_real = [m_read(vs, r) for vs, r in
              zip(enums, common.run_jsonl(inproc, [{"cmd": "expand", "derive": "Error", "item": m_item(vs)} for vs in enums]))]
    e_exprs = ["[" + "; ".join(m_coq(vs) for vs in enums[i:i + 40]) + "]" for i in range(0, len(enums), 40)]
    e_model = [m_model(t) for lst in common.coq_eval(["Verif.C09.Model"], e_exprs, preamble="Close Scope N_scope.", batch=4, tag="c09e")
               for t in lst]
    e_stable, e_nightly, e_confirm = [], [], []
    e_skipped = {"rejected": 0, "panic": 0, "provide-type-mismatch": 0, "provide-through-box": 0, "not-exhaustive": 0, "missing-bound": 0}
    for k, (vs, r, m) in enumerate(zip(enums, e_real, e_model)):
        cid = EN + k
        exp = m_expected(vs)
        nign = sum(1 for v in vs if v[0])
        chk.count(("enum", vs), True)
        chk.bump("enum/%d variants/%d ignored" % (len(vs), nign))
        rep = {"enum": [[v[0], v[1], [list(f) for f in v[2]]] for v in vs], "item": m_show(vs), "documented": exp}
        if r["outcome"] in ("harness-failure", "unreadable") or any(isinstance(x, str) for x in r.get("returned", [])):
            chk.violation("expansion-unreadable", dict(rep, real={k2: (sorted(v2) if isinstance(v2, set) else v2) for k2, v2 in r.items()}),
                          "cannot read the expansion of %s: %s" % (m_show(vs), r.get("msg") or r.get("returned")))
            continue
        n_tie += 1
        # tie: model vs expansion
        same = r["outcome"] == m["outcome"] and (r["outcome"] != "ok" or (
            r["has_fn"] == m["has_fn"] and r["wildcard"] == m["wildcard"] and r["returned"] == m["returned"] and
            [tuple(b) for b in r["bounds"]] == [tuple(b) for b in m["bounds"]]))
        if not same:
            chk.violation("tie-model-enum", dict(rep, model=m, real={k2: (sorted(v2) if isinstance(v2, set) else v2) for k2, v2 in r.items()}),
                          "model (%s, fn %s, wildcard %s, returns %s, bounds %s) vs expansion (%s, fn %s, wildcard %s, returns %s, bounds %s) on %s" %
                          (m["outcome"], m["has_fn"], m["wildcard"], m["returned"], m["bounds"], r["outcome"], r.get("has_fn"),
                           r.get("wildcard"), r.get("returned"), r.get("bounds"), m_show(vs)))
        if m["outcome"] == "ok" and not (m["exhaustive"] and m["provide"]["exhaustive"]):
            chk.violation("model-match-not-exhaustive", dict(rep, model=m), "the model emits a non-exhaustive match for %s" % m_show(vs))
        if r["outcome"] == "ok":
            mp = m["provide"]
            n_prov += 1
            if mp["outcome"] != "ok" or mp["has_fn"] != r["provide"] or (r["provide"] and mp["wildcard"] != bool(r["provide_wildcard"])) or \
                    [tuple(x) for x in mp["provided"]] != [tuple(x) for x in r["provided"]]:
                chk.violation("tie-model-provide", dict(rep, model=mp, real={"provide": r["provide"], "wildcard": r["provide_wildcard"],
                                                                             "provided": r["provided"]}),
                              "model provide() (fn %s, wildcard %s, offers %s) vs expansion (fn %s, wildcard %s, offers %s) on %s" %
                              (mp["has_fn"], mp["wildcard"], mp["provided"], r["provide"], r["provide_wildcard"], r["provided"], m_show(vs)))
            if exp != "ambiguous":
                wantp = [(None, None) if v[0] else doc_provide(v[1], v[2]) for v in vs]
                if "ambiguous" not in wantp and [tuple(x) for x in r["provided"]] != [tuple(x) for x in wantp]:
                    emit(cid, "provide-wrong-field", dict(rep, observed={"provide_offers": r["provided"]}, documented_provide=wantp),
                         "%s: provide() offers %s per variant, the documented rules say %s" % (m_show(vs), r["provided"], wantp))
        # oracle on the expansion
        if r["outcome"] == "panic":
            e_skipped["panic"] += 1
            emit(cid, "derive-panics-on-enum", dict(rep, observed="panic: " + r["msg"]), "%s: the derive panics (%s)" % (m_show(vs), r["msg"]))
            continue
        if r["outcome"] == "err":
            e_skipped["rejected"] += 1
            if exp != "ambiguous":
                if any((not v[0]) and doc_backtrace_ambiguous(v[1], v[2]) for v in vs):
                    chk.bump("rejected: backtrace ambiguous, source determined")
                else:
                    emit(cid, "rejected-unambiguous", dict(rep, observed="compile error: " + r["msg"]),
                         "%s is rejected (%s) although the documented rules determine every variant's source: %s" % (m_show(vs), r["msg"], exp))
            continue
        if exp == "ambiguous":
            emit(cid, "ambiguous-accepted", dict(rep, observed={"expansion_returns": r["returned"]}),
                 "%s: an enabled variant is ambiguous but the derive is accepted (expansion returns %s)" % (m_show(vs), r["returned"]))
            continue
        bad = [v for v in range(len(vs)) if r["returned"][v] != exp[v]]
        if bad:
            v = bad[0]
            cls = "ignored-variant-has-source" if vs[v][0] else classify(("variant", vs[v][1], vs[v][2]), "ok", r["returned"][v], exp[v])
            deferred[cid] = (cls, dict(rep, observed={"expansion_returns": r["returned"]}),
                             "%s: for V%d the expansion returns field %s, the documented rules select %s" % (m_show(vs), v, r["returned"][v], exp[v]))
        want_b = sorted([(v, r["returned"][v]) for v in range(len(vs))
                         if isinstance(r["returned"][v], int) and vs[v][2][r["returned"][v]][1] == "gen"], key=str)
        if [tuple(b) for b in r["bounds"]] != want_b:
            emit(cid, "bound-on-wrong-field", dict(rep, observed={"returned": r["returned"], "bounds": r["bounds"]}, expected_bounds=want_b),
                 "%s: source() returns %s but the `Error + 'static` bounds are on %s (expected %s)" % (m_show(vs), r["returned"], r["bounds"], want_b))
            if any(b not in [tuple(x) for x in r["bounds"]] for b in want_b):
                e_skipped["missing-bound"] += 1
                if cid in deferred:
                    emit(cid, *deferred.pop(cid))
                continue
        # exhaustiveness of the emitted `match self` (rustc: E0004): a wildcard, or an arm for every variant
        uncovered = [v for v in range(len(vs)) if r["returned"][v] is None]
        if r["has_fn"] and not r["wildcard"] and uncovered:
            e_skipped["not-exhaustive"] += 1
            what = "ignored variant" if all(vs[v][0] for v in uncovered) else "source-less variant"
            emit(cid, "enum-match-not-exhaustive" + ("-ignored-variant" if all(vs[v][0] for v in uncovered) else ""),
                 dict(rep, observed={"expansion": "match self without `_ => None`", "variants_without_arm": uncovered,
                                     "expansion_returns": r["returned"]}),
                 "%s: the generated `match self` in source() has no `_ => None` arm and no arm for the %s V%s: the derive does not "
                 "compile (E0004) although source() must be None there" % (m_show(vs), what, uncovered))
            e_confirm.append((cid, frozenset(r["real"]), r["provide"]))
            if cid in deferred:
                emit(cid, *deferred.pop(cid))
            continue
        if r["provide"] and r["provide_wildcard"] is False and len(r["provide_arms"]) < len(vs):
            e_skipped["not-exhaustive"] += 1
            emit(cid, "enum-provide-match-not-exhaustive", dict(rep, observed={"provide_arms": r["provide_arms"]}),
                 "%s: the generated `match self` in provide() covers only V%s and has no `_ => ()` arm: the derive does not compile" %
                 (m_show(vs), r["provide_arms"]))
            e_confirm.append((cid, frozenset(r["real"]), r["provide"]))
            if cid in deferred:
                emit(cid, *deferred.pop(cid))
            continue
        if not r["compilable"]:
            e_skipped[r["why"]] += 1
            if cid in deferred:
                emit(cid, *deferred.pop(cid))
            continue
        (e_nightly if r["provide"] else e_stable).append((cid, frozenset(r["real"])))

    # ---- field types: which types get the bound / count as `Backtrace` (model of utils.rs vs the real derive)
    n_types = n_types_tied = 0
    if not replay:
        n_types, n_types_tied = run_types(chk, inproc, tier)
        n_tie += n_types_tied

    # ---- run time: the real proc-macro, rustc, execution
    if tier == "quick" and not replay:
        cap_s, cap_n = 5000, 2000
        keep = set(range(len(CORPUS)))
        if len(stable) > cap_s:
            rest = [x for x in stable if x[0] not in keep]
            stable = [x for x in stable if x[0] in keep] + chk.rng.sample(rest, min(cap_s, len(rest)))
        if len(nightly) > cap_n:
            rest = [x for x in nightly if x[0] not in keep]
            nightly = [x for x in nightly if x[0] in keep] + chk.rng.sample(rest, min(cap_n, len(rest)))
        stable.sort()
        nightly.sort()
    compiled = set(x[0] for x in stable + nightly + e_stable + e_nightly)
    for cid in sorted(deferred):
        if cid not in compiled:
            emit(cid, *deferred.pop(cid))
    chk.log("expansions read: %d; compiling %d layouts + %d enums on stable, %d + %d on nightly (skipped %s, enums %s)" %
            (n_tie, len(stable), len(e_stable), len(nightly), len(e_nightly), skipped, e_skipped))

    def module(cid, rb):
        return m_module(cid, enums[cid - EN], rb) if cid >= EN else render_module(cid, cases[cid], rb)

    def job(a):
        name, tc, lst, nb = a
        return build_and_run(chk, name, tc, [(cid, module(cid, rb)) for cid, rb in lst], nb)
    with ThreadPoolExecutor(max_workers=2) as ex:
        (obs_s, fail_s), (obs_n, fail_n) = ex.map(job, [("c09rt", "stable", stable + e_stable, 10 if tier == "quick" else 16),
                                                     ("c09rtn", "nightly", nightly + e_nightly, 5 if tier == "quick" else 12)])
    obs = dict(obs_s)
    obs.update(obs_n)
    n_rt = 0
    # rustc's own word on the enums whose expansion reads as non-exhaustive (at most 3, in a crate of their own)
    if e_confirm:
        for tc, lst in (("stable", [x for x in e_confirm if not x[2]][:3]), ("nightly", [x for x in e_confirm if x[2]][:3])):
            if lst:
                o_c, f_c = build_and_run(chk, "c09cf", tc, [(cid, module(cid, rb)) for cid, rb, _ in lst], 1)
                for cid, _, _ in lst:
                    for (vc, args) in verdicts:
                        if vc == cid and args[0].startswith("enum-"):
                            args[1]["rustc"] = f_c.get(cid, "compiled: %s" % o_c.get(cid))
        common.cleanup_scratch("c09cf")
    for cid, msg in list(fail_s.items()) + list(fail_n.items()):
        if cid >= EN:
            vs = enums[cid - EN]
            chk.violation("enum-does-not-compile", {"enum": [[v[0], v[1], [list(f) for f in v[2]]] for v in vs], "item": m_show(vs),
                                                     "documented": m_expected(vs), "rustc": msg},
                          "%s: a documented-valid enum is accepted by the derive but its expansion does not compile: %s" % (m_show(vs), msg[:300]))
            if cid in deferred:
                emit(cid, *deferred.pop(cid))
            continue
        c = cases[cid]
        chk.violation("expansion-does-not-compile", {"case": [c[0], c[1], [list(f) for f in c[2]]], "item": show(c), "rustc": msg},
                      "%s: the accepted expansion does not compile: %s" % (show(c), msg[:300]))
        if cid in deferred:
            emit(cid, *deferred.pop(cid))
    for cid, rb in stable + nightly:
        if cid in fail_s or cid in fail_n:
            continue
        c = cases[cid]
        kind, shape, fields = c
        r = real[cid]
        exp = expected(c)
        o = obs.get(cid)
        rep = {"case": [kind, shape, [list(f) for f in fields]], "item": show(c), "documented": exp}
        if o is None or "V" not in o:
            chk.violation("no-observation", rep, "no run-time observation for %s" % show(c), no_input=True)
            if cid in deferred:
                emit(cid, *deferred.pop(cid))
            continue
        n_rt += 1
        v = o["V"]
        got = None if v == "None" else (int(v[5:-1]) if re.match(r"^Some\(\d+\)$", v) else v)
        chk.sample({"item": show(c), "source()": v, "documented": exp}, limit=12)
        if got != r["returned"]:
            chk.violation("tie-layer2", dict(rep, observed=v, expansion_returns=r["returned"]),
                          "%s: source() returns %s at run time but the expansion reads as field %s" % (show(c), v, r["returned"]))
        if got != exp:
            emit(cid, classify(c, "ok", got, exp),
                          dict(rep, observed={"source()_by_address": v, "expansion_returns": r["returned"],
                                              "toolchain": "nightly" if r["provide"] else "stable"}),
                          "%s: source() returns %s (address comparison at run time), the documented rules select %s" %
                          (show(c), "field " + v[5:-1] if v.startswith("Some(") else v, "field %s" % exp if exp is not None else "None"))
            deferred.pop(cid, None)
        elif cid in deferred:
            emit(cid, *deferred.pop(cid))
        if kind != "struct" and o.get("U") != "None":
            chk.violation("unit-variant-has-source", dict(rep, observed=o.get("U")), "E::U.source() is %s for %s" % (o.get("U"), show(c)))
    for cid, rb in e_stable + e_nightly:
        if cid in fail_s or cid in fail_n:
            continue
        vs = enums[cid - EN]
        r = e_real[cid - EN]
        exp = m_expected(vs)
        o = obs.get(cid, {})
        rep = {"enum": [[v[0], v[1], [list(f) for f in v[2]]] for v in vs], "item": m_show(vs), "documented": exp}
        got = []
        for v in range(len(vs)):
            x = o.get("V%d" % v)
            got.append("missing" if x is None else None if x == "None" else (int(x[5:-1]) if re.match(r"^Some\(\d+\)$", x) else x))
        if "missing" in got:
            chk.violation("no-observation", rep, "no run-time observation for some variant of %s: %s" % (m_show(vs), got), no_input=True)
            if cid in deferred:
                emit(cid, *deferred.pop(cid))
            continue
        n_rt += len(vs)
        chk.sample({"item": m_show(vs), "source() per variant": got, "documented": exp}, limit=16)
        if got != r["returned"]:
            chk.violation("tie-layer2", dict(rep, observed=got, expansion_returns=r["returned"]),
                          "%s: source() returns %s at run time but the expansion reads as %s" % (m_show(vs), got, r["returned"]))
        bad = [v for v in range(len(vs)) if got[v] != exp[v]]
        if bad:
            v = bad[0]
            cls = "ignored-variant-has-source" if vs[v][0] else classify(("variant", vs[v][1], vs[v][2]), "ok", got[v], exp[v])
            emit(cid, cls, dict(rep, observed={"source()_by_address_per_variant": got, "expansion_returns": r["returned"]}),
                 "%s: on V%d source() returns %s (address comparison at run time), the documented rules select %s" %
                 (m_show(vs), v, got[v], exp[v]))
            deferred.pop(cid, None)
        elif cid in deferred:
            emit(cid, *deferred.pop(cid))
    for cid, args in sorted(verdicts, key=lambda x: x[0]):
        chk.violation(*args)
    chk.cov["traces_validated_against_impl"] = n_tie
    chk.cov["runtime_observations"] = n_rt
    chk.cov["not_compiled"] = skipped
    chk.cov["provide_expansions_tied"] = n_prov
    chk.cov["field_types_tied"] = n_types_tied
    chk.cov["enums"] = len(enums)
    chk.cov["enums_compiled"] = len(e_stable) + len(e_nightly)
    chk.cov["enums_not_compiled"] = e_skipped
    chk.log("run-time observations: %d" % n_rt)
    common.cleanup_scratch("c09rt")
    common.cleanup_scratch("c09rtn")

    if getattr(chk, "proof_broken", False) and not chk.violations:
        chk.violation("proof-broken", chk.proof_failure, "a C09 proof obligation no longer checks: %s" %
                      chk.proof_failure["failed"], no_input=True)
    elif getattr(chk, "proof_broken", False):
        chk.notes.append("proof obligation broken at %s; failing inputs found by the differential run" % chk.proof_failure["failed"])

    return chk.finish(
        proof=st,
        rule="layouts = {struct, enum variant (+ unit variant U), ignored variant} x {named, tuple} x 0..3 fields x "
             "{-, source, not(source), backtrace, not(backtrace), ignore} x {Inner, a type named Backtrace, Box<dyn Error>, "
             "type parameter} x names {source, backtrace, other}: exhaustive for 0..1 fields and 2-field tuples, seeded samples "
             "of 2-field named (3000) and 3-field layouts (2000 + 2000) (thorough: exhaustive to 2 fields and for 3-field tuples, "
             "40000 sampled 3-field named layouts) + hand corpus; every "
             "+ multi-variant enums: every sequence of length 1..3 (thorough 1..4) over {variant with source, without source, "
             "ignored with / without a would-be source} x 7 (25) random concretisations, every order of {source, ignored...} "
             "with all enabled variants having a source, 40 (400) enums with one ambiguous enabled variant, a hand corpus; every "
             "+ field types: a 40-entry corpus + 700 (6000) random type trees of depth <= 3 for the bound/Backtrace predicates; every "
             "layout goes through the in-process expansion and the Coq model (source, bound, backtrace, provide), the compilable ones through rustc (stable; nightly "
             "when the expansion has `provide`) and are executed; non-trivial = a field is selected, or an attribute is present, "
             "or the derive is rejected/panics; distinct by layout",
        trusted=TRUSTED)


META = {
    "level": "proof",
    "technique": "Coq proof about a two-index-space model of derive(Error)'s source selection + differential correspondence "
                 "with the real expansion + address-comparison oracle on the compiled macro",
    "text": "Theorems over unbounded field lists about an executable Gallina model of impl/src/error.rs (parse_field_impl, "
            "parse_fields, infer_source_field, render_source_as_struct / match arm through MultiFieldData::matcher, bound "
            "insertion) against `documented_source`, written from impl/doc/error.md: the documented rules are insensitive to "
            "ignored fields and so is the generated code, ambiguous layouts are always rejected, the None cases, selection "
            "and bound correctness and absence of index panics for every layout (enabled-space positions are translated "
            "through field_indexes before they reach the all-fields pattern), and for whole enums: the emitted match is "
            "exhaustive (wildcard iff some variant of ALL variants has no arm) and ignored variants return None; the derive is "
            "rejected exactly on a documented ambiguity of source or backtrace; provide() offers the documented backtrace and "
            "forwards to the documented source; the type walk that decides the bound is characterised by the identifiers it "
            "visits. The model is re-tied on every run to the real expansion of every "
            "generated layout, and source() of the compiled real macro is compared by address with the fields of the value.",
    "note": "Trusted: Coq kernel/vm_compute; the hand model (tied by differential runs); the reading of the emitted code "
            "(validated by execution); the Python evaluator of the documented rules (cross-checked against the Coq spec). "
            "Layouts whose expansion contains `provide` need nightly (error.rs emits it unconditionally); layouts where "
            "`provide` itself cannot type-check (backtrace field not a Backtrace, source behind Box) are checked on the "
            "expansion only.",
    "design_ref": "DESIGN.md section 3 / C09",
}
