"""C14 - delegating derives (Deref, DerefMut, AsRef, AsMut, Index, IndexMut, IntoIterator) expose the selected
field itself.

proofs : coq/theories/C14 (selection <-> designated field modulo refuted shapes on which the macro REJECTS (diagnostic, never a wrong field); direct = the field's address
         and writes land there; forward/index/iteration/listed types = the field type's own impl on that field;
         AsRef identity for listed types equal to the field type; impl sets)
tie    : Coq model (common.coq_eval) vs the real expanders (in-process `expand`, canonicalised impl summaries:
         trait, self kind, associated types, body term, generic parameters and where-predicates of the impl header)
         on every generated struct / enum / union
oracle : (a) an independent Python evaluator of the doc/property rules decides which field is designated and
         whether a call is direct / forwarded / identity; (b) the REAL proc-macro compiled by rustc in a generated
         crate: ptr::eq between what the derived impl returns and the designated field (or what the field's own
         impl returns when called directly), writes through mutable forms observed per field, iteration
         elements/order for owned / & / &mut.  Neighbouring fields have EQUAL types, so only the address tells
         them apart.
"""
import itertools
import json
import os
import re

from lib import common

TRUSTED = [
    "Coq 8.16.1 kernel + vm_compute (coqc full .vo build); no axioms (Print Assumptions: closed)",
    "hand-written Gallina model coq/theories/C14/Model.v of utils.rs State/get_meta_info, deref*.rs, index*.rs, "
    "into_iterator.rs, as/mod.rs, src/as.rs - tied to the code by the differential run (cases.v + vm_compute vs "
    "in-process expand)",
    "Layer-2 semantics of the emitted expressions (Model.eval: `&self.i` is the address of field i, "
    "`<T as Tr>::m(&self.i)` is T's own impl, autoref specialisation picks the identity impl iff the types are equal "
    "for rustc) - exercised against rustc by the run-time corpus (ptr::eq, write-through, element order)",
    "tools/props/c14.py: generators, renderers (Rust / Coq), canonicaliser of impl summaries, the Python doc-rule "
    "evaluator; harness/inproc (syn-based summary); cargo/rustc 1.95",
]

NAMES = ["a", "b", "c", "d"]

# ------------------------------------------------------------------ types (Python AST <-> Rust <-> Coq <-> canonical)

IDS = {}


def nid(name):
    if name not in IDS:
        IDS[name] = len(IDS) + 1
    return IDS[name]


def tid(n):
    return ("id", n)


def tapp(h, *args):
    return ("app", h, list(args))


def tqual(*segs):
    return ("qual", list(segs))


def rust_ty(t):
    k = t[0]
    if k == "id":
        return t[1]
    if k == "qual":
        return "::".join(t[1])
    if k == "app":
        args = list(t[2])
        while t[1][0] == "app":
            t = t[1]
            args = list(t[2]) + args
        return rust_ty(t[1]) + "<" + ", ".join(rust_ty(a) for a in args) + ">"
    if k == "ref":
        return "&" + (("'" + t[1] + " ") if t[1] else "") + ("mut " if t[2] else "") + rust_ty(t[3])
    if k == "slice":
        return "[" + rust_ty(t[1]) + "]"
    if k == "array":
        return "[" + rust_ty(t[1]) + "; " + str(t[2]) + "]"
    if k == "paren":
        return "(" + rust_ty(t[1]) + ")"
    if k == "raw":                        # Rust source the Coq type language does not cover (dyn / fn types)
        return t[1]
    raise ValueError(t)


def has_raw(t):
    if t[0] == "raw":
        return True
    return any(has_raw(x) for x in t[1:] if isinstance(x, tuple)) or \
        any(has_raw(y) for x in t[1:] if isinstance(x, list) for y in x if isinstance(y, tuple))


def canon_s(s):
    return re.sub(r"\s+", "", s)


def canon_ty(t):
    return canon_s(rust_ty(t))


def coq_ty(t):
    k = t[0]
    if k == "id":
        return "(TId %d)" % nid(t[1])
    if k == "qual":
        return "(TQual [%s])" % "; ".join(str(nid(s)) for s in t[1])
    if k == "app":
        r = coq_ty(t[1])
        for a in t[2]:
            r = "(TApp %s %s)" % (r, coq_ty(a))
        return r
    if k == "ref":
        return "(TRef %s %s %s)" % ("(Some %d)" % nid("'" + t[1]) if t[1] else "None", "true" if t[2] else "false", coq_ty(t[3]))
    if k == "slice":
        return "(TSlice %s)" % coq_ty(t[1])
    if k == "array":
        n = t[2]
        return "(TArray %s %s)" % (coq_ty(t[1]), "(LenLit %d)" % n if isinstance(n, int) else "(LenId %d)" % nid(n))
    if k == "paren":
        return "(TParen %s)" % coq_ty(t[1])
    raise ValueError(t)


def coq_ty_back(t, names):
    """parsed Coq ty -> canonical string"""
    k = t[0]
    if k == "TId":
        return names[t[1]]
    if k == "TQual":
        return "::".join(names[x] for x in t[1])
    if k == "TApp":
        args = []
        while isinstance(t, tuple) and t[0] == "TApp":
            args.append(t[2])
            t = t[1]
        return coq_ty_back(t, names) + "<" + ",".join(coq_ty_back(a, names) for a in reversed(args)) + ">"
    if k == "TRef":
        lt = "" if t[1] == "None" else names[t[1][1]]
        return "&" + lt + ("mut" if t[2] == "true" else "") + coq_ty_back(t[3], names)
    if k == "TSlice":
        return "[" + coq_ty_back(t[1], names) + "]"
    if k == "TArray":
        n = t[2]
        return "[" + coq_ty_back(t[1], names) + ";" + (str(n[1]) if n[0] == "LenLit" else names[n[1]]) + "]"
    if k == "TParen":
        return "(" + coq_ty_back(t[1], names) + ")"
    raise ValueError(t)


def subst(t, name, by):
    k = t[0]
    if k == "id":
        return by if t[1] == name else t
    if k == "qual":
        return t
    if k == "app":
        return ("app", subst(t[1], name, by), [subst(a, name, by) for a in t[2]])
    if k == "ref":
        return ("ref", t[1], t[2], subst(t[3], name, by))
    if k in ("slice", "paren"):
        return (k, subst(t[1], name, by))
    if k == "array":
        return ("array", subst(t[1], name, by), t[2])
    if k == "raw":
        return ("raw", re.sub(r"(?<![\w])%s(?![\w])" % name, rust_ty(by), t[1]))
    raise ValueError(t)


# the independent (Python) notion of "the same type for rustc": aliases, parentheses, `crate::`
def py_norm(t):
    k = t[0]
    if k == "id":
        return ("id", {"FldAlias": "Fld"}.get(t[1], t[1]))
    if k == "qual":
        segs = [s for s in t[1] if s != "crate"]
        return py_norm(("id", segs[0])) if len(segs) == 1 else ("qual", segs)
    if k == "app":
        h = py_norm(t[1])
        if h == ("id", "GAlias"):
            h = ("id", "G")
        if h in (("id", "GL"), ("id", "GLAlias")):      # type GL<A, B> = G<A> (through a projection)
            return ("app", ("id", "G"), [py_norm(t[2][0])])
        if h == ("id", "GM"):                            # type GM<'a, T, N> = G<T>
            return ("app", ("id", "G"), [py_norm(t[2][1])])
        return ("app", h, [py_norm(a) for a in t[2]])
    if k == "paren":
        return py_norm(t[1])
    if k == "ref":
        return ("ref", t[1], t[2], py_norm(t[3]))
    if k == "slice":
        return ("slice", py_norm(t[1]))
    if k == "array":
        return ("array", py_norm(t[1]), t[2])
    if k == "raw":
        return t
    raise ValueError(t)


def mentions(t, names):
    """does an identifier of `names` occur anywhere in the type (docs: "contains generic parameters")"""
    return any(re.search(r"(?<![\w])%s(?![\w])" % re.escape(n), rust_ty(t)) for n in names)


FLAVOURS = {
    # name: (generics source, type params, field type, instantiated struct type, type-parameter instance)
    "fld": ("", [], tid("Fld"), "S", None),
    "g": ("<T>", ["T"], tapp(tid("G"), tid("T")), "S<u32>", tid("u32")),
    "t": ("<T>", ["T"], tid("T"), "S<Fld>", tid("Fld")),
    # a second generic wrapper (its inherent `into_iter` takes `&self`); State-based derives only
    "h": ("<T>", ["T"], tapp(tid("H"), tid("T")), "S<u32>", tid("u32")),
}
STATIC_STR = ("ref", "static", False, tid("str"))


def gl(name, second):
    return tapp(tid(name), tid("T"), second)


FLAVOURS.update({
    # a struct generic only in a CONST parameter (which may stay unused): the field type is NOT generic, listed
    # types may or may not mention `N` - per listed type Forwarded vs Specialized within one list
    "c": ("<const N: usize>", [], tid("Fld"), "S<2>", None),
    # field types that mention the type parameter BEFORE a lifetime that is not a struct parameter
    # (`type GL<A, B> = G<A>`): in path arguments, under a trait-object bound, in a fn type
    "l": ("<T>", ["T"], gl("GL", STATIC_STR), "S<u32>", tid("u32")),
    "ld": ("<T>", ["T"], gl("GL", ("raw", "Box<dyn Fn(u8) + 'static>")), "S<u32>", tid("u32")),
    "lf": ("<T>", ["T"], gl("GL", ("raw", "fn(&'static str) -> &'static str")), "S<u32>", tid("u32")),
})
# lifetime + type + const parameters together (`type GM<'a, T, const N: usize> = G<T>`, all three used)
GM = ("app", tid("GM"), [("raw", "'a"), tid("T"), tid("N")])
FLAVOURS["m"] = ("<'a, T, const N: usize>", ["T"], GM, "S<'static, u32, 2>", tid("u32"))
CONSTS = {"c": ["N"], "m": ["N"]}
LIFETIMES = {"m": ["a"]}
STATE_FLAVOURS = ("fld", "g", "t", "h", "c", "m")
AS_FLAVOURS = ("fld", "g", "t", "c", "l", "ld", "lf", "m")
SMALL_FLAVOURS = ("ld", "lf", "m")        # no Coq rendering of their field type: oracle + run time only
CTOR = {"fld": "G", "g": "G", "t": "G", "h": "H", "c": "G", "l": "G", "ld": "G", "lf": "G", "m": "G"}

# candidate listed types per flavour
AS_TYPES = {
    "fld": [tid("Fld"), tid("FldAlias"), ("paren", tid("Fld")), tqual("crate", "Fld"), tid("Inner"), ("slice", tid("u32"))],
    "g": [tapp(tid("G"), tid("T")), tapp(tid("GAlias"), tid("T")), tapp(tqual("crate", "G"), tid("T")), tid("Inner"),
          ("slice", tid("T"))],
    "t": [tid("T"), tid("Inner"), tid("Fld"), ("slice", tid("u32"))],
    "c": [tid("Fld"), tid("FldAlias"), tqual("crate", "Fld"), tid("Inner"), ("slice", tid("u32")),
          ("array", tid("u32"), "N"), ("array", tid("u32"), 2)],
}
AS_TYPES["m"] = [GM, tapp(tid("G"), tid("T")), tid("Inner"), ("slice", tid("T")), ("array", tid("T"), "N")]
for _f in ("l", "ld", "lf"):
    _second = FLAVOURS[_f][2][2][1]
    AS_TYPES[_f] = [gl("GL", _second), gl("GLAlias", _second), tapp(tid("G"), tid("T")), tid("Inner"), ("slice", tid("T")),
                    tid("str")]


def c_fty(case):
    return case["x"]["fty"] if "x" in case else FLAVOURS[case["flavour"]][2]


def c_gen(case):
    """(source of the generics, type params, lifetime params, const params)"""
    if "x" in case:
        g = case["x"]
        return (g["src"], g["types"], g["lifetimes"], g["consts"])
    f = FLAVOURS[case["flavour"]]
    return (f[0], f[1], LIFETIMES.get(case["flavour"], []), CONSTS.get(case["flavour"], []))


def inst_len(t, name, val):
    """instantiate a const parameter used as an array length"""
    k = t[0]
    if k == "array":
        return ("array", inst_len(t[1], name, val), val if t[2] == name else t[2])
    if k == "app":
        return ("app", inst_len(t[1], name, val), [inst_len(a, name, val) for a in t[2]])
    if k == "ref":
        return ("ref", t[1], t[2], inst_len(t[3], name, val))
    if k in ("slice", "paren"):
        return (k, inst_len(t[1], name, val))
    return t


def inst_raw(t, a, b):
    if t[0] == "raw":
        return ("raw", t[1].replace(a, b))
    if t[0] == "app":
        return ("app", inst_raw(t[1], a, b), [inst_raw(x, a, b) for x in t[2]])
    if t[0] in ("slice", "paren"):
        return (t[0], inst_raw(t[1], a, b))
    if t[0] == "array":
        return ("array", inst_raw(t[1], a, b), t[2])
    return t


def inst(flav, t):
    if flav == "c":
        return inst_len(t, "N", 2)
    if flav == "m":
        return inst_raw(inst_len(subst(subst(t, "T", tid("u32")), "N", tid("2")), "N", 2), "'a", "'static")
    by = FLAVOURS[flav][4]
    return t if by is None else subst(t, "T", by)


def rt_class(flav, t):
    """which run-time type a listed type is, once instantiated: 'fld' (= G<u32>), 'inner', 'slice'"""
    n = py_norm(inst(flav, t))
    if n in (("id", "Fld"), ("app", ("id", "G"), [("id", "u32")])):
        return "fld"
    if n == ("id", "Inner"):
        return "inner"
    if n == ("slice", ("id", "u32")):
        return "slice"
    if n == ("array", ("id", "u32"), 2):
        return "arr"
    if n == ("id", "str"):
        return "str"
    raise ValueError(n)


# ------------------------------------------------------------------ attributes

ATTR_NAME = {"Deref": "deref", "DerefMut": "deref_mut", "Index": "index", "IndexMut": "index_mut",
             "IntoIterator": "into_iterator", "AsRef": "as_ref", "AsMut": "as_mut"}
DKIND = {"Deref": "DDeref", "DerefMut": "DDerefMut", "Index": "DIndex", "IndexMut": "DIndexMut", "IntoIterator": "DIntoIter"}
PARAM_SRC = {"ignore": "ignore", "forward": "forward", "notforward": "not(forward)", "owned": "owned", "ref": "ref",
             "ref_mut": "ref_mut", "bogus": "bogus"}
PARAM_COQ = {"ignore": "PIgnore", "forward": "PForward", "notforward": "PNotForward", "owned": "POwned", "ref": "PRef",
             "ref_mut": "PRefMut", "bogus": "PUnknown"}
ALLOWED = {"Deref": {"ignore", "forward", "notforward"}, "DerefMut": {"ignore", "forward", "notforward"},
           "Index": {"ignore"}, "IndexMut": {"ignore"}, "IntoIterator": {"ignore", "owned", "ref", "ref_mut"}}


def attr_src(name, a):
    k = a[0]
    if k in ("bare", "empty"):
        return "#[%s]" % name
    if k == "list":
        return "#[%s(%s)]" % (name, ", ".join(PARAM_SRC[p] for p in a[1]))
    if k in ("nv", "malformed"):
        return '#[%s = "x"]' % name
    if k == "skip":
        return "#[%s(%s)]" % (name, a[1])
    if k == "forward":
        return "#[%s(forward)]" % name
    if k == "types":
        return "#[%s(%s)]" % (name, ", ".join(rust_ty(t) for t in a[1]))
    raise ValueError(a)


def attr_coq_state(a):
    if a[0] == "bare":
        return "ABare"
    if a[0] == "nv":
        return "ANameValue"
    return "(AList [%s])" % "; ".join(PARAM_COQ[p] for p in a[1])


def attr_coq_as(a, struct_level):
    k = a[0]
    if k == "forward":
        return "SForward" if struct_level else "FForward"
    if k == "types":
        return "(%s [%s])" % ("STypes" if struct_level else "FTypes", "; ".join(coq_ty(t) for t in a[1]))
    if k in ("malformed", "nv"):
        return "SMalformed" if struct_level else "FMalformed"
    if struct_level:
        if k == "empty":
            return "SMalformed"                       # bare `#[as_ref]` on the struct does not parse
        if k == "skip":
            return "(STypes [%s])" % coq_ty(tid(a[1]))  # `skip` is read as a type named `skip`
    if k == "empty":
        return "FEmpty"
    if k == "skip":
        return "FSkip"
    raise ValueError(a)


def item_src(case, pub=False, both=False):
    """Rust source of the struct. `both`: DerefMut/IndexMut need the immutable trait too (same attributes)."""
    d = case["derive"]
    names = [ATTR_NAME[d]]
    if both and d in ("DerefMut", "IndexMut"):
        names.insert(0, ATTR_NAME[d[:-3]])
    p = "pub " if pub else ""
    sat = " ".join(attr_src(n, a) for n in names for a in case["sattrs"])
    fty = rust_ty(c_fty(case))
    kind = case.get("kind", "struct")
    if kind == "union":
        return (sat + " " if sat else "") + "union S { a: u32, b: u32 }"
    if kind == "enum":
        vs = []
        for k, (vat, vnamed, vfields) in enumerate(case["variants"]):
            fs = []
            for j, fa in enumerate(vfields):
                at = " ".join(attr_src(n, a) for n in names for a in fa)
                fs.append((at + " " if at else "") + ((NAMES[j] + ": ") if vnamed else "") + fty)
            vb = "" if not vfields else (" { " + ", ".join(fs) + " }" if vnamed else "(" + ", ".join(fs) + ")")
            va = " ".join(attr_src(n, a) for n in names for a in vat)
            vs.append((va + " " if va else "") + "V%d" % k + vb)
        return (sat + " " if sat else "") + "enum S" + c_gen(case)[0] + " { " + ", ".join(vs) + " }"
    wh = (" where " + ", ".join(case["where"])) if case.get("where") else ""
    fields = []
    for j, fa in enumerate(case["fattrs"]):
        at = " ".join(attr_src(n, a) for n in names for a in fa)
        nm = (NAMES[j] + ": ") if case["named"] else ""
        fields.append((at + " " if at else "") + p + nm + fty)
    if case["named"]:
        body = wh + " { " + ", ".join(fields) + " }"
    else:
        body = "(" + ", ".join(fields) + ")" + wh + ";"
    return (sat + " " if sat else "") + p + "struct S" + c_gen(case)[0] + body


def coq_expr(case):
    d = case["derive"]
    if has_raw(c_fty(case)) or any(a[0] == "types" and any(has_raw(t) for t in a[1])
                                   for fa in [case["sattrs"]] + case["fattrs"] for a in fa):
        return None
    fty = coq_ty(c_fty(case))
    (_, gt, gl, gc) = c_gen(case)
    # the struct's generics in SOURCE order (lifetimes, then types/consts as written) and its own predicates
    order = case["x"].get("order") if "x" in case else None
    params = order or ([("KLife", "'" + x) for x in gl] + [("KTy", x) for x in gt] + [("KConst", x) for x in gc])
    sg = "{| sg_params := [%s]; sg_where := [%s] |}" % (
        "; ".join("(%s, %d)" % (k, nid(x)) for (k, x) in params),
        "; ".join(str(nid("where:" + w)) for w in case.get("where", [])))
    kind = case.get("kind", "struct")
    if d in DKIND:
        if kind == "union":
            it = "IUnion"
        elif kind == "enum":
            it = "(IEnum [%s] [%s])" % (
                "; ".join(attr_coq_state(a) for a in case["sattrs"]),
                "; ".join("([%s], [%s])" % ("; ".join(attr_coq_state(a) for a in vat),
                                            "; ".join("[%s]" % "; ".join(attr_coq_state(a) for a in fa) for fa in vfs))
                          for (vat, _, vfs) in case["variants"]))
        else:
            fields = "; ".join("(%s, [%s])" % (fty, "; ".join(attr_coq_state(a) for a in fa)) for fa in case["fattrs"])
            it = "(IStruct [%s] [%s])" % ("; ".join(attr_coq_state(a) for a in case["sattrs"]), fields)
        return "derive_state_item %s %s %s" % (DKIND[d], sg, it)
    if kind != "struct":
        it = "AEnum" if kind == "enum" else "AUnion"
    else:
        fields = "; ".join("(%s, [%s])" % (fty, "; ".join(attr_coq_as(a, False) for a in fa)) for fa in case["fattrs"])
        it = "(AStruct [%s] [%s])" % ("; ".join(attr_coq_as(a, True) for a in case["sattrs"]), fields)
    return "derive_as_item %s %s %s" % (sg, "true" if d == "AsMut" else "false", it)


# ------------------------------------------------------------------ canonical form of the REAL expansion

TOK = re.compile(r"'\w+|\w+|::|->|[^\s\w]")
OPEN = {"<": ">", "(": ")", "[": "]", "{": "}"}


def toks(s):
    return TOK.findall(s)


def until(ts, i, stops):
    """tokens from i up to (not including) the first top-level token in `stops`; returns (tokens, index of stop)"""
    depth = []
    j = i
    while j < len(ts):
        t = ts[j]
        if not depth and t in stops:
            return ts[i:j], j
        if t in OPEN:
            depth.append(OPEN[t])
        elif depth and t == depth[-1]:
            depth.pop()
        j += 1
    raise ValueError("unbalanced: %r" % " ".join(ts[i:]))


def canon_trait(ts):
    s = "".join(ts)
    m = re.match(r"derive_more::(?:with_trait|core::convert|core::ops)::(\w+)(?:<(.*)>)?$", s)
    if not m:
        raise ValueError("trait path %r" % s)
    if m.group(1) in ("AsRef", "AsMut"):
        return (m.group(1), m.group(2))
    return m.group(1)


DM_LT = "'__deriveMoreLifetime"


def rk_of(ts):
    """reference kind added by into_iterator.rs (recognised by ITS lifetime; a `&` of the field type is not one)"""
    if len(ts) > 1 and ts[0] == "&" and ts[1] == DM_LT:
        return "RMut" if ts[2] == "mut" else "RRef"
    return "RNo"


def strip_ref(ts):
    """`& '__deriveMoreLifetime [mut] T` -> T"""
    if len(ts) > 1 and ts[0] == "&" and ts[1] == DM_LT:
        ts = ts[2:]
        if ts and ts[0] == "mut":
            ts = ts[1:]
    return ts


def member_index(tok, case):
    return NAMES.index(tok) if case["named"] else int(tok)


def parse_expr(ts, i, case):
    """returns (canonical expr, next index)"""
    if ts[i] == "&":
        if ts[i + 1] == "mut":
            e, j = parse_expr(ts, i + 2, case)
            return ("refmut", e), j
        e, j = parse_expr(ts, i + 1, case)
        return ("ref", e), j
    if ts[i] == "self":
        assert ts[i + 1] == ".", ts[i:]
        return ("field", member_index(ts[i + 2], case)), i + 3
    if ts[i] == "<":
        ty, j = until(ts, i + 1, {"as"})
        tr, k = until(ts, j + 1, {">"})
        assert ts[k + 1] == "::" and ts[k + 3] == "(", ts[k:]
        arg, m = parse_expr(ts, k + 4, case)
        idx = False
        if ts[m] == ",":
            assert ts[m + 1] == "idx", ts[m:]
            idx = True
            m += 2
        assert ts[m] == ")", ts[m:]
        return ("call", rk_of(ty), "".join(strip_ref(ty)), canon_trait(tr), arg, idx), m + 1
    raise ValueError("expression %r" % " ".join(ts[i:]))


EXTRACT_HEAD = toks("use derive_more :: __private :: ExtractRef as _ ; let conv = < derive_more :: __private :: Conv <")
EXTRACT_MID = toks("as derive_more :: core :: default :: Default > :: default ( ) ; ( & & conv ) . __extract_ref (")


def parse_body(body, case):
    ts = toks(body)
    assert ts[0] == "{" and ts[-1] == "}", body
    ts = ts[1:-1]
    if ts[:len(EXTRACT_HEAD)] == EXTRACT_HEAD:
        i = len(EXTRACT_HEAD)
        frm, j = until(ts, i, {","})
        to, k = until(ts, j + 1, {">"})
        assert ts[k + 1:k + 1 + len(EXTRACT_MID)] == EXTRACT_MID, body
        arg, m = parse_expr(ts, k + 1 + len(EXTRACT_MID), case)
        assert ts[m:] == [")"], body
        assert frm[0] == "&"
        m_ = frm[1] == "mut"
        return ("extract", m_, "".join(frm[2:] if m_ else frm[1:]), "".join(to), arg)
    e, j = parse_expr(ts, 0, case)
    assert j == len(ts), body
    return e


def canon_real(resp, case):
    """in-process response -> ('diag', kind) | ('impls', [ (trait, self_rk, assoc, body) ])"""
    if "err" in resp:
        return ("diag", "DSyn")
    if "panic" in resp:
        if "only works when forwarding to a single field" in resp["panic"]["msg"]:
            return ("diag", "DOneField")
        if re.match(r"cannot derive\(\w+\) for union$", resp["panic"]["msg"]):
            return ("diag", "DUnion")
        return ("internal", resp["panic"])
    if "ok" not in resp:
        return ("internal", resp)
    out = []
    headers = []
    for it in resp["items"]:
        assert it["kind"] == "impl", it
        headers.append(([canon_s(x) for x in it["params"]], [canon_pred(x) for x in it["where"]]))
        tr = canon_trait(toks(it["trait"]))
        rk = rk_of(toks(it["self_ty"]))
        assoc = []
        body = None
        for m in it["members"]:
            if m["kind"] == "type":
                ts = toks(m["ty"])
                if ts[0] == "<":
                    ty, j = until(ts, 1, {"as"})
                    t2, k = until(ts, j + 1, {">"})
                    assoc.append(("proj", rk_of(ty), "".join(strip_ref(ty)), canon_trait(t2)))
                else:
                    assoc.append(("ty", "".join(ts)))
            elif m["kind"] == "fn":
                try:
                    body = parse_body(m["body"], case)
                except (AssertionError, ValueError, IndexError, KeyError):
                    # a body of unknown shape: the tie is broken (reported), the run-time oracle still judges it
                    members = set(re.findall(r"self \. (\w+)", m["body"]))
                    idx = member_index(members.pop(), case) if len(members) == 1 else None
                    body = ("opaque", m["body"], idx)
        out.append((tr, rk, assoc, body))
    return ("impls", out, headers)


def canon_pred(src):
    """a where-predicate of the expansion: ('bound', ref kind, type, trait) when it is `Ty: <derive_more trait path>`,
    else ('orig', text) (a predicate of the struct itself)"""
    ts = toks(src)
    try:
        lhs, j = until(ts, 0, {":"})
        return ("bound", rk_of(lhs), "".join(strip_ref(lhs)), canon_trait(ts[j + 1:]))
    except ValueError:
        return ("orig", canon_s(src))


# ------------------------------------------------------------------ canonical form of the MODEL's answer

def canon_model(t, names):
    if t[0] == "inl":
        d = t[1]
        return ("diag", d[1] if isinstance(d, tuple) else d)      # DStruct d | DUnion | (AsRef) d
    out = []
    headers = []

    def tr_c(x):
        if isinstance(x, str):
            return {"TrDeref": "Deref", "TrDerefMut": "DerefMut", "TrIndex": "Index", "TrIndexMut": "IndexMut",
                    "TrIntoIter": "IntoIterator"}[x]
        tgt = "__AsT" if x[2] == "TgBlanket" else coq_ty_back(x[2][1], names)
        return ("AsMut" if x[1] == "true" else "AsRef", tgt)

    def ex_c(e):
        k = e[0]
        if k == "EField":
            return ("field", e[1])
        if k == "ERef":
            return ("ref", ex_c(e[1]))
        if k == "ERefMut":
            return ("refmut", ex_c(e[1]))
        if k == "ECall":
            return ("call", e[1], coq_ty_back(e[2], names), tr_c(e[3]), ex_c(e[4]), e[5] == "true")
        if k == "EExtract":
            return ("extract", e[1] == "true", coq_ty_back(e[2], names), coq_ty_back(e[3], names), ex_c(e[4]))
        raise ValueError(e)

    def par_c(x):
        if x == "ILifeDM":
            return DM_LT
        if x == "IIdxT":
            return "__IdxT"
        if x == "IAsT":
            return "__AsT:?derive_more::core::marker::Sized"
        (_, k, n) = x
        return {"KLife": "%s", "KTy": "%s", "KConst": "const%s:usize"}[k] % names[n]

    def pred_c(x):
        if x[0] == "WOrig":
            return ("orig", canon_s(names[x[1]][len("where:"):]))
        return ("bound", x[1], coq_ty_back(x[2], names), tr_c(x[3]))

    for (im, hd) in t[1]:
        headers.append(([par_c(x) for x in hd["h_params"]], [pred_c(x) for x in hd["h_where"]]))
        assoc = []
        for a in im["im_assoc"]:
            if a[0] == "AsTy":
                assoc.append(("ty", coq_ty_back(a[1], names)))
            else:
                assoc.append(("proj", a[1], coq_ty_back(a[2], names), tr_c(a[3])))
        body = ex_c(im["im_body"])
        assert body_field(body) == im["im_field"], im
        out.append((tr_c(im["im_trait"]), im["im_self"], assoc, body))
    return ("impls", out, headers)


def body_field(b):
    if b[0] == "opaque":
        return b[2]
    while b[0] != "field":
        b = b[1] if b[0] in ("ref", "refmut") else b[4]
    return b[1]


def body_kind(b):
    """'direct' (address of the field) | 'forwarded' | 'specialized' | 'place' """
    if b[0] in ("ref", "refmut") and b[1][0] == "field":
        return "direct"
    if b[0] == "call":
        return "forwarded"
    if b[0] == "extract":
        return "specialized"
    if b[0] == "opaque":
        return "opaque"
    return "other"


# ------------------------------------------------------------------ the independent evaluator of the doc rules

def oracle_state(case):
    """property text + impl/doc/{deref,deref_mut,index,index_mut,into_iterator}.md:
    the field marked `#[x]` (any positive form) if there is exactly one; with none, the only field not marked
    `#[x(ignore)]`; anything else is rejected.  forward: field attribute, else struct attribute."""
    d = case["derive"]
    allowed = ALLOWED[d]

    def parse(attrs):
        if not attrs:
            return None
        if len(attrs) > 1:
            return "bad"
        a = attrs[0]
        if a[0] == "nv":
            return "bad"
        ps = [] if a[0] == "bare" else a[1]
        if any(p not in allowed for p in ps):
            return "bad"
        return ps

    sp = parse(case["sattrs"])
    fps = [parse(fa) for fa in case["fattrs"]]
    if sp == "bad" or "bad" in fps:
        return ("diag",)
    pos = [j for j, p in enumerate(fps) if p is not None and "ignore" not in p]
    if len(pos) == 1:
        i = pos[0]
    elif len(pos) == 0:
        cand = [j for j, p in enumerate(fps) if p is None]
        if len(cand) != 1:
            return ("diag",)
        i = cand[0]
    else:
        return ("diag",)
    mine = fps[i] or []
    fwd = False
    if d in ("Deref", "DerefMut"):
        fwd = "forward" in (sp or [])
        for p in mine:
            if p == "forward":
                fwd = True
            if p == "notforward":
                fwd = False
    forms = None
    if d == "IntoIterator":
        asked = [k for k in ("owned", "ref", "ref_mut") if k in mine or k in (sp or [])]
        forms = asked or ["owned"]
    return ("sel", i, fwd, forms)


def oracle_as(case):
    """impl/doc/as_ref.md (+ as_mut.md): which (field, target, behaviour) triples exist."""
    flav = case["flavour"]
    fty = FLAVOURS[flav][2]
    params = FLAVOURS[flav][1] + CONSTS.get(flav, []) + ["'" + x for x in LIFETIMES.get(flav, [])]

    def merge(attrs, struct_level):
        cur = None
        for a in attrs:
            k = a[0]
            if k in ("malformed", "nv") or (struct_level and k == "empty"):
                return "bad"
            if struct_level and k == "skip":
                a = ("types", [tid(a[1])])
                k = "types"
            if cur is None:
                cur = (k, list(a[1]) if k == "types" else None)
            elif cur[0] == "types" and k == "types":
                cur = ("types", cur[1] + list(a[1]))
            else:
                return "bad"
        return cur

    def behaviour(t):
        if t == "__AsT":
            return "fwd"
        if canon_ty(t) == canon_ty(fty):
            return "ident"
        if mentions(t, params) or mentions(fty, params):
            return "fwd"
        return "ident" if py_norm(t) == py_norm(fty) else "fwd"

    def targets(conv):
        if conv is None or conv[0] == "empty":
            return [fty]
        if conv[0] == "forward":
            return ["__AsT"]
        return conv[1]

    s = merge(case["sattrs"], True)
    if s == "bad":
        return ("diag",)
    fs = [merge(fa, False) for fa in case["fattrs"]]
    out = []
    if s is not None:
        if len(fs) != 1 or fs[0] is not None:
            return ("diag",)
        out = [(0, t, behaviour(t)) for t in targets(s)]
        return ("impls", out)
    if "bad" in fs:
        return ("diag",)
    present = [f for f in fs if f is not None]
    skips = [f for f in present if f[0] == "skip"]
    if skips and len(skips) != len(present):
        return ("diag",)
    for j, f in enumerate(fs):
        if skips or not present:
            if f is None:
                out.append((j, fty, "ident"))
        elif f is not None:
            out += [(j, t, behaviour(t)) for t in targets(f)]
    return ("impls", out)


# ------------------------------------------------------------------ generators

def state_positive(rng, d, thorough_variant=0):
    """a positive attribute for derive d"""
    if d in ("Deref", "DerefMut"):
        r = rng.random()
        if r < 0.55:
            return ("bare",)
        if r < 0.9:
            return ("list", ["forward"])
        return ("list", ["notforward"])
    if d == "IntoIterator":
        r = rng.random()
        if r < 0.3:
            return ("bare",)
        ks = [k for k in ("owned", "ref", "ref_mut") if rng.random() < 0.6]
        return ("list", ks or ["ref", "ref_mut"])
    return ("bare",) if rng.random() < 0.8 else ("list", [])


def gen_state_cases(rng, tier):
    cases = []
    flavs = list(STATE_FLAVOURS)
    for d in DKIND:
        for n in range(1, 5):
            for marks in itertools.product("NPI", repeat=n):
                variants = [(rng.choice(flavs), rng.random() < 0.5)] if tier == "quick" else \
                    [(f, nm) for f in flavs for nm in (False, True)]
                for (flav, named) in variants:
                    fattrs = []
                    for m in marks:
                        if m == "N":
                            fattrs.append([])
                        elif m == "I":
                            fattrs.append([("list", ["ignore"] + (["forward"] if d.startswith("Deref") and rng.random() < 0.2 else []))])
                        else:
                            fattrs.append([state_positive(rng, d)])
                    cases.append({"derive": d, "flavour": flav, "named": named, "sattrs": [], "fattrs": fattrs,
                                  "group": "grid"})
        # struct-level attribute
        if d in ("Deref", "DerefMut", "IntoIterator"):
            for n in range(1, 4):
                for marks in itertools.product("NPI", repeat=n):
                    flav, named = rng.choice(flavs), rng.random() < 0.5
                    if d == "IntoIterator":
                        sat = [("list", rng.choice([["ref"], ["ref", "ref_mut"], ["owned", "ref", "ref_mut"], ["ref_mut"]]))]
                    else:
                        sat = [("list", ["forward"])]
                    fattrs = []
                    for m in marks:
                        if m == "N":
                            fattrs.append([])
                        elif m == "I":
                            fattrs.append([("list", ["ignore"])])
                        else:
                            fattrs.append([state_positive(rng, d)])
                    cases.append({"derive": d, "flavour": flav, "named": named, "sattrs": sat, "fattrs": fattrs,
                                  "group": "struct-attr"})
        # malformed / not allowed / duplicated
        bad = [[("nv",)], [("bare",), ("bare",)], [("list", ["bogus"])], [("list", ["ignore"]), ("bare",)]]
        if d in ("Index", "IndexMut", "IntoIterator"):
            bad.append([("list", ["forward"])])
        if d != "IntoIterator":
            bad.append([("list", ["ref"])])
        for b in bad:
            for n in (1, 2):
                fattrs = [b] + [[("list", ["ignore"])] for _ in range(n - 1)]
                cases.append({"derive": d, "flavour": "fld", "named": False, "sattrs": [], "fattrs": fattrs,
                              "group": "malformed"})
            cases.append({"derive": d, "flavour": "fld", "named": True, "sattrs": b, "fattrs": [[]], "group": "malformed"})
        cases.append({"derive": d, "flavour": "fld", "named": False, "sattrs": [], "fattrs": [], "group": "malformed"})
    return cases


def gen_as_cases(rng, tier):
    cases = []
    for d in ("AsRef", "AsMut"):
        for flav in AS_FLAVOURS:
            tys = AS_TYPES[flav]
            lists = [[t] for t in tys] + [list(p) for p in itertools.permutations(tys, 2)]
            if flav != "t":
                lists += [list(p) for p in itertools.permutations(tys, 3)][:: (7 if tier == "quick" else 1)]
            if flav in ("c", "l"):
                # generic and non-generic listed types mixed in every order, run-time coherent (one type per class)
                by_cls = {}
                for t in tys:
                    by_cls.setdefault(rt_class(flav, t), []).append(t)
                for r in (2, 3, 4):
                    for cl in itertools.combinations(sorted(by_cls), r):
                        for pick in itertools.product(*[by_cls[x] for x in cl]):
                            perms = list(itertools.permutations(pick))
                            if r == 4 and tier == "quick":
                                perms = rng.sample(perms, 3)
                            lists += [list(q) for q in perms]
                seen_l = set()
                lists = [l for l in lists if not (tuple(map(canon_ty, l)) in seen_l or seen_l.add(tuple(map(canon_ty, l))))]
            # single field: struct-level or field-level
            for level in ("struct", "field"):
                convs = [("forward",)] + [("types", l) for l in lists]
                if level == "field":
                    convs += [("empty",), ("skip", "skip"), ("skip", "ignore")]
                for c in convs:
                    for named in ((False, True) if tier == "thorough" else (rng.random() < 0.5,)):
                        cases.append({"derive": d, "flavour": flav, "named": named,
                                      "sattrs": [c] if level == "struct" else [],
                                      "fattrs": [[] if level == "struct" else [c]], "group": "as-single"})
            cases.append({"derive": d, "flavour": flav, "named": False, "sattrs": [], "fattrs": [[]], "group": "as-single"})
            # several attributes on one field / both levels / struct attr on two fields
            t0, t1 = tys[0], tys[-2]
            cases += [
                {"derive": d, "flavour": flav, "named": False, "sattrs": [], "fattrs": [[("types", [t0]), ("types", [t1])]], "group": "as-merge"},
                {"derive": d, "flavour": flav, "named": False, "sattrs": [("types", [t0]), ("types", [t1])], "fattrs": [[]], "group": "as-merge"},
                {"derive": d, "flavour": flav, "named": False, "sattrs": [], "fattrs": [[("types", [t0]), ("forward",)]], "group": "as-merge"},
                {"derive": d, "flavour": flav, "named": False, "sattrs": [], "fattrs": [[("empty",), ("empty",)]], "group": "as-merge"},
                {"derive": d, "flavour": flav, "named": False, "sattrs": [("forward",), ("forward",)], "fattrs": [[]], "group": "as-merge"},
                {"derive": d, "flavour": flav, "named": False, "sattrs": [("forward",)], "fattrs": [[("empty",)]], "group": "as-merge"},
                {"derive": d, "flavour": flav, "named": False, "sattrs": [("forward",)], "fattrs": [[], []], "group": "as-merge"},
                {"derive": d, "flavour": flav, "named": False, "sattrs": [("types", [t0])], "fattrs": [], "group": "as-merge"},
                {"derive": d, "flavour": flav, "named": False, "sattrs": [("empty",)], "fattrs": [[]], "group": "as-merge"},
                {"derive": d, "flavour": flav, "named": False, "sattrs": [("skip", "skip")], "fattrs": [[]], "group": "as-merge"},
                {"derive": d, "flavour": flav, "named": False, "sattrs": [], "fattrs": [[("malformed",)]], "group": "as-merge"},
                {"derive": d, "flavour": flav, "named": False, "sattrs": [], "fattrs": [[("types", [])]], "group": "as-merge"},
            ]
            # one list spread over several attributes of the same field (merged by the macro), every split point
            for l in lists:
                if len(l) >= 2 and (tier == "thorough" or rng.random() < 0.5):
                    k = rng.randrange(1, len(l))
                    parts = [l[:k], l[k:]] if len(l) == 2 or rng.random() < 0.5 else [[x] for x in l]
                    for level in ("struct", "field"):
                        ats = [("types", q) for q in parts]
                        cases.append({"derive": d, "flavour": flav, "named": rng.random() < 0.5,
                                      "sattrs": ats if level == "struct" else [],
                                      "fattrs": [[] if level == "struct" else ats], "group": "as-split"})
                        if level == "field":
                            cases.append({"derive": d, "flavour": flav, "named": rng.random() < 0.5, "sattrs": [],
                                          "fattrs": [[], ats], "group": "as-split"})
            # several fields of the SAME type: every pattern over none / bare / skip / forward / types
            for n in range(2, 5):
                if flav in SMALL_FLAVOURS and n > 2:
                    continue
                for marks in itertools.product("NESFT", repeat=n):
                    if tier == "quick" and n == 4 and rng.random() < (0.6 if flav in ("fld", "g", "t") else 0.85):
                        continue
                    fattrs = []
                    for m in marks:
                        if m == "N":
                            fattrs.append([])
                        elif m == "E":
                            fattrs.append([("empty",)])
                        elif m == "S":
                            fattrs.append([("skip", rng.choice(["skip", "ignore"]))])
                        elif m == "F":
                            fattrs.append([("forward",)])
                        else:
                            fattrs.append([("types", rng.choice(lists))])
                    cases.append({"derive": d, "flavour": flav, "named": rng.random() < 0.5, "sattrs": [],
                                  "fattrs": fattrs, "group": "as-multi"})
    return cases


def tref(t, lt=None, mut=False):
    return ("ref", lt, mut, t)


WHERE_OF = {"fld": "u32: Copy", "c": "[u8; N]: Sized"}


def add_where_clauses(rng, cases):
    """a struct-level where-clause on a share of the structs (its predicates must survive, in order, next to
    the ones the derive adds)"""
    for c in cases:
        if c.get("kind", "struct") == "struct" and rng.random() < 0.15:
            if "x" in c:
                c["where"] = ["T: Clone"] + (["[u8; N]: Sized"] if rng.random() < 0.5 else [])
            else:
                c["where"] = [WHERE_OF.get(c["flavour"], "T: Clone")]


def gen_non_struct_cases(rng, tier):
    """enums (attributes on the enum, the variants and their fields, well-formed or not) and unions"""
    cases = []
    for d in list(DKIND) + ["AsRef", "AsMut"]:
        is_as = d in ("AsRef", "AsMut")
        pos = ("empty",) if is_as else ("bare",)
        ign = ("skip", "ignore") if is_as else ("list", ["ignore"])
        bad = ("malformed",) if is_as else ("list", ["bogus"])
        fwd = ("forward",) if is_as else ("list", ["forward"])
        shapes = [
            [([], False, [[]])],
            [([], False, [[pos]]), ([], False, [])],
            [([], True, [[pos], [ign]]), ([], False, [[]])],
            [([pos], False, [[]]), ([ign], True, [[], []])],
            [([], False, [[]]), ([], False, [[bad]])],
            [([bad], False, [[]]), ([], False, [[bad]])],
            [([], False, [[fwd]]), ([], True, [[pos, pos]])],
            [],
        ]
        for vs in shapes:
            for sat in ([], [fwd], [bad]):
                cases.append({"derive": d, "flavour": rng.choice(["fld", "g"]), "named": False, "kind": "enum", "sattrs": sat,
                              "fattrs": [], "variants": vs, "group": "enum"})
        for sat in ([], [pos]):
            cases.append({"derive": d, "flavour": "fld", "named": True, "kind": "union", "sattrs": sat, "fattrs": [],
                          "group": "union"})
    return cases


def gen_exotic_cases(rng, tier):
    """model-vs-code only (never compiled): types that exercise GenericsSearch::any_in and the token equality"""
    gen = {"src": "<'a, T, const N: usize>", "types": ["T"], "lifetimes": ["a"], "consts": ["N"]}
    # the same parameters with the const BEFORE the type (index.rs / utils.rs regroup them)
    gen2 = {"src": "<'a, const N: usize, T>", "types": ["T"], "lifetimes": ["a"], "consts": ["N"],
            "order": [("KLife", "'a"), ("KConst", "N"), ("KTy", "T")]}
    T, F, I = tid("T"), tid("Fld"), tid("Inner")
    ftys = [tref(T, "a"), tref(F, "a"), tref(F, "b"), tref(F, "static", True), ("array", T, "N"), ("array", F, "N"),
            ("array", F, 3), ("array", F, "M"), tapp(T, F), tqual("a", "T"), tapp(tid("Vec"), tqual("a", "T")),
            tapp(tqual("a", "Vec"), T), ("paren", T), ("paren", F), tapp(tid("Box"), ("slice", T)), ("slice", F),
            tapp(tid("Map"), F, T), tapp(tid("Map"), F, tid("N")), tapp(tapp(tid("W"), F), F), tid("N"), tref(("paren", F)),
            tid("str"), ("slice", tid("u8")), tqual("T", "Assoc"), tapp(tqual("T", "Assoc"), F), tqual("N", "Assoc"), tqual("a", "T", "b"),
            tapp(tid("Vec"), tqual("T", "Item")), tref(tqual("T", "Assoc"), "b"), tapp(tid("Map"), T, tref(tid("str"), "static")),
            tapp(tid("Map"), tref(tid("str"), "static"), T), tapp(tid("Map"), tid("N"), tref(tid("str"), "static"))]
    cases = []
    for d in ("AsRef", "AsMut"):
        for fty in ftys:
            others = [I, fty, ("paren", fty), T, tref(I, "a"), ("array", I, "N"), tapp(tid("Vec"), I)]
            for lst in [[o] for o in others] + [[I, fty], [rng.choice(ftys), I]]:
                cases.append({"derive": d, "flavour": "fld", "named": rng.random() < 0.5, "sattrs": [("types", lst)],
                              "fattrs": [[]], "group": "as-exotic", "x": dict(gen, fty=fty)})
            cases.append({"derive": d, "flavour": "fld", "named": False, "sattrs": [], "group": "as-exotic",
                          "fattrs": [[("types", [rng.choice(others)])], [("empty",)]], "x": dict(gen2, fty=fty)})
            cases.append({"derive": d, "flavour": "fld", "named": False, "sattrs": [("forward",)], "group": "as-exotic",
                          "fattrs": [[]], "x": dict(gen2, fty=fty)})
    # the State-based derives over the same generics: header only (params regrouped, predicates kept)
    for d in DKIND:
        for fty in ftys[:8]:
            for g_ in (gen, gen2):
                pos = state_positive(rng, d)
                cases.append({"derive": d, "flavour": "fld", "named": rng.random() < 0.5, "sattrs": [], "group": "state-exotic",
                              "fattrs": [[pos], []], "x": dict(g_, fty=fty)})
    return cases


# ------------------------------------------------------------------ the generated crate

PRELUDE_HEAD = r"""
#![allow(dead_code, unused_variables, unused_mut, unused_imports, unused_parens, non_camel_case_types)]
#![allow(clippy::all)]
use std::ops::{Deref, DerefMut, Index, IndexMut};

#[derive(Clone, Debug, PartialEq)]
pub struct Inner { pub tag: u32 }

// index types that are NOT Copy: the std ranges and a user key
#[derive(Clone, Debug, PartialEq)]
pub struct Key(pub String);

pub type Fld = G<u32>;
pub type FldAlias = Fld;
pub type GAlias<T> = G<T>;
// `GL<A, B>` IS `G<A>`, but its spelling carries a second argument (used for types that mention a lifetime)
pub trait Fst { type Out; }
impl<A, B> Fst for (A, B) { type Out = G<A>; }
pub type GL<A, B> = <(A, B) as Fst>::Out;
pub type GLAlias<A, B> = GL<A, B>;
pub trait Mid { type Out; }
impl<'a, T, const N: usize> Mid for (&'a (), T, [(); N]) { type Out = G<T>; }
pub type GM<'a, T, const N: usize> = <(&'a (), T, [(); N]) as Mid>::Out;

pub fn addr<T: ?Sized>(r: &T) -> usize { r as *const T as *const u8 as usize }
pub fn pos<X: PartialEq>(cand: &[X], got: &X) -> String {
    let v: Vec<String> = cand.iter().enumerate().filter(|(_, c)| *c == got).map(|(i, _)| i.to_string()).collect();
    format!("[{}]", v.join(","))
}
pub fn changed(before: &[String], after: &[String]) -> String {
    let v: Vec<String> = (0..before.len()).filter(|&i| before[i] != after[i]).map(|i| i.to_string()).collect();
    format!("[{}]", v.join(","))
}
"""

# One run-time field type.  Every delegated trait has its OWN, recognisable implementation, and next to each
# trait method there is an INHERENT method of the same name that answers from somewhere else (the `alt` field,
# a sub-slice, the shadow node): a derive that reaches the field through method syntax (`self.f.as_ref()`,
# `(&self.f).into_iter()`, ...) instead of the qualified trait call gets the inherent answer and is observed.
FIELD_TYPE = r"""
#[derive(Clone, Debug)]
pub struct G<T> { pub v: Vec<T>, pub inner: Inner, pub alt: Inner, pub tag: u32, pub name: String, pub shadow: Option<Box<G<T>>> }

impl G<u32> {
    pub fn new(j: u32) -> Self {
        G { v: vec![10 * j + 1, 10 * j + 2, 10 * j + 3], inner: Inner { tag: 100 + j }, alt: Inner { tag: 300 + j }, tag: j,
            name: format!("fld{}", j),
            shadow: Some(Box::new(G { v: vec![500 + 10 * j + 1, 500 + 10 * j + 2, 500 + 10 * j + 3], inner: Inner { tag: 800 + j },
                                      alt: Inner { tag: 600 + j }, tag: 700 + j, name: format!("shadow{}", j), shadow: None })) }
    }
}
impl<T> G<T> {
    fn other(&self) -> &G<T> { match &self.shadow { Some(b) => &**b, None => self } }
    fn other_mut(&mut self) -> &mut G<T> { if self.shadow.is_some() { &mut **self.shadow.as_mut().unwrap() } else { self } }
    // inherent namesakes of the trait methods (different answers)
    pub fn as_ref(&self) -> &[T] { &self.v[1..] }
    pub fn as_mut(&mut self) -> &mut [T] { &mut self.v[1..] }
    pub fn deref(&self) -> &Inner { &self.alt }
    pub fn deref_mut(&mut self) -> &mut Inner { &mut self.alt }
    pub fn index<I>(&self, i: I) -> &<Self as Index<I>>::Output where Self: Index<I> { <Self as Index<I>>::index(self.other(), i) }
    pub fn index_mut<I>(&mut self, i: I) -> &mut <Self as Index<I>>::Output where Self: IndexMut<I> { <Self as IndexMut<I>>::index_mut(self.other_mut(), i) }
    INHERENT_INTO_ITER
}
impl<T> Deref for G<T> { type Target = Inner; fn deref(&self) -> &Inner { &self.inner } }
impl<T> DerefMut for G<T> { fn deref_mut(&mut self) -> &mut Inner { &mut self.inner } }
// indexing and iteration run BACKWARDS, so they cannot be confused with Vec's own
impl<T> Index<usize> for G<T> { type Output = T; fn index(&self, i: usize) -> &T { let n = self.v.len(); &self.v[n - 1 - i] } }
impl<T> IndexMut<usize> for G<T> { fn index_mut(&mut self, i: usize) -> &mut T { let n = self.v.len(); &mut self.v[n - 1 - i] } }
impl<T> Index<std::ops::Range<usize>> for G<T> { type Output = [T]; fn index(&self, r: std::ops::Range<usize>) -> &[T] { &self.v[r] } }
impl<T> IndexMut<std::ops::Range<usize>> for G<T> { fn index_mut(&mut self, r: std::ops::Range<usize>) -> &mut [T] { &mut self.v[r] } }
impl<T> Index<std::ops::RangeFrom<usize>> for G<T> { type Output = [T]; fn index(&self, r: std::ops::RangeFrom<usize>) -> &[T] { &self.v[r] } }
impl<T> IndexMut<std::ops::RangeFrom<usize>> for G<T> { fn index_mut(&mut self, r: std::ops::RangeFrom<usize>) -> &mut [T] { &mut self.v[r] } }
impl<T> Index<std::ops::RangeInclusive<usize>> for G<T> { type Output = [T]; fn index(&self, r: std::ops::RangeInclusive<usize>) -> &[T] { &self.v[r] } }
impl<T> IndexMut<std::ops::RangeInclusive<usize>> for G<T> { fn index_mut(&mut self, r: std::ops::RangeInclusive<usize>) -> &mut [T] { &mut self.v[r] } }
impl<T> Index<std::ops::RangeFull> for G<T> { type Output = [T]; fn index(&self, r: std::ops::RangeFull) -> &[T] { &self.v[r] } }
impl<T> IndexMut<std::ops::RangeFull> for G<T> { fn index_mut(&mut self, r: std::ops::RangeFull) -> &mut [T] { &mut self.v[r] } }
impl<T> Index<Key> for G<T> { type Output = T; fn index(&self, k: Key) -> &T { let n = self.v.len(); &self.v[k.0.len() % n] } }
impl<T> IndexMut<Key> for G<T> { fn index_mut(&mut self, k: Key) -> &mut T { let n = self.v.len(); &mut self.v[k.0.len() % n] } }
impl<T> IntoIterator for G<T> {
    type Item = T; type IntoIter = std::iter::Rev<std::vec::IntoIter<T>>;
    fn into_iter(self) -> Self::IntoIter { self.v.into_iter().rev() }
}
impl<'a, T> IntoIterator for &'a G<T> {
    type Item = &'a T; type IntoIter = std::iter::Rev<std::slice::Iter<'a, T>>;
    fn into_iter(self) -> Self::IntoIter { self.v.iter().rev() }
}
impl<'a, T> IntoIterator for &'a mut G<T> {
    type Item = &'a mut T; type IntoIter = std::iter::Rev<std::slice::IterMut<'a, T>>;
    fn into_iter(self) -> Self::IntoIter { self.v.iter_mut().rev() }
}
impl<T> AsRef<Inner> for G<T> { fn as_ref(&self) -> &Inner { &self.inner } }
impl<T> AsMut<Inner> for G<T> { fn as_mut(&mut self) -> &mut Inner { &mut self.inner } }
impl<T> AsRef<[T]> for G<T> { fn as_ref(&self) -> &[T] { &self.v[..] } }
impl<T> AsMut<[T]> for G<T> { fn as_mut(&mut self) -> &mut [T] { &mut self.v[..] } }
impl<T, const N: usize> AsRef<[T; N]> for G<T> { fn as_ref(&self) -> &[T; N] { <&[T; N]>::try_from(&self.v[..N]).unwrap() } }
impl<T, const N: usize> AsMut<[T; N]> for G<T> { fn as_mut(&mut self) -> &mut [T; N] { <&mut [T; N]>::try_from(&mut self.v[..N]).unwrap() } }
// a conversion that holds for ONE instantiation only: a derive that forgets the `FieldTy: AsRef<str>` bound does not compile
impl AsRef<str> for G<u32> { fn as_ref(&self) -> &str { self.name.as_str() } }
impl AsMut<str> for G<u32> { fn as_mut(&mut self) -> &mut str { self.name.as_mut_str() } }
// the reflexive impl does NOT return `self`: a forwarded call is distinguishable from the identity
impl<T> AsRef<G<T>> for G<T> { fn as_ref(&self) -> &G<T> { self.other() } }
impl<T> AsMut<G<T>> for G<T> { fn as_mut(&mut self) -> &mut G<T> { self.other_mut() } }
"""

# G: inherent `into_iter(self)` (hijacks `self.f.into_iter()`); H: inherent `into_iter(&self)` (hijacks
# `(&self.f).into_iter()` / `self.f.into_iter()` written for the shared form)
INHERENT_BY_VALUE = "pub fn into_iter(self) -> std::iter::Rev<std::vec::IntoIter<T>> { let o = match self.shadow { Some(b) => *b, None => self }; o.v.into_iter().rev() }"
INHERENT_BY_REF = "pub fn into_iter(&self) -> std::iter::Rev<std::slice::Iter<'_, T>> { self.other().v.iter().rev() }"
PRELUDE = (PRELUDE_HEAD + FIELD_TYPE.replace("INHERENT_INTO_ITER", INHERENT_BY_VALUE)
           + re.sub(r"\bG\b", "H", FIELD_TYPE.replace("INHERENT_INTO_ITER", INHERENT_BY_REF)))



# ------------------------------------------------------------------ unsized selected fields (hand-written corpus)
# str, [u32], a DST newtype with its own impls, an unsized tail field - for the derives where that is legal.
# Every line printed is `id<TAB>label<TAB>res=ok|BAD..`: the derived impl returns the field itself (address and
# length) where the doc rules say so, else what the field type's own impl returns when called explicitly.
UNSIZED_COMMON = r"""
use super::*;
use std::ffi::OsStr;
use std::path::Path;
pub fn a2<T: ?Sized>(r: &T) -> (usize, usize) { (addr(r), std::mem::size_of_val(r)) }
pub fn chk(id: &str, label: &str, got: (usize, usize), want: (usize, usize)) -> String {
    format!("{}\t{}\tres={}", id, label, if got == want { "ok".to_string() } else { format!("BAD got {:?} want {:?}", got, want) })
}
// a DST newtype whose own impls answer from a SUB-slice (recognisable)
#[repr(transparent)]
pub struct Body(pub [u32]);
impl AsRef<[u32]> for Body { fn as_ref(&self) -> &[u32] { &self.0[1..] } }
impl AsMut<[u32]> for Body { fn as_mut(&mut self) -> &mut [u32] { &mut self.0[1..] } }
impl Deref for Body { type Target = [u32]; fn deref(&self) -> &[u32] { &self.0[1..] } }
impl DerefMut for Body { fn deref_mut(&mut self) -> &mut [u32] { &mut self.0[1..] } }
pub type SliceAlias = [u32];
pub type StrAlias = str;
"""

UNSIZED = [
    ("#[derive(AsRef)] #[as_ref(str, [u8], OsStr, Path)] #[repr(transparent)] struct S(str);", r"""
#[derive(derive_more::AsRef)]
#[as_ref(str, [u8], OsStr, Path)]
#[repr(transparent)]
pub struct S(str);
pub fn run(id: &str, out: &mut Vec<String>) {
    let backing = String::from("hello");
    let s: &S = unsafe { &*(backing.as_str() as *const str as *const S) };
    out.push(chk(id, "AsRef<str> is the field", a2(<S as AsRef<str>>::as_ref(s)), a2(&s.0)));
    out.push(chk(id, "AsRef<[u8]> is str's own", a2(<S as AsRef<[u8]>>::as_ref(s)), a2(<str as AsRef<[u8]>>::as_ref(&s.0))));
    out.push(chk(id, "AsRef<OsStr> is str's own", a2(<S as AsRef<OsStr>>::as_ref(s)), a2(<str as AsRef<OsStr>>::as_ref(&s.0))));
    out.push(chk(id, "AsRef<Path> is str's own", a2(<S as AsRef<Path>>::as_ref(s)), a2(<str as AsRef<Path>>::as_ref(&s.0))));
}
"""),
    ("#[derive(AsRef, AsMut)] struct S(#[as_ref(StrAlias, [u8])] #[as_mut(StrAlias)] str);  (alias of the unsized field type)", r"""
#[derive(derive_more::AsRef, derive_more::AsMut)]
#[repr(transparent)]
pub struct S(#[as_ref(StrAlias, [u8])] #[as_mut(StrAlias)] str);
pub fn run(id: &str, out: &mut Vec<String>) {
    let mut backing = String::from("hello");
    let s: &mut S = unsafe { &mut *(backing.as_mut_str() as *mut str as *mut S) };
    let want = a2(&s.0);
    out.push(chk(id, "AsRef<StrAlias> is the field", a2(<S as AsRef<str>>::as_ref(s)), want));
    out.push(chk(id, "AsRef<[u8]> is str's own", a2(<S as AsRef<[u8]>>::as_ref(s)), a2(<str as AsRef<[u8]>>::as_ref(&s.0))));
    let got = { let r: &mut str = <S as AsMut<str>>::as_mut(s); r.make_ascii_uppercase(); a2(r) };
    out.push(chk(id, "AsMut<StrAlias> is the field", got, want));
    out.push(chk(id, "write through AsMut visible in the field", (0, (&s.0 == "HELLO") as usize), (0, 1)));
}
"""),
    ("#[derive(AsRef, AsMut)] struct A(#[as_ref] #[as_mut] [u32]); #[as_ref(SliceAlias)] struct B([u32]); #[as_ref(forward)] struct C([u32]);", r"""
#[derive(derive_more::AsRef, derive_more::AsMut)]
#[repr(transparent)]
pub struct A(#[as_ref] #[as_mut] [u32]);
#[derive(derive_more::AsRef, derive_more::AsMut)]
#[as_ref(SliceAlias)]
#[as_mut(SliceAlias)]
#[repr(transparent)]
pub struct B([u32]);
#[derive(derive_more::AsRef, derive_more::AsMut)]
#[as_ref(forward)]
#[as_mut(forward)]
#[repr(transparent)]
pub struct C([u32]);
pub fn run(id: &str, out: &mut Vec<String>) {
    let mut v = vec![1u32, 2, 3, 4];
    { let s: &mut A = unsafe { &mut *(&mut v[..] as *mut [u32] as *mut A) };
      let want = a2(&s.0);
      out.push(chk(id, "A: AsRef<[u32]> is the field", a2(<A as AsRef<[u32]>>::as_ref(s)), want));
      let got = { let r = <A as AsMut<[u32]>>::as_mut(s); r[0] = 71; a2(r) };
      out.push(chk(id, "A: AsMut<[u32]> is the field", got, want)); }
    { let s: &mut B = unsafe { &mut *(&mut v[..] as *mut [u32] as *mut B) };
      let want = a2(&s.0);
      out.push(chk(id, "B: AsRef<SliceAlias> is the field", a2(<B as AsRef<[u32]>>::as_ref(s)), want));
      let got = { let r = <B as AsMut<[u32]>>::as_mut(s); r[1] = 72; a2(r) };
      out.push(chk(id, "B: AsMut<SliceAlias> is the field", got, want)); }
    { let s: &mut C = unsafe { &mut *(&mut v[..] as *mut [u32] as *mut C) };
      out.push(chk(id, "C: forward AsRef<[u32]> is [u32]'s own", a2(<C as AsRef<[u32]>>::as_ref(s)), a2(<[u32] as AsRef<[u32]>>::as_ref(&s.0))));
      let want = a2(&s.0);
      let got = { let r = <C as AsMut<[u32]>>::as_mut(s); r[2] = 73; a2(r) };
      out.push(chk(id, "C: forward AsMut<[u32]> is [u32]'s own", got, want)); }
    out.push(chk(id, "writes visible", (0, (v == vec![71, 72, 73, 4]) as usize), (0, 1)));
}
"""),
    ("#[derive(AsRef, AsMut)] struct W(#[as_ref([u32])] #[as_mut([u32])] Body);  struct P { len: usize, #[as_ref([u32])] #[as_mut([u32])] body: Body }  (DST newtype, unsized tail)", r"""
#[derive(derive_more::AsRef, derive_more::AsMut)]
#[repr(transparent)]
pub struct W(#[as_ref([u32])] #[as_mut([u32])] Body);
#[derive(derive_more::AsRef, derive_more::AsMut)]
#[repr(C)]
pub struct P { pub len: usize, #[as_ref([u32])] #[as_mut([u32])] pub body: Body }
#[derive(derive_more::AsRef, derive_more::AsMut)]
#[repr(C)]
pub struct Q { #[as_ref] #[as_mut] pub len: usize, #[as_ref(forward)] #[as_mut(forward)] pub body: Body }
pub fn run(id: &str, out: &mut Vec<String>) {
    let mut v = vec![1u32, 2, 3, 4];
    { let s: &mut W = unsafe { &mut *(&mut v[..] as *mut [u32] as *mut W) };
      out.push(chk(id, "W: AsRef<[u32]> is Body's own", a2(<W as AsRef<[u32]>>::as_ref(s)), a2(<Body as AsRef<[u32]>>::as_ref(&s.0))));
      let want = a2(<Body as AsMut<[u32]>>::as_mut(&mut s.0));
      let got = { let r = <W as AsMut<[u32]>>::as_mut(s); r[0] = 82; a2(r) };
      out.push(chk(id, "W: AsMut<[u32]> is Body's own", got, want)); }
    out.push(chk(id, "W: write landed where Body's own AsMut points", (0, (v == vec![1, 82, 3, 4]) as usize), (0, 1)));
    let mut buf = [0u64; 4];
    { let p: &mut P = unsafe { &mut *(std::ptr::slice_from_raw_parts_mut(buf.as_mut_ptr() as *mut u32, 3) as *mut P) };
      p.len = 3; p.body.0.copy_from_slice(&[10, 20, 30]);
      out.push(chk(id, "P: AsRef<[u32]> is the tail field's own", a2(<P as AsRef<[u32]>>::as_ref(p)), a2(<Body as AsRef<[u32]>>::as_ref(&p.body))));
      let want = a2(<Body as AsMut<[u32]>>::as_mut(&mut p.body));
      let got = { let r = <P as AsMut<[u32]>>::as_mut(p); r[0] = 99; a2(r) };
      out.push(chk(id, "P: AsMut<[u32]> is the tail field's own", got, want));
      out.push(chk(id, "P: write visible in the tail field, len untouched", (p.len, (p.body.0 == [10, 99, 30]) as usize), (3, 1))); }
    { let q: &mut Q = unsafe { &mut *(std::ptr::slice_from_raw_parts_mut(buf.as_mut_ptr() as *mut u32, 3) as *mut Q) };
      out.push(chk(id, "Q: AsRef<usize> is the sized sibling", a2(<Q as AsRef<usize>>::as_ref(q)), a2(&q.len)));
      out.push(chk(id, "Q: forward AsRef<[u32]> is the tail field's own", a2(<Q as AsRef<[u32]>>::as_ref(q)), a2(<Body as AsRef<[u32]>>::as_ref(&q.body)))); }
}
"""),
    ("#[derive(Deref, DerefMut)] struct D(str) / struct E([u32]) / #[deref(forward)] struct F(Body) / struct T { len: usize, #[deref] #[deref_mut] body: Body }", r"""
#[derive(derive_more::Deref, derive_more::DerefMut)]
#[repr(transparent)]
pub struct D(str);
#[derive(derive_more::Deref, derive_more::DerefMut)]
#[repr(transparent)]
pub struct E([u32]);
#[derive(derive_more::Deref, derive_more::DerefMut)]
#[deref(forward)]
#[deref_mut(forward)]
#[repr(transparent)]
pub struct F(Body);
#[derive(derive_more::Deref, derive_more::DerefMut)]
#[repr(C)]
pub struct T { pub len: usize, #[deref] #[deref_mut] pub body: Body }
pub fn run(id: &str, out: &mut Vec<String>) {
    let mut backing = String::from("hello");
    { let s: &mut D = unsafe { &mut *(backing.as_mut_str() as *mut str as *mut D) };
      let want = a2(&s.0);
      out.push(chk(id, "D: deref is the str field", a2::<str>(&**s), want));
      let got = { let r: &mut str = &mut **s; r.make_ascii_uppercase(); a2(r) };
      out.push(chk(id, "D: deref_mut is the str field", got, want)); }
    out.push(chk(id, "D: write visible", (0, (backing == "HELLO") as usize), (0, 1)));
    let mut v = vec![1u32, 2, 3, 4];
    { let s: &mut E = unsafe { &mut *(&mut v[..] as *mut [u32] as *mut E) };
      let want = a2(&s.0);
      out.push(chk(id, "E: deref is the slice field", a2::<[u32]>(&**s), want));
      let got = { let r: &mut [u32] = &mut **s; r[0] = 61; a2(r) };
      out.push(chk(id, "E: deref_mut is the slice field", got, want)); }
    { let s: &mut F = unsafe { &mut *(&mut v[..] as *mut [u32] as *mut F) };
      out.push(chk(id, "F: forwarded deref is Body's own", a2::<[u32]>(&**s), a2(<Body as Deref>::deref(&s.0))));
      let want = a2(<Body as DerefMut>::deref_mut(&mut s.0));
      let got = { let r: &mut [u32] = &mut **s; r[0] = 62; a2(r) };
      out.push(chk(id, "F: forwarded deref_mut is Body's own", got, want)); }
    out.push(chk(id, "E/F: writes visible", (0, (v == vec![61, 62, 3, 4]) as usize), (0, 1)));
    let mut buf = [0u64; 4];
    { let t: &mut T = unsafe { &mut *(std::ptr::slice_from_raw_parts_mut(buf.as_mut_ptr() as *mut u32, 3) as *mut T) };
      t.len = 3;
      let want = a2(&t.body);
      out.push(chk(id, "T: deref is the unsized tail field", a2::<Body>(&**t), want));
      let got = { let r: &mut Body = &mut **t; r.0[2] = 7; a2(r) };
      out.push(chk(id, "T: deref_mut is the unsized tail field", got, want));
      out.push(chk(id, "T: write visible", (t.len, (t.body.0 == [0, 0, 7]) as usize), (3, 1))); }
}
"""),
    ("#[derive(Index, IndexMut)] struct I([u32]);  struct J { len: usize, #[index] #[index_mut] body: [u32] }", r"""
#[derive(derive_more::Index, derive_more::IndexMut)]
#[repr(transparent)]
pub struct I([u32]);
#[derive(derive_more::Index, derive_more::IndexMut)]
#[repr(C)]
pub struct J { pub len: usize, #[index] #[index_mut] pub body: [u32] }
pub fn run(id: &str, out: &mut Vec<String>) {
    let mut v = vec![1u32, 2, 3, 4];
    { let s: &mut I = unsafe { &mut *(&mut v[..] as *mut [u32] as *mut I) };
      out.push(chk(id, "I: s[1] is the field's own", a2(&s[1usize]), a2(&s.0[1])));
      out.push(chk(id, "I: s[1..3] is the field's own", a2(&s[1..3]), a2(&s.0[1..3])));
      let want = a2(&s.0[2..]);
      let got = { let r: &mut [u32] = &mut s[2..]; r[0] = 93; a2(r) };
      out.push(chk(id, "I: index_mut s[2..] is the field's own", got, want)); }
    out.push(chk(id, "I: write visible", (0, (v == vec![1, 2, 93, 4]) as usize), (0, 1)));
    let mut buf = [0u64; 4];
    { let j: &mut J = unsafe { &mut *(std::ptr::slice_from_raw_parts_mut(buf.as_mut_ptr() as *mut u32, 3) as *mut J) };
      j.len = 3;
      out.push(chk(id, "J: j[1] is the tail field's own", a2(&j[1usize]), a2(&j.body[1])));
      j[..][2] = 5;
      out.push(chk(id, "J: write visible", (j.len, (j.body == [0, 0, 5]) as usize), (3, 1))); }
}
"""),
]


NONCOPY_INDEX = [
    # (index expression, its type, Output)
    ("1..3", "std::ops::Range<usize>", "[u32]"),
    ("1..", "std::ops::RangeFrom<usize>", "[u32]"),
    ("0..=1", "std::ops::RangeInclusive<usize>", "[u32]"),
    ("..", "std::ops::RangeFull", "[u32]"),
    ('Key("ab".to_string())', "Key", "u32"),
]


def emit_case(case, real):
    """Rust module exercising every impl of the REAL expansion of this case."""
    d = case["derive"]
    flav = case["flavour"]
    n = len(case["fattrs"])
    sinst = FLAVOURS[flav][3]
    ftyi = rust_ty(inst(flav, FLAVOURS[flav][2]))
    acc = ["s." + (NAMES[j] if case["named"] else str(j)) for j in range(n)]
    derives = {"DerefMut": "derive_more::Deref, derive_more::DerefMut",
               "IndexMut": "derive_more::Index, derive_more::IndexMut"}.get(d, "derive_more::" + d)
    if case["named"]:
        ctor = "S { " + ", ".join("%s: %s::new(%d)" % (NAMES[j], CTOR[flav], j) for j in range(n)) + " }"
    else:
        ctor = "S(" + ", ".join("%s::new(%d)" % (CTOR[flav], j) for j in range(n)) + ")"
    L = ["use super::*;", "#[derive(%s)]" % derives, item_src(case, pub=True, both=True),
         "pub fn mk() -> %s { %s }" % (sinst, ctor),
         "pub fn run(id: &str, out: &mut Vec<String>) {"]
    fps = "vec![" + ", ".join('format!("{:?}", %s)' % a for a in acc) + "]"

    def cand(fmt):
        return "[" + ", ".join(fmt % {"a": a} for a in acc) + "]"

    def line(op, *kv):
        fm = "\\t".join(["{}", op] + ["%s={}" % k for (k, _) in kv])
        L.append('    out.push(format!("%s", id%s));' % (fm, "".join(", " + v for (_, v) in kv)))

    ops = []
    for k, (tr, rk, assoc, body) in enumerate(real):
        bk = body_kind(body)
        if bk == "opaque" and d in ("Deref", "DerefMut"):
            bk = "forwarded" if case["_exp"][2] else "direct"
        if d == "Deref":
            tgt = ftyi if bk == "direct" else "Inner"
            c = cand("addr(&%(a)s)") if bk == "direct" else cand("addr(<" + ftyi + " as Deref>::deref(&%(a)s))")
            L += ["  { let s = mk(); let cand = %s; let r: &%s = &*s;" % (c, tgt)]
            line("deref", ("pos", "pos(&cand, &addr(r))"))
            L += ["  }"]
            ops.append(("deref", bk))
        elif d == "DerefMut":
            tgt = ftyi if bk == "direct" else "Inner"
            c = cand("addr(&mut %(a)s)") if bk == "direct" else cand("addr(<" + ftyi + " as DerefMut>::deref_mut(&mut %(a)s))")
            L += ["  { let mut s = mk(); let cand = %s; let before = %s;" % (c, fps),
                  "    let got = { let r: &mut %s = &mut *s; r.tag = 777; addr(r) }; let after = %s;" % (tgt, fps)]
            line("deref_mut", ("pos", "pos(&cand, &got)"), ("changed", "changed(&before, &after)"))
            L += ["  }"]
            ops.append(("deref_mut", bk))
        elif d == "Index":
            c = cand("addr(<" + ftyi + " as Index<usize>>::index(&%(a)s, 1))")
            L += ["  { let s = mk(); let cand = %s; let r: &u32 = &s[1usize];" % c]
            line("index", ("pos", "pos(&cand, &addr(r))"), ("val", "*r"))
            L += ["  }"]
            ops.append(("index", bk))
            # the wrapper must accept exactly the index types the field accepts - also those that are not Copy -
            # and return the very slice / element (address, length, contents) the field's own Index returns
            for (ix, ity, out) in NONCOPY_INDEX:
                f = "|r: &%s| (addr(r), %s, format!(\"{:?}\", r))" % (out, "r.len()" if out == "[u32]" else "1usize")
                c = cand("f(<" + ftyi + " as Index<" + ity + ">>::index(&%(a)s, " + ix + "))")
                L += ["  { let s = mk(); let f = %s; let cand = %s; let got = f(&s[%s]);" % (f, c, ix)]
                line("index_nc", ("ix", '"%s"' % ity.split("::")[-1]), ("pos", "pos(&cand, &got)"), ("val", "got.2"))
                L += ["  }"]
                ops.append(("index_nc", bk))
        elif d == "IndexMut":
            c = cand("addr(<" + ftyi + " as IndexMut<usize>>::index_mut(&mut %(a)s, 1))")
            L += ["  { let mut s = mk(); let cand = %s; let before = %s;" % (c, fps),
                  "    let got = { let r: &mut u32 = &mut s[1usize]; *r = 777; addr(r) }; let after = %s;" % fps]
            line("index_mut", ("pos", "pos(&cand, &got)"), ("changed", "changed(&before, &after)"))
            L += ["  }"]
            ops.append(("index_mut", bk))
            for (ix, ity, out) in NONCOPY_INDEX:
                f = "|r: &%s| (addr(r), %s)" % (out, "r.len()" if out == "[u32]" else "1usize")
                c = cand("f(<" + ftyi + " as IndexMut<" + ity + ">>::index_mut(&mut %(a)s, " + ix + "))")
                wr = "r[0] = 777;" if out == "[u32]" else "*r = 777;"
                L += ["  { let mut s = mk(); let f = %s; let cand = %s; let before = %s;" % (f, c, fps),
                      "    let got = { let r: &mut %s = &mut s[%s]; %s f(r) }; let after = %s;" % (out, ix, wr, fps)]
                line("index_mut_nc", ("ix", '"%s"' % ity.split("::")[-1]), ("pos", "pos(&cand, &got)"),
                     ("changed", "changed(&before, &after)"))
                L += ["  }"]
                ops.append(("index_mut_nc", bk))
        elif d == "IntoIterator":
            if rk == "RNo":
                c = "vec![" + ", ".join("{ let s = mk(); <%s as IntoIterator>::into_iter(%s).collect::<Vec<u32>>() }" % (ftyi, a) for a in acc) + "]"
                L += ["  { let cand: Vec<Vec<u32>> = %s; let got: Vec<u32> = <%s as IntoIterator>::into_iter(mk()).collect();" % (c, sinst)]
                line("iter_owned", ("pos", "pos(&cand, &got)"), ("vals", 'format!("{:?}", got)'))
                L += ["  }"]
                ops.append(("iter_owned", bk))
            elif rk == "RRef":
                c = "vec![" + ", ".join("<&%s as IntoIterator>::into_iter(&%s).map(|x| addr(x)).collect::<Vec<usize>>()" % (ftyi, a) for a in acc) + "]"
                L += ["  { let s = mk(); let cand: Vec<Vec<usize>> = %s;" % c,
                      "    let got: Vec<usize> = <&SINST as IntoIterator>::into_iter(&s).map(|x| addr(x)).collect();",
                      "    let vals: Vec<u32> = <&SINST as IntoIterator>::into_iter(&s).map(|x| *x).collect();"]
                line("iter_ref", ("pos", "pos(&cand, &got)"), ("vals", 'format!("{:?}", vals)'))
                L += ["  }"]
                ops.append(("iter_ref", bk))
            else:
                c = "vec![" + ", ".join("<&mut %s as IntoIterator>::into_iter(&mut %s).map(|x| addr(x)).collect::<Vec<usize>>()" % (ftyi, a) for a in acc) + "]"
                L += ["  { let mut s = mk(); let cand: Vec<Vec<usize>> = %s;" % c,
                      "    let got: Vec<usize> = <&mut SINST as IntoIterator>::into_iter(&mut s).map(|x| addr(x)).collect();",
                      "    let vals: Vec<u32> = <&mut SINST as IntoIterator>::into_iter(&mut s).map(|x| *x).collect();",
                      "    let before = %s;" % fps,
                      "    for (k, x) in <&mut SINST as IntoIterator>::into_iter(&mut s).enumerate() { *x = 1000 + k as u32; }",
                      "    let after = %s;" % fps]
                line("iter_mut", ("pos", "pos(&cand, &got)"), ("vals", 'format!("{:?}", vals)'),
                     ("changed", "changed(&before, &after)"))
                L += ["  }"]
                ops.append(("iter_mut", bk))
        else:  # AsRef / AsMut
            mut = d == "AsMut"
            tgt = tr[1]
            if tgt == "__AsT":
                insts = [("fld", ftyi), ("inner", "Inner"), ("slice", "[u32]")]
            else:
                lt = case["_targets"][k]
                insts = [(rt_class(flav, lt), rust_ty(inst(flav, lt)))]
            for (cls, ri) in insts:
                trn = "AsMut" if mut else "AsRef"
                m = "as_mut" if mut else "as_ref"
                amp = "&mut " if mut else "&"
                fwd = cand("addr(<" + ftyi + " as " + trn + "<" + ri + ">>::" + m + "(" + amp + "%(a)s))")
                idn = cand("addr(" + amp + "%(a)s)") if cls == "fld" else "[0usize; 0]"
                wr = {"fld": "r.tag = 777;", "inner": "r.tag = 777;", "slice": "r[0] = 777;", "arr": "r[0] = 777;",
                      "str": "r.make_ascii_uppercase();"}[cls]
                if mut:
                    L += ["  { let mut s = mk(); let ident = %s; let fwd = %s; let before = %s;" % (idn, fwd, fps),
                          "    let got = { let r: &mut %s = <%s as AsMut<%s>>::as_mut(&mut s); %s addr(r) }; let after = %s;" % (ri, sinst, ri, wr, fps)]
                    own = ("pos(&[" + ", ".join("%s.tag" % a for a in acc) + "], &777u32)") if cls == "fld" else '"-"'
                    line("as_mut", ("k", str(k)), ("cls", '"%s"' % cls), ("ident", "pos(&ident, &got)"), ("fwd", "pos(&fwd, &got)"),
                         ("changed", "changed(&before, &after)"), ("own", own))
                else:
                    L += ["  { let s = mk(); let ident = %s; let fwd = %s;" % (idn, fwd),
                          "    let got = { let r: &%s = <%s as AsRef<%s>>::as_ref(&s); addr(r) };" % (ri, sinst, ri)]
                    line("as_ref", ("k", str(k)), ("cls", '"%s"' % cls), ("ident", "pos(&ident, &got)"), ("fwd", "pos(&fwd, &got)"))
                L += ["  }"]
                ops.append((m, k, cls, bk))
    L.append("}")
    return ("\n".join(L) + "\n").replace("SINST", sinst), ops


def coherent(case, real):
    """AsRef/AsMut: would rustc accept the impl set (no two impls for the same target after instantiation)?"""
    seen = set()
    for k, (tr, rk, assoc, body) in enumerate(real):
        if tr[1] == "__AsT":
            return len(real) == 1
        t = case["_targets"][k]
        try:
            key = rt_class(case["flavour"], t)    # two impls overlap iff they coincide for the instantiation used
        except ValueError:
            return False    # a listed type the run-time prelude does not define (e.g. struct-level `skip` read as a type)
        if key in seen:
            return False
        seen.add(key)
    if case["flavour"] == "t" and len(real) > 1:
        return False        # `impl<T> AsRef<T> for S<T>` overlaps every other impl
    return True


def real_targets(case, orc):
    """the listed type (Python AST) of every impl, in expansion order, per the oracle's reading of the attributes"""
    return [t for (_, t, _) in orc[1]]


# ------------------------------------------------------------------ the check

TAGS = {"id", "qual", "app", "ref", "slice", "array", "paren", "bare", "list", "nv", "empty", "skip", "forward", "types",
        "malformed"}


def detuple(x):
    """JSON round trip of a case: tagged lists back to tuples"""
    if isinstance(x, dict):
        return {k: detuple(v) for k, v in x.items()}
    if isinstance(x, list):
        if x and isinstance(x[0], str) and x[0] in TAGS and not (len(x) > 1 and all(isinstance(y, str) and y in PARAM_SRC for y in x)):
            if x[0] in ("list", "qual"):
                return (x[0], list(x[1]))
            return tuple([x[0]] + [detuple(y) for y in x[1:]])
        return [detuple(y) for y in x]
    return x


def classify_reject(case):
    d = case["derive"]
    marks = []
    for fa in case["fattrs"]:
        if not fa:
            marks.append("N")
        elif fa[0][0] == "list" and "ignore" in fa[0][1]:
            marks.append("I")
        else:
            marks.append("P")
    if case["sattrs"]:
        if "P" in marks and "N" in marks:
            return "reject-positive-under-struct-attr"
        return "reject-designated-field"
    first = next((m for m in marks if m != "N"), None)
    if first == "I" and "P" in marks and "N" in marks:
        return "reject-positive-after-ignore"
    return "reject-designated-field"


def run(tier, seed, replay):
    chk = common.Check("C14", tier, seed)
    rng = chk.rng
    inproc = common.build_inproc()
    st = common.check_proofs(chk, "C14")

    if replay:
        cases = [detuple(json.load(open(replay))["replay"]["case"])]
    else:
        cases = gen_state_cases(rng, tier) + gen_as_cases(rng, tier) + gen_exotic_cases(rng, tier) + \
            gen_non_struct_cases(rng, tier)
        add_where_clauses(rng, cases)
    for k, c in enumerate(cases):
        c["id"] = "m%d" % k
        chk.bump("derive:" + c["derive"])
        chk.bump("group:" + c.get("group", "replay"))
    chk.log("%d generated structs" % len(cases))

    # ---- real expansion (in-process, unmodified sources)
    resps = common.run_jsonl(inproc, [{"cmd": "expand", "derive": c["derive"], "item": item_src(c)} for c in cases])
    # ---- the Coq model on the same inputs
    exprs_all = [coq_expr(c) for c in cases]
    exprs = [e for e in exprs_all if e is not None]
    names = {}
    terms = common.coq_eval(["Verif.C14.Model"], exprs, batch=300, tag="c14")
    names = {v: (k if not k.startswith("'") else k) for k, v in IDS.items()}

    def pub(c):
        return {k: v for k, v in c.items() if not k.startswith("_") and k != "id"}

    n_tie = 0
    runtime = []
    rejected = {}
    it_terms = iter(terms)
    terms = [next(it_terms) if e is not None else None for e in exprs_all]
    for c, r, t in zip(cases, resps, terms):
        src = item_src(c)
        try:
            real = canon_real(r, c)
        except (AssertionError, ValueError, IndexError, KeyError) as e:
            chk.violation("unreadable-expansion", {"case": pub(c), "item": src, "response": r, "error": repr(e)},
                          "the expansion of `%s` (%s) has a shape the canonicaliser does not know" % (src, c["derive"]))
            continue
        if real[0] == "internal":
            chk.violation("expander-internal-failure", {"case": pub(c), "item": src, "response": real[1]},
                          "derive(%s) on `%s` fails internally: %s" % (c["derive"], src, str(real[1])[:200]))
            continue
        if t is None:
            model = real          # no Coq rendering of this field type: doc-rule oracle and run time only
            chk.bump("no-model (dyn / fn field type)")
        else:
            model = canon_model(t, names)
            n_tie += 1
        opaque = real[0] == "impls" and any(im[3] is None or im[3][0] == "opaque" for im in real[1])
        if opaque:
            chk.violation("unreadable-expansion", {"case": pub(c), "item": src, "model": model, "code": real},
                          "the expansion of `%s` (%s) has a body the canonicaliser does not know (model: %s)" %
                          (src, c["derive"], str(model)[:200]))
        elif model != real:
            chk.violation("tie-model", {"case": pub(c), "item": src, "model": model, "code": real},
                          "Coq model and real expander disagree on derive(%s) `%s`: model %s, code %s" %
                          (c["derive"], src, str(model)[:300], str(real)[:300]))
        if "x" in c:
            chk.count((c["derive"], src), True)
            chk.bump("real:" + real[0] + "(tie only)")
            if real[0] == "impls":
                for im in real[1]:
                    chk.bump("exotic:" + body_kind(im[3]))
            continue
        if c.get("kind", "struct") != "struct":
            # docs: "Deriving X is not supported for enums" (nor unions): a diagnostic, whatever the attributes
            chk.count((c["derive"], src), True)
            chk.bump("real:" + real[0] + "(" + c["kind"] + ")")
            if real[0] != "diag":
                chk.violation("accepts-non-struct", {"case": pub(c), "item": src, "code": real},
                              "derive(%s) on the %s `%s` must be rejected but expands to %s" %
                              (c["derive"], c["kind"], src, str(real)[:300]))
            continue
        # ---- oracle 1: the doc rules decide the designated field and the kind of call
        is_as = c["derive"] in ("AsRef", "AsMut")
        orc = oracle_as(c) if is_as else oracle_state(c)
        nontrivial = len(c["fattrs"]) >= 2 or bool(c["sattrs"]) or any(c["fattrs"])
        chk.count((c["derive"], src), nontrivial)
        chk.bump("real:" + real[0])
        if orc[0] == "diag":
            if real[0] != "diag":
                chk.violation("accepts-undesignated", {"case": pub(c), "item": src, "code": real},
                              "derive(%s) on `%s` must be rejected (no single designated field / malformed attribute) "
                              "but expands to %s" % (c["derive"], src, str(real)[:300]))
            continue
        if real[0] == "diag":
            # A fail-safe compile-time diagnostic on an input whose attributes designate a field is NOT a C14
            # violation (C14 constrains what an emitted impl operates on; acceptance is C01/C17): counted, not reported.
            cls = "as-reject-valid" if is_as else classify_reject(c)
            chk.bump("rejected-although-designated:" + cls)
            rejected.setdefault(cls, {"n": 0, "example": src, "derive": c["derive"], "diagnostic": real[1],
                                      "designated_field": orc[1] if not is_as else [x[0] for x in orc[1]]})["n"] += 1
            continue
        impls = real[1]
        ok = True
        if is_as:
            exp = [(i, "__AsT" if tt == "__AsT" else canon_ty(tt), b) for (i, tt, b) in orc[1]]
            got = []
            for (tr, rk, assoc, body) in impls:
                bk = body_kind(body)
                if bk == "opaque":
                    bk = next((b for (i_, t_, b) in exp if i_ == body_field(body) and t_ == tr[1]), "opaque")
                elif bk == "specialized":
                    # the macro defers to rustc: identity iff the two types are the same type
                    same = canon_ty(py_norm(FLAVOURS[c["flavour"]][2])) == canon_ty(py_norm(py_norm_str(body[3], c)))
                    bk = "ident" if same else "fwd"
                else:
                    bk = {"direct": "ident", "forwarded": "fwd"}.get(bk, bk)
                got.append((body_field(body), tr[1], bk))
            if got != exp:
                # same (field, target) list but another behaviour: still compiled, the run-time oracle (address of the
                # field / of the field's own impl result) judges it as well
                ok = [(f, t_) for (f, t_, _) in got] == [(f, t_) for (f, t_, _) in exp]
                chk.violation("as-impl-set", {"case": pub(c), "item": src, "expected": exp, "code": got},
                              "derive(%s) on `%s`: expected impls (field, target, behaviour) %s, expansion has %s" %
                              (c["derive"], src, exp, got))
            c["_targets"] = real_targets(c, orc)
            c["_exp"] = orc[1]
        else:
            (_, i, fwd, forms) = orc
            for (tr, rk, assoc, body) in impls:
                if body_field(body) != i:
                    ok = False
                    chk.violation("wrong-field", {"case": pub(c), "item": src, "expected_field": i, "code": real},
                                  "derive(%s) on `%s` delegates to field %d, the designated field is %d" %
                                  (c["derive"], src, body_field(body), i))
                bk = body_kind(body)
                want = "forwarded" if (fwd or c["derive"] in ("Index", "IndexMut", "IntoIterator")) else "direct"
                if bk != want and bk != "opaque":
                    ok = False
                    chk.violation("wrong-call-kind", {"case": pub(c), "item": src, "expected": want, "code": real},
                                  "derive(%s) on `%s`: expected a %s body, got %s" % (c["derive"], src, want, body))
            if forms is not None:
                have = [{"RNo": "owned", "RRef": "ref", "RMut": "ref_mut"}[rk] for (_, rk, _, _) in impls]
                missing = [f for f in forms if f not in have]
                extra = [f for f in have if f not in forms]
                if missing:
                    ok = False
                    chk.violation("iter-missing-form", {"case": pub(c), "item": src, "requested": forms, "have": have},
                                  "derive(IntoIterator) on `%s`: requested forms %s, generated %s" % (src, forms, have))
                if extra:
                    chk.bump("note:iter-unrequested-form:" + ",".join(extra))
                    c["_extra_forms"] = extra
            c["_exp"] = orc
        if ok and impls and (not is_as or coherent(c, impls)):
            runtime.append((c, impls))
        chk.sample({"item": src, "derive": c["derive"], "expansion": [str(b[3]) for b in impls][:3]}, limit=10)
    chk.cov["traces_validated_against_impl"] = n_tie

    # ---- oracle 2: the real macro + rustc at run time
    limit = 700 if tier == "quick" else 8000
    if len(runtime) > limit:
        # round-robin over (derive, flavour, multi-field?) strata, multi-field structs (the property's point) 2:1
        strata = {}
        for x in runtime:
            strata.setdefault((x[0]["derive"], x[0]["flavour"], len(x[0]["fattrs"]) >= 2), []).append(x)
        for k in sorted(strata):
            rng.shuffle(strata[k])
        picked = []
        while len(picked) < limit and any(strata.values()):
            for k in sorted(strata):
                take = 4 if k[2] else 2
                picked += strata[k][:take]
                strata[k] = strata[k][take:]
        runtime = picked[:limit]
    chk.log("%d structs compiled with the real proc-macro" % len(runtime))
    run_rt(chk, runtime, with_unsized=not replay)

    extra = sum(v for k, v in chk.hist.items() if k.startswith("note:iter-unrequested-form"))
    if extra:
        chk.notes.append("side observation (not a C14 violation): %d IntoIterator structs get an `owned` impl nobody asked "
                         "for, e.g. `#[into_iterator(ref)]` alone yields impls for S and &S (utils.rs:448-450: `a && b || c` "
                         "where the comment describes `a && b && c`); the extra impl still delegates to the designated field" % extra)

    REJECT_WHAT = {
        "reject-positive-after-ignore": "the first attributed field is `ignore`, another field is marked positively and a third "
                                        "carries no attribute (utils.rs:416-438 takes the default from the FIRST attributed field); "
                                        "witness of C14_selection_refuted",
        "reject-positive-under-struct-attr": "a struct-level attribute re-enables unattributed fields next to a positively marked "
                                             "one (utils.rs:837 + :440); witness of C14_selection_struct_attr_refuted",
    }
    if rejected:
        chk.notes.append("rejected although the doc rules designate a field (fail-safe diagnostics, NOT C14 violations - acceptance "
                         "of attribute combinations belongs to C01/C17): " +
                         "; ".join("%s x%d, e.g. derive(%s) `%s` -> %s [%s]" %
                                   (k, v["n"], v["derive"], v["example"], v["diagnostic"], REJECT_WHAT.get(k, "unclassified"))
                                   for k, v in sorted(rejected.items())))

    if getattr(chk, "proof_broken", False) and not chk.violations:
        chk.violation("proof-broken", chk.proof_failure, "a C14 proof obligation no longer checks: %s" %
                      chk.proof_failure["failed"], no_input=True)
    elif getattr(chk, "proof_broken", False):
        chk.notes.append("proof obligation broken at %s; failing inputs found by the differential run" % chk.proof_failure["failed"])

    return chk.finish(
        proof=st,
        rule="structs with 1..4 fields of EQUAL type (3 flavours: concrete `Fld`, generic `G<T>`, bare parameter `T`; tuple and "
             "named) x 7 derives: every none/positive/ignore pattern (positive spelled bare / forward / not(forward) / "
             "owned,ref,ref_mut subsets), struct-level forward / ref kinds, malformed and duplicated attributes; AsRef/AsMut: "
             "struct- and field-level forward / type lists (field type, alias, parenthesised, `crate::`-qualified, other types; "
             "1-3 entries, all orders), every none/bare/skip/forward/types pattern over 2..4 fields, merged and conflicting "
             "attributes; lists mixing generic and non-generic listed types in every order and split over several attributes "
             "(const-generic structs with a non-generic field), field types mentioning a parameter before a non-parameter "
             "lifetime (path argument, dyn bound, fn type), struct-level where-clauses, enums (attributes at every level, "
             "well-formed or not) and unions. Every struct goes through the real expander (in-process) and the Coq model (canonical impl lists "
             "compared); every accepted, coherent struct (sampled to the tier's budget, multi-field first) is compiled with the "
             "real proc-macro and each impl is observed at run time. non-trivial = at least two fields or at least one "
             "attribute; distinct by (derive, struct source)",
        trusted=TRUSTED,
        extra={"rejected_although_designated": rejected})


def py_norm_str(s, case):
    """canonical type string of a listed type -> its Python AST (looked up among the case's listed types)"""
    for fa in [case["sattrs"]] + case["fattrs"]:
        for a in fa:
            if a[0] == "types":
                for t in a[1]:
                    if canon_ty(t) == s:
                        return t
    if s in ("skip", "ignore"):
        return tid(s)
    raise ValueError(s)


def run_rt(chk, runtime, with_unsized=True):
    if not runtime:
        return
    name = "c14_rt"
    files = {}
    mods = []
    plan = {}
    for (c, impls) in runtime:
        src, ops = emit_case(c, impls)
        files[c["id"] + ".rs"] = src
        mods.append(c["id"])
        plan[c["id"]] = (c, impls, ops)
    uplan = {}
    if with_unsized:
        for k, (what, src) in enumerate(UNSIZED):
            files["u%d.rs" % k] = UNSIZED_COMMON + src
            mods.append("u%d" % k)
            uplan["u%d" % k] = what
    main = PRELUDE + "\n" + "\n".join("mod %s;" % m for m in mods) + "\n\nfn main() {\n    let mut out: Vec<String> = Vec::new();\n" + \
        "\n".join('    %s::run("%s", &mut out);' % (m, m) for m in mods) + \
        "\n    for l in out { println!(\"{}\", l); }\n}\n"
    d = common.make_crate(name, main, extra_files=files)
    rc, err, out = common.run_crate(d, name)
    if rc != 0 and out is None:
        # bisect by module using the spans of the compiler's errors
        rc2, js = common.cargo(d, ["check", "--message-format=json"])
        bad = {}
        for l in js.splitlines():
            try:
                m = json.loads(l)
            except Exception:
                continue
            msg = m.get("message") or {}
            if msg.get("level") != "error":
                continue
            for sp in msg.get("spans", []):
                mm = re.match(r"src/([mu]\d+)\.rs$", sp.get("file_name", ""))
                if mm:
                    bad.setdefault(mm.group(1), msg.get("rendered") or msg.get("message"))
        if not bad:
            raise common.BuildError("the generated C14 crate does not compile and no module can be blamed:\n" + err[-3000:])
        for m, text in sorted(bad.items()):
            if m in uplan:
                chk.violation("does-not-compile", {"unsized_corpus": m, "item": uplan[m], "rustc": text[-1500:]},
                              "unsized selected field: `%s` expands but rustc rejects the result: %s" %
                              (uplan[m], text.strip().splitlines()[0][:200]))
                continue
            c = plan[m][0]
            cls = "does-not-compile"
            if c["derive"] in ("Index", "IndexMut") and re.search(r"E0277|E0608|cannot be indexed|cannot index into|: Copy`", text):
                # the field accepts this index type (the candidates call its own Index impl), the derived wrapper does not
                cls = "index-type-rejected"
            chk.violation(cls, {"case": {k: v for k, v in c.items() if not k.startswith("_") and k != "id"},
                                               "item": item_src(c, pub=True, both=True), "rustc": text[-1500:]},
                          "derive(%s) on `%s` expands but rustc rejects the result: %s" %
                          (c["derive"], item_src(c), text.strip().splitlines()[0][:200]))
        mods2 = [m for m in mods if m not in bad]
        main = PRELUDE + "\n" + "\n".join("mod %s;" % m for m in mods2) + "\n\nfn main() {\n    let mut out: Vec<String> = Vec::new();\n" + \
            "\n".join('    %s::run("%s", &mut out);' % (m, m) for m in mods2) + \
            "\n    for l in out { println!(\"{}\", l); }\n}\n"
        with open(os.path.join(d, "src", "main.rs"), "w") as fh:
            fh.write(main)
        rc, err, out = common.run_crate(d, name)
        if rc != 0 and out is None:
            raise common.BuildError("the generated C14 crate still does not compile after removing %s:\n%s" %
                                    (sorted(bad), err[-3000:]))
        mods = mods2
    if rc != 0:
        raise common.BuildError("the generated C14 crate crashed (rc=%s):\n%s" % (rc, (err or "")[-2000:]))
    obs = {}
    for l in out.splitlines():
        parts = l.split("\t")
        obs.setdefault(parts[0], []).append((parts[1], dict(p.split("=", 1) for p in parts[2:])))
    n_obs = 0
    for m in [x for x in mods if x in uplan]:
        got = obs.get(m, [])
        if not got:
            chk.violation("rt-missing-observation", {"unsized_corpus": m, "item": uplan[m]}, "unsized module %s printed nothing" % m)
        for (label, kv) in got:
            n_obs += 1
            chk.count(("unsized", m, label), True)
            chk.bump("rt:unsized")
            if kv.get("res") != "ok":
                chk.violation("rt-unsized-wrong-reference", {"unsized_corpus": m, "item": uplan[m], "check": label, "observed": kv},
                              "unsized selected field, `%s`: %s - %s" % (uplan[m], label, kv.get("res")))
    mods = [x for x in mods if x not in uplan]
    for m in mods:
        c, impls, ops = plan[m]
        got = obs.get(m, [])
        src = item_src(c)
        rep = {"case": {k: v for k, v in c.items() if not k.startswith("_") and k != "id"}, "item": src, "observed": got}
        if len(got) != len(ops):
            chk.violation("rt-missing-observation", rep, "run-time module of `%s` printed %d of %d observations" % (src, len(got), len(ops)))
            continue
        exp = c["_exp"]
        is_as = c["derive"] in ("AsRef", "AsMut")
        vals = {}
        for (op, kv), meta in zip(got, ops):
            n_obs += 1
            chk.count((c["derive"], src, op, kv.get("k"), kv.get("cls"), kv.get("ix")), True)
            chk.bump("rt:" + op)
            if "cls" in kv:
                chk.bump("rt:target-class:" + kv["cls"])
            if not is_as:
                i = exp[1]
                want = "[%d]" % i
                fwd_expected = c["derive"] in ("Index", "IndexMut", "IntoIterator") or bool(exp[2])
                if kv["pos"] == "[]" and fwd_expected:
                    # not what ANY field's own trait impl returns (called explicitly as <FieldTy as Trait>::method)
                    chk.violation("rt-forward-not-trait-impl", dict(rep, op=op, expected_field=i),
                                  "derive(%s) on `%s`: %s does not return what the field type's own %s impl returns when called "
                                  "explicitly on field %d (nor on any other field)%s" %
                                  (c["derive"], src, op, c["derive"], i,
                                   ": elements %s" % kv["vals"] if "vals" in kv else (": value %s" % kv["val"] if "val" in kv else "")))
                elif kv["pos"] != want:
                    chk.violation("rt-wrong-address", dict(rep, op=op, expected_field=i),
                                  "derive(%s) on `%s`: %s returns the storage of field(s) %s, the designated field is %d" %
                                  (c["derive"], src, op, kv["pos"], i))
                if "changed" in kv and kv["changed"] != want:
                    chk.violation("rt-write-elsewhere", dict(rep, op=op, expected_field=i),
                                  "derive(%s) on `%s`: a write through %s changed field(s) %s, expected exactly field %d" %
                                  (c["derive"], src, op, kv["changed"], i))
                if "vals" in kv:
                    vals[op] = kv["vals"]
                    want_vals = "[%d, %d, %d]" % (10 * i + 3, 10 * i + 2, 10 * i + 1)   # the field's OWN (reversed) order
                    if kv["vals"] != want_vals:
                        chk.violation("rt-iter-elements", dict(rep, op=op, expected=want_vals),
                                      "derive(IntoIterator) on `%s`: %s yields %s, the field's own into_iter yields %s" %
                                      (src, op, kv["vals"], want_vals))
                if op == "index" and kv["val"] != str(10 * i + 2):
                    chk.violation("rt-index-value", dict(rep, op=op), "derive(Index) on `%s`: s[1] = %s, field %d's own index gives %d" %
                                  (src, kv["val"], i, 10 * i + 2))
            else:
                k = int(kv["k"])
                (i, tt, beh) = exp[k]
                cls = kv["cls"]
                want = "[%d]" % i
                if beh == "ident":
                    good = kv["ident"] == want and kv["fwd"] == "[]"
                else:
                    good = kv["fwd"] == want and (cls != "fld" or kv["ident"] == "[]")
                if beh == "ident" and meta[3] in ("specialized", "opaque"):
                    # the field's own type listed under another spelling: the autoref-specialised path
                    chk.bump("rt:as-specialized-identity:%s:%s-level" % (c["derive"], "struct" if c["sattrs"] else "field"))
                if beh == "ident" and cls == "fld" and kv.get("own", want) != want:
                    good = False
                if beh == "fwd" and cls == "fld" and kv.get("own", "[]") != "[]":
                    good = False
                if not good and beh == "ident" and (kv["fwd"] == want or kv.get("own", want) != want):
                    chk.violation("rt-as-identity-lost", dict(rep, op=op, impl=k, expected=(i, beh)),
                                  "derive(%s) on `%s`: impl #%d lists the field's own type (%s) but does not return the field itself: "
                                  "ptr::eq with &field fails (identity-of %s), it returns what the field's own %s<Self> returns "
                                  "(own-impl-of %s)%s" %
                                  (c["derive"], src, k, rust_ty(tt), kv["ident"], c["derive"], kv["fwd"],
                                   "; a write through it left field %d's own storage untouched (own=%s)" % (i, kv["own"]) if "own" in kv else ""))
                elif not good and beh == "fwd" and kv["fwd"] == "[]":
                    chk.violation("rt-forward-not-trait-impl", dict(rep, op=op, impl=k, expected=(i, beh)),
                                  "derive(%s) on `%s`: impl #%d (target %s) does not return what `<FieldTy as %s<%s>>::%s(..)` returns when "
                                  "called explicitly on field %d (nor on any other field; identity-of %s)" %
                                  (c["derive"], src, k, tt if tt == "__AsT" else rust_ty(tt), c["derive"],
                                   {"fld": "Self", "inner": "Inner", "slice": "[T]", "arr": "[T; N]", "str": "str"}[cls], op, i, kv["ident"]))
                elif not good:
                    chk.violation("rt-as-wrong-reference", dict(rep, op=op, impl=k, expected=(i, beh)),
                                  "derive(%s) on `%s`: impl #%d (target %s) returns identity-of %s / own-impl-of %s; expected %s of field %d" %
                                  (c["derive"], src, k, tt if tt == "__AsT" else rust_ty(tt), kv["ident"], kv["fwd"],
                                   "the field itself" if beh == "ident" else "the field's own impl", i))
                if "changed" in kv and kv["changed"] != want:
                    chk.violation("rt-write-elsewhere", dict(rep, op=op, expected_field=i),
                                  "derive(%s) on `%s`: a write through impl #%d changed field(s) %s, expected exactly field %d" %
                                  (c["derive"], src, k, kv["changed"], i))
        if len(set(vals.values())) > 1:
            chk.violation("rt-iter-forms-differ", dict(rep, vals=vals),
                          "derive(IntoIterator) on `%s`: the owned / & / &mut forms visit different elements: %s" % (src, vals))
    for m in mods:
        chk.bump("rt:flavour:" + plan[m][0]["flavour"])
    chk.bump("rt:observations", n_obs)
    chk.bump("rt:structs", len(mods))
    common.cleanup_scratch(name)


META = {
    "level": "proof",
    "technique": "Coq proof about an executable model of field selection and of the emitted delegation bodies + differential "
                 "correspondence with the real expanders + run-time address/write/iteration oracle on the real proc-macro",
    "text": "Theorems over all field lists / attribute lists / types about Gallina models of State::assert_single_enabled_field "
            "(utils.rs), deref.rs, deref_mut.rs, index.rs, index_mut.rs, into_iterator.rs, as/mod.rs and src/as.rs: a selected "
            "field is always the designated one (the converse holds except for refuted shapes on which the macro answers with its "
            "one-field diagnostic - a rejection, never a wrong field; counted in evidence, not a violation); "
            "without forward the body is the address of that field's storage and writes land there; with forward / index / "
            "iteration / listed types it is the field type's own impl applied to that field; AsRef/AsMut to a listed type "
            "equal to the field type (after alias resolution, generics not involved) is the field itself; impl sets. The "
            "model is re-tied on every run to the real expanders on ~4000 structs (quick tier), and ~500 structs with equal-typed "
            "neighbouring fields are compiled with the real proc-macro and observed by address at run time.",
    "note": "Trusted: Coq kernel/vm_compute; the hand model (tied by the differential run); the small semantics of `&self.i`, "
            "UFCS calls and autoref specialisation (exercised by the run-time corpus); the Python doc-rule evaluator; rustc.",
    "design_ref": "DESIGN.md section 2 / C14",
}
