"""C16 - format arguments are split where Rust's expression grammar splits them.

proofs : coq/theories/C16 (totality, verbatim slices, losslessness, ident-only, atomic groups, fragment correctness
         at token level and for the expression fragment G; `_refuted` witnesses for the excluded shapes)
tie    : Coq model of impl/src/parsing.rs + FmtAttribute/FmtArgument (evaluated by vm_compute on the token list the real
         proc_macro2 lexer produced)  vs  the real `parsing::Expr` / `FmtAttribute` (in-process harness)
oracle : syn's FULL expression parser on the same tokens (independent of the model): same number of arguments, each
         one the same token slice, same `single identifier` flags, same `name =` aliases, verbatim re-emission
"""
import json
import os
import re

from lib import common
from lib import c16_gen as G

TRUSTED = [
    "Coq 8.16.1 kernel + vm_compute (coqc full .vo build); no axioms (Print Assumptions: closed)",
    "hand-written Gallina model coq/theories/C16/Model.v, tied to the code by differential runs (cases.v + vm_compute "
    "vs in-process harness); Delimiter::None groups, spans and diagnostics are outside the model",
    "syn 2.x `full` expression parser as the oracle of Rust's expression grammar (harness/inproc/src/c16cmd.rs measures "
    "argument boundaries on the parse stream, syn's printer is not involved); proc_macro2's lexer and its to_string/"
    "re-lex round trip",
    "tools/props/c16.py + tools/lib/c16_gen.py (generators, mis-split classifier, shrinker)",
]

# ------------------------------------------------------------------ tokens


def is_p(t, ch):
    return t.get("p") == ch


def is_id(t, name=None):
    return "i" in t and (name is None or t["i"] == name)


DELIM = {"Parenthesis": "Paren", "Bracket": "Bracket", "Brace": "Brace"}


def coq_tt(t):
    if "i" in t:
        return "TIdent " + common.coq_str(t["i"])
    if "p" in t:
        return "TPunct %d %s" % (ord(t["p"]), "true" if t["j"] else "false")
    if "l" in t:
        return "TLit " + common.coq_str(t["l"])
    return "TGroup %s %s" % (DELIM[t["g"]], coq_list(t["s"]))


def coq_list(ts):
    return "[" + "; ".join(coq_tt(t) for t in ts) + "]"


def has_none_group(ts):
    return any("g" in t and (t["g"] == "None" or has_none_group(t["s"])) for t in ts)


def from_coq(t):
    """parsed Coq term of type tt -> harness token json"""
    if t[0] == "TIdent":
        return {"i": common.py_str(t[1])}
    if t[0] == "TPunct":
        return {"p": chr(t[1]), "j": t[2] == "true"}
    if t[0] == "TLit":
        return {"l": common.py_str(t[1])}
    return {"g": {v: k for k, v in DELIM.items()}[t[1]], "s": [from_coq(x) for x in t[2]]}


def drop_last_joint(ts):
    """the Joint flag of the last token of a stream does not survive printing + re-lexing (observation artefact)"""
    if ts and "p" in ts[-1]:
        return ts[:-1] + [dict(ts[-1], j=False)]
    return ts


def lexical_alias(ts):
    """format_args!'s own rule (rustc_builtin_macros::format::parse_args): an identifier token followed by the token
    `=` (not `==`, not `=>`) starts a named argument"""
    if len(ts) >= 2 and is_id(ts[0]) and ts[0]["i"] not in RUST_KEYWORDS | PATH_KEYWORDS and is_p(ts[1], "="):
        if ts[1]["j"] and len(ts) >= 3 and ts[2].get("p") in ("=", ">"):
            return None
        return ts[0]["i"]
    return None


def forget(ts):
    """spacing of top-level `,` and `=` erased (what re-emission is allowed to change, theorem C16_lossless_partial)"""
    return [dict(t, j=False) if t.get("p") in (",", "=") else t for t in ts]


def show(ts):
    out = []
    for t in ts:
        if "i" in t:
            out.append(t["i"])
        elif "l" in t:
            out.append(t["l"])
        elif "p" in t:
            out.append(t["p"] + ("" if t["j"] else " "))
            continue
        else:
            o, c = {"Parenthesis": "()", "Bracket": "[]", "Brace": "{}", "None": "  "}[t["g"]]
            out.append(o + show(t["s"]) + c)
        out.append(" ")
    return "".join(out).strip()


# ------------------------------------------------------------------ Python port of the scanner (only used to EXPLAIN
# a mis-split found by the oracle: which alternative swallowed a separator comma; it is checked against the real split)

ARROW_SKIP = [False]     # does the code under test step over `->` inside balanced pairs?  (probed in run())


def _bal(toks, i, o, cl):
    count = 1
    n = len(toks)
    while count:
        if i >= n:
            return None
        t = toks[i]
        if ARROW_SKIP[0] and is_p(t, "-") and t["j"] and i + 1 < n and is_p(toks[i + 1], ">"):
            i += 2
            continue
        if is_p(t, cl):
            count -= 1
        elif is_p(t, o):
            count += 1
        i += 1
    return i


def _pathsep(toks, i):
    return i + 1 < len(toks) and is_p(toks[i], ":") and toks[i]["j"] and is_p(toks[i + 1], ":")


def _alt(toks, i):
    if _pathsep(toks, i) and i + 2 < len(toks) and is_p(toks[i + 2], "<"):
        e = _bal(toks, i + 3, "<", ">")
        if e is not None:
            return "turbofish", e
    if is_p(toks[i], "<"):
        e = _bal(toks, i + 1, "<", ">")
        if e is not None and _pathsep(toks, e):
            return "qpath", e + 2
    if is_p(toks[i], "|"):
        e = _bal(toks, i + 1, "|", "|")
        if e is not None:
            return "bars", e
    return "tt", i + 1


def py_split(toks):
    """-> (list of (start, end), {swallowed comma position: alternative}) or None"""
    n = len(toks)
    i = 0
    args = []
    swallowed = {}
    while i < n:
        start = i
        if is_id(toks[i]) and (i + 1 == n or is_p(toks[i + 1], ",")):
            i += 1
        else:
            while i < n and not is_p(toks[i], ","):
                kind, e = _alt(toks, i)
                for k in range(i, e):
                    if is_p(toks[k], ","):
                        swallowed[k] = kind
                i = e
            if i == start:
                return None
        args.append((start, i))
        if i < n:
            i += 1
    return args, swallowed


# ------------------------------------------------------------------ classification of a mis-split (token patterns)

TYPE_PREFIX_IDENTS = {"dyn", "impl", "mut", "const"}
# reserved words of the Rust reference (strict + reserved + `_`); `Self`/`self`/`super`/`crate` are path segments
RUST_KEYWORDS = set("""_ abstract as async await become box break const continue do dyn else enum extern false final fn for if
impl in let loop macro match mod move mut override priv pub ref return static struct trait true try type typeof unsafe
unsized use virtual where while yield""".split())
PATH_KEYWORDS = {"Self", "self", "super", "crate"}


def _angle_context(E, q):
    """what introduces the `<` at index q of the expression tokens E"""
    if q >= 2 and is_p(E[q - 1], ":") and is_p(E[q - 2], ":"):
        return "turbofish"
    if q >= 1 and is_id(E[q - 1], "for"):
        return "for-binder"
    k = q - 1
    if k < 0 or not is_id(E[k]) or E[k]["i"] in RUST_KEYWORDS or (k >= 1 and is_p(E[k - 1], "'")):
        return "qpath"      # the `<` opens a qualified path (it follows an operator, a keyword or a label)
    while True:
        # E[k] is the last identifier of a type path: walk to its first segment, then over type prefixes
        while k >= 3 and is_p(E[k - 1], ":") and is_p(E[k - 2], ":") and is_id(E[k - 3]):
            k -= 3
        if k >= 2 and is_p(E[k - 1], ":") and is_p(E[k - 2], ":"):
            k -= 2
        b = k - 1
        while b >= 0:
            t = E[b]
            if is_id(t) and t["i"] in TYPE_PREFIX_IDENTS or is_p(t, "&") or is_p(t, "*"):
                b -= 1
            elif is_id(t) and b >= 1 and is_p(E[b - 1], "'"):
                b -= 2
            else:
                break
        if b < 0:
            return "none"
        t = E[b]
        if is_id(t, "as"):
            return "cast"
        if is_p(t, ">") and b >= 1 and is_p(E[b - 1], "-") and E[b - 1]["j"]:
            if b >= 2 and is_p(E[b - 2], "|"):
                return "closure-ret"
            if b >= 3 and E[b - 2].get("g") == "Parenthesis" and is_id(E[b - 3]) and \
                    E[b - 3]["i"] in ("fn", "Fn", "FnMut", "FnOnce"):
                k = b - 3
                continue
        return "nested"


def _is_arrow(E, k):
    return is_p(E[k], ">") and k > 0 and is_p(E[k - 1], "-") and E[k - 1]["j"]


def _region_end(E, q):
    depth = 1
    for k in range(q + 1, len(E)):
        if is_p(E[k], "<"):
            depth += 1
        elif is_p(E[k], ">") and not _is_arrow(E, k) and not (is_p(E[k - 1], "=") and E[k - 1]["j"]):
            depth -= 1
            if depth == 0:
                return k
    return len(E)


def deviation_class(toks, syn_ranges, pos, merged):
    """names the construct whose comma was mishandled by a scanner that deviates from the documented one"""
    if merged:
        return "separator-comma-swallowed"
    (s, e) = next((s, e) for (s, e) in syn_ranges if s <= pos < e)
    E = toks[s:e]
    p = pos - s
    stack = []
    bars = 0
    for k in range(p):
        t = E[k]
        if is_p(t, "|"):
            bars += 1
        if is_p(t, "<"):
            stack.append(k)
        elif is_p(t, ">") and not _is_arrow(E, k) and not (k > 0 and is_p(E[k - 1], "=") and E[k - 1]["j"]) and stack:
            stack.pop()
    for q in stack:            # outermost enclosing `<` first
        ctx = _angle_context(E, q)
        if ctx == "turbofish":
            return "turbofish-generic-args-split"
        if ctx == "qpath":
            return "qualified-path-split"
    if bars % 2 == 1:
        return "closure-params-split"
    return "argument-split-inside-expression"


def classify(toks, syn_ranges, dm_ranges):
    """class key of a split that differs from syn's, from the first diverging comma"""
    S = set(e for (_, e) in syn_ranges if e < len(toks))
    D = set(e for (_, e) in dm_ranges if e < len(toks))
    diff = S ^ D
    if not diff:
        return "split-differs"
    pos = min(diff)
    r = py_split(toks)
    if r is None or r[0] != dm_ranges:
        # the observed split is NOT what the documented scanner (parsing.rs as modelled: `::<..>`, `<..>::`, `|..|`
        # kept together, everything else token by token) produces: none of the recorded design limits explains it
        return deviation_class(toks, syn_ranges, pos, pos in S)
    if pos in S:
        # a separator comma was swallowed by the scanner
        kind = r[1].get(pos)
        return {"bars": "bar-pair-across-comma", "qpath": "lt-gt-across-comma",
                "turbofish": "unexplained-merge-in-turbofish"}.get(kind, "unexplained-merge")
    # the scanner split at a comma that belongs to an expression
    (s, e) = next((s, e) for (s, e) in syn_ranges if s <= pos < e)
    E = toks[s:e]
    p = pos - s
    stack = []
    for k in range(p):
        t = E[k]
        if is_p(t, "<"):
            stack.append(k)
        elif is_p(t, ">"):
            if _is_arrow(E, k) or (k > 0 and is_p(E[k - 1], "=") and E[k - 1]["j"]):
                continue
            if stack:
                stack.pop()
    if not stack:
        if any(is_p(t, "|") for t in E[:p]):
            return "bar-pair-shifted-into-closure-params"
        return "unexplained-oversplit"
    for q in reversed(stack):
        ctx = _angle_context(E, q)
        if ctx == "cast":
            return "cast-to-generic-type"
        if ctx == "closure-ret":
            return "closure-return-generic-type"
        if ctx == "for-binder":
            return "closure-lifetime-binder"
        if ctx in ("turbofish", "qpath"):
            m = _region_end(E, q)
            if any(_is_arrow(E, a) for a in range(q + 1, m)):
                return "arrow-in-generic-args"
            return "unexplained-oversplit"
        if ctx == "none":
            return "unexplained-oversplit"
    return "unexplained-oversplit"


# ------------------------------------------------------------------ inputs

def unit_test_strings():
    """the `cases` arrays of the repository's own unit tests"""
    out = {}
    for rel in ("impl/src/parsing.rs", "impl/src/fmt/mod.rs"):
        src = open(os.path.join(common.REPO, rel)).read()
        for m in re.finditer(r"let cases = \[(.*?)\];", src, re.S):
            lits = re.findall(r'"((?:[^"\\]|\\.)*)"', m.group(1))
            out[rel] = [l.replace('\\"', '"').replace("\\\\", "\\") for l in lits]
    return out


CORPUS = [
    # the `_refuted` witnesses of Props.v, replayed on the real code
    "a | 1, b | 2, c", "x as M<K, V>, y", "a < b, c > ::d", "f::<fn() -> A, B>(), y", "|x| -> M<K, V> { x }",
    "a == b", "x = a == b", "a = b", "a =b, c ==d",
    # neighbours
    "a | b", "a | b | c, d", "a || b, c || d", "|a, b| a | b, c", "x | |a, b| a", "a |= 1, b |= 2",
    "if let A | B = x {} else {}, |a: u8, b| a", "x as M<K>, y", "x as M::<K, V>, y", "x as u8 < y, z",
    "a < b, c > d", "a << b, c >> d", "a <= b, c >= d", "a < b, c > ::d::e, f", "Vec::<T>::new(), a > b",
    "<A as T<B, C>>::X, y", "<Vec<u8>>::new(), z", "f::<A, B>(x, y), z", "x.m::<A, B>(1, 2).n::<C>(), w",
    "for<'a, 'b> |x: &'a u8| x, y", "|x: M<K, V>, y| x, z", "move |a, b| a + b, c", "|| 1, || 2",
    "true, false, self, _", "break, continue, return", "r#type, r#fn = 1", "n = |a, b| a, m = x as T<A, B>",
    "'a: loop { break 'a 1, }, y", "m!(a, b), [a, b], (a, b), {a; b}", "x.0.1, y", "..", "a.., ..b, a..=b",
    "",  ",", "a,", "a,,", ",a", "a b", "= a", "a =", "x = ", "x = y = z", "- 1, -x", "&a, &mut b, *c, !d",
    # qualified paths / turbofish that do not open the argument, literals and arrows inside generic lists
    "&<A as T<B, C>>::X, y", "1 + <A as T<B, C>>::X, y", "-<A as T<B, C>>::X.f(), y", "n = <A as T<B, C>>::X, y",
    "x.f(<A as T<B, C>>::X), y", "a == <A as T<B, C>>::X, y", "!<A as T<B, C>>::X, <A as T<B, C>>::Y",
    "tag::<1, 2>(), y", "f::<'c', \"s\", 2, true>(), y", "<M<1, 2>>::new(), y", "|a: M<1, 2>, b| a, y",
    "f::<fn(A) -> B, C>(), y", "<M<K, fn() -> V>>::new(), y", "|f: fn(A) -> B, g| f, y",
    "x=*y, z", "x=-1, y", "x=&y, z", "x=!y, z", "x=<A as T<B, C>>::X, y", "x=|a, b| a, y", "x=::std::f(), y",
    "x =y, z", "x= y, z", "x=y", "x=(y), z",
    # comparisons that start with a bare identifier are not `name =` aliases (first / middle / last, spaced and tight)
    "_0 == _1", "r == &0", "eq = a == b", "a==b", "a ==b", "a== b", "x, a == b", "x, a == b, y", "a==b, y", "y, a==b",
    "a == b, c == d", "n = 1, a == b", "a == b, n = 1", "a==b,c==d,e==f", "_0 == _1, _1", "a == b == c", "self_ == other",
    "a != b, y", "a >= b, a <= b, a == b", "x = y == z, w", "a == -b", "a ==*b", "a == |x| x",
    # scanner state must not leak from one balanced scan to the next
    "1u32 << <u8 as Limit<u8, u8>>::SHIFT, _0", "0 < *_1 && *_1 < <u8 as Limit<u8, u8>>::MAX, _0,",
    "a < b, 1 << <u8 as L<u8, u8>>::X, _0", "a < 1 << 2 << f::<A, B>(), _0", "a << b << |p, q| p, _0",
    "a::<B, C>::d::<E, F>(), g", "a -> b, c", "a => b, c", "a <- b, c", "f::<{ a < b }, 3>(), x", "a < b > ::c, d",
]


SENSITIVE = [   # constructs whose inner comma only stays inside the argument if the scanner balances them correctly
    "< u8 as L < u8 , u8 >> :: X", "< M < K , V > > :: new ( 1 , 2 )", "f ::< A , B > ( )", "y . m ::< A , B > ( 1 )",
    "Vec ::< ( A , B ) , C > :: new ( )", "| p , q | p",
]
UNBALANCED = ["<", "<=", "<<", "<<=", ">", ">>"]


def unbalanced_then(ops, last, mid=None):
    """`a OP b OP c ... OP last` made valid Rust: comparisons are not chained (a new `&&` clause is opened),
    `<<=` only leads; `mid`, if given, is used as the operand after the first operator"""
    s = "x0"
    has_cmp = False
    for i, op in enumerate(ops):
        if op == "<<=" and i > 0:
            op = "<<"
        if op in ("<", "<=", ">") and has_cmp:
            s += " && x%d" % (i + 10)
            has_cmp = False
        if op in ("<", "<=", ">"):
            has_cmp = True
        operand = last if i == len(ops) - 1 else (mid if (mid and i == 0) else ("* x%d" % (i + 1) if i % 2 else "%du32" % (i + 1)))
        s += " %s %s" % (op, operand)
    return s


def angle_state_inputs(rng, n_triples):
    """several unbalanced `<` (comparison, shift) followed IN THE SAME ARGUMENT by a construct that must be balanced,
    in all orders and counts; also after an earlier argument that leaves `<` unbalanced"""
    import itertools
    seqs = [list(t) for k in (1, 2) for t in itertools.product(UNBALANCED[:4], repeat=k)]
    seqs += [[rng.choice(UNBALANCED) for _ in range(3)] for _ in range(n_triples)]
    seqs += [[">", "<", "<"], ["<", ">", "<", "<"], ["<<", "<<", "<<"], ["<", "<", "<"], ["<=", "<<", "<"]]
    out = []
    for ops in seqs:
        for sidx, sens in enumerate(SENSITIVE):
            arg = unbalanced_then(ops, sens)
            out.append(arg + ", _0")
            ctx = rng.randrange(5)
            if ctx == 0:
                out.append("p < q, " + arg + ", _0,")
            elif ctx == 1:
                out.append("1 << 2 << n, a <= b, " + arg)
            elif ctx == 2:      # a balanced construct first, then the unbalanced operators, then another construct
                out.append(unbalanced_then(ops, sens, mid=SENSITIVE[(sidx + 1) % len(SENSITIVE)].replace("| p , q | p", "( | p , q | p )")) + ", _0")
            elif ctx == 3:
                out.append(arg + ", " + unbalanced_then(ops[::-1], SENSITIVE[(sidx + 2) % len(SENSITIVE)]) + ", _0")
            else:
                out.append("name = " + arg + ", _1")
    return out


def make_inputs(chk, tier):
    """list of dicts {src, origin, spec?}"""
    rng = chk.rng
    inputs = [{"src": s, "origin": "corpus"} for s in CORPUS]
    ut = unit_test_strings()
    n_perm = 250 if tier == "quick" else 4000
    for rel, cases in sorted(ut.items()):
        chk.bump("unit_test_strings:" + rel, len(cases))
        for c in cases:
            inputs.append({"src": c, "origin": "unit-test"})
            inputs.append({"src": c + ",", "origin": "unit-test"})
        for k in (2, 3):
            for _ in range(n_perm):
                perm = rng.sample(cases, k)
                src = ",".join(perm) + ("," if rng.random() < 0.5 else "")
                inputs.append({"src": src, "origin": "unit-test-perm"})
    for src in angle_state_inputs(rng, 12 if tier == "quick" else 120):
        inputs.append({"src": src, "origin": "angle-state"})
    g = G.Gen(rng, 4)
    n_gen = 2300 if tier == "quick" else 30000
    gen = []
    for _ in range(n_gen):
        spec = g.arg_list()
        gen.append({"src": G.render_list(spec), "origin": "grammar", "spec": spec})
    inputs += gen
    n_mal = 700 if tier == "quick" else 8000
    for _ in range(n_mal):
        base = rng.choice(gen)["src"] if rng.random() < 0.8 else rng.choice(CORPUS)
        inputs.append({"src": G.mutate(rng, base), "origin": "malformed"})
    seen = set()
    out = []
    for x in inputs:
        if x["src"] not in seen:
            seen.add(x["src"])
            out.append(x)
    return out


# ------------------------------------------------------------------ running one batch through code, model and oracle

def opt(t):
    if t == "None":
        return None
    return t[1]


class Runner:
    def __init__(self, binary):
        self.binary = binary

    def real(self, srcs):
        """real lexer + real derive_more split + syn split + real FmtAttribute, per source"""
        reqs = []
        for s in srcs:
            reqs.append({"cmd": "c16_split", "tokens": s})
            reqs.append({"cmd": "fmt_attr", "tokens": '"", ' + s})
        res = common.run_jsonl(self.binary, reqs, timeout=300)
        out = []
        relex = []
        for k, s in enumerate(srcs):
            sp, fa = res[2 * k], res[2 * k + 1]
            out.append({"src": s, "split": sp, "attr": fa})
            if isinstance(fa, dict) and "args" in fa:
                relex.append((k, "printed", fa["printed"]))
                for i, a in enumerate(fa["args"]):
                    relex.append((k, i, a["expr"]))
        rl = common.run_jsonl(self.binary, [{"cmd": "tokens", "tokens": x[2]} for x in relex], timeout=300)
        for (k, what, _), r in zip(relex, rl):
            out[k].setdefault("relex", {})[what] = r.get("ok") if isinstance(r, dict) else None
        return out

    def model(self, cases):
        """Coq model on the token lists of the lexable cases -> list of (split view, attr view)"""
        exprs = []
        for c in cases:
            l = coq_list(c["split"]["tokens"])
            exprs.append("(view_split %s, view_attr (TLit [34; 34] :: TPunct 44 false :: %s), view_spec %s)" % (l, l, l))
        return common.coq_eval(["Verif.C16.Model"], exprs, batch=120, tag="c16")


def real_split_view(sp):
    dm = sp["dm"]
    if "ok" in dm:
        return ("Ok", [(len(a["tt"]), a["ident"]) for a in dm["ok"]], dm["trailing"])
    if "err" in dm:
        return ("Fail",)
    return ("Panic", dm)


def model_split_view(t):
    if t == "Fail" or t == "Fuel":
        return (t,)
    lst, tr = t[1]
    return ("Ok", [(n, b == "true") for (n, b) in lst], tr == "true")


def real_attr_view(c):
    fa = c["attr"]
    if "args" in fa:
        rl = c.get("relex", {})
        args = []
        for i, a in enumerate(fa["args"]):
            toks = rl.get(i)
            args.append((a["alias"], None if toks is None else len(toks), a["ident"]))
        pr = rl.get("printed")
        return ("Ok", args, None if pr is None else drop_last_joint(pr))
    if "err" in fa:
        return ("Fail",)
    return ("Panic", fa)


def model_attr_view(t):
    if t == "Fail" or t == "Fuel":
        return (t,)
    lst, toks = t[1]
    args = []
    for (al, n, b) in lst:
        a = opt(al)
        args.append((None if a is None else common.py_str(a), n, b == "true"))
    return ("Ok", args, drop_last_joint([from_coq(x) for x in toks]))


def ranges_of(lens):
    out = []
    pos = 0
    for n in lens:
        out.append((pos, pos + n))
        pos += n + 1
    return out


def check_case(c, m, report):
    """tie + oracle on one case.  `report(class_key, text, detail)`.  Returns facts for the statistics."""
    sp = c["split"]
    toks = sp["tokens"]
    facts = {"syn_ok": False, "n": 0}
    rs = real_split_view(sp)
    ra = real_attr_view(c)
    for what, v in (("parsing::Expr", rs), ("FmtAttribute", ra)):
        if v[0] == "Panic":
            report("dm-panic", "%s panics / crashes on `%s`" % (what, c["src"]), {"result": v[1]})
    # ---- tie: model vs code
    if m is not None:
        ms = model_split_view(m[0])
        ma = model_attr_view(m[1])
        if ms[0] == "Fuel" or ma[0] == "Fuel":
            report("model-out-of-fuel", "the model ran out of fuel on `%s` (contradicts C16_split_total)" % c["src"], {})
        if rs[0] != "Panic" and ms != rs:
            report("tie-split", "Coq model of parsing.rs disagrees with the code on `%s`" % c["src"],
                   {"model": ms, "code": rs})
        if ra[0] != "Panic" and ma != ra:
            report("tie-attr", "Coq model of FmtAttribute/FmtArgument disagrees with the code on `%s`" % c["src"],
                   {"model": ma, "code": ra})
    # ---- the grammar-level splitter of the model (Model.v Part 3) and the characterisation theorem
    spec = None
    if m is not None and len(m) > 2:
        t = m[2]
        if t == "SFuel":
            report("model-out-of-fuel", "the grammar-level splitter ran out of fuel on `%s` (contradicts C16_spec_total)" % c["src"], {})
        elif t[0] == "SOk":
            spec = ("Ok", list(t[1][0]), t[1][1] == "true", t[2] == "true")
        else:
            spec = ("Fail", None, None, t[1] == "true")
        facts["limit_free"] = spec[3]
        if spec[3] and rs[0] != "Panic":
            same = (spec[0] == "Fail" and rs[0] == "Fail") or \
                   (spec[0] == "Ok" and rs[0] == "Ok" and [n for (n, _) in rs[1]] == spec[1] and rs[2] == spec[2])
            if not same:
                report("characterisation-contradicted", "`%s` has no limit-class step, yet the real split differs from the "
                       "grammar-level one (contradicts theorem C16_characterisation for the code)" % c["src"],
                       {"spec": spec, "code": rs})
    # ---- oracle: syn's full expression parser
    sy = sp["syn"]
    if "ok" not in sy:
        return facts
    if spec is not None:
        want = [e["end"] - e["start"] for e in sy["ok"]]
        if spec[0] != "Ok" or spec[1] != want or spec[2] != sy["trailing"]:
            report("grammar-spec-differs-from-syn", "the grammar-level splitter of Model.v reads `%s` as %s, syn's expression "
                   "parser as %s" % (c["src"], spec[1], want), {"spec": spec, "syn": want})
    facts["syn_ok"] = True
    exprs = sy["ok"]
    facts["n"] = len(exprs)
    facts["kinds"] = set(k for e in exprs for k in e["kinds"])
    syn_ranges = [(e["start"], e["end"]) for e in exprs]
    if rs[0] != "Ok":
        if rs[0] == "Fail":
            report("dm-rejects-valid-list", "syn parses `%s` into %d expressions, derive_more rejects it: %s" %
                   (c["src"], len(exprs), sp["dm"].get("err")), {})
        return facts
    dm_args = sp["dm"]["ok"]
    dm_ranges = ranges_of([len(a["tt"]) for a in dm_args])
    exp = [toks[s:e] for (s, e) in syn_ranges]
    got = [a["tt"] for a in dm_args]
    if exp != got:
        key = classify(toks, syn_ranges, dm_ranges)
        report(key, "`%s`: Rust's grammar gives %d arguments [%s], derive_more splits into %d [%s]" %
               (c["src"], len(exp), " | ".join(show(x) for x in exp), len(got), " | ".join(show(x) for x in got)),
               {"expected": [show(x) for x in exp], "observed": [show(x) for x in got]})
        facts["missplit"] = key
        if facts.get("limit_free"):
            report("characterisation-contradicted", "`%s` is mis-split (%s) although it has no limit-class step" % (c["src"], key), {})
        return facts
    if sp["dm"]["trailing"] != sy["trailing"]:
        report("trailing-comma", "trailing comma flag differs on `%s`" % c["src"], {})
    for i, (e, a) in enumerate(zip(exprs, dm_args)):
        if e["ident"] != a["ident"]:
            key = "ident-flag-mismatch"
            if a["ident"] and len(a["tt"]) == 1 and is_id(a["tt"][0]):
                key = "keyword-single-token-counted-as-ident"
            report(key, "`%s`: argument %d `%s` is %sa plain identifier path for Rust, derive_more says %s" %
                   (c["src"], i, show(a["tt"]), "" if e["ident"] else "not ", a["ident"]), {"arg": i})
    # ---- attribute layer: aliases, verbatim expressions, re-emission
    fa = c["attr"]
    if "args" not in fa:
        if "err" in fa:
            report("attr-rejects-valid-list", "FmtAttribute rejects `\"\", %s`: %s" % (c["src"], fa["err"]), {})
        return facts
    rl = c.get("relex", {})
    if len(fa["args"]) != len(exprs):
        # can only come from the alias lookahead (the bare split agreed)
        report("attr-split-differs", "`%s`: FmtAttribute sees %d arguments, Rust %d" % (c["src"], len(fa["args"]), len(exprs)), {})
        return facts
    ok_alias = True
    for i, (e, a) in enumerate(zip(exprs, fa["args"])):
        s, en = syn_ranges[i]
        want_alias = lexical_alias(toks[s:en])
        if a["alias"] != want_alias:
            ok_alias = False
            key = "alias-mismatch"
            if a["alias"] is not None and en - s >= 3 and is_p(toks[s + 1], "=") and toks[s + 1]["j"] and is_p(toks[s + 2], "="):
                key = "eqeq-read-as-alias"
            report(key, "`%s`: argument %d `%s` has alias %r for derive_more, %r for Rust (format_args!)" %
                   (c["src"], i, show(toks[s:en]), a["alias"], want_alias),
                   {"printed": fa["printed"]})
            continue
        body = toks[s + 2:en] if a["alias"] is not None else toks[s:en]
        if rl.get(i) is None or drop_last_joint(rl[i]) != drop_last_joint(body):
            report("attr-expr-not-verbatim", "`%s`: expression of argument %d is re-emitted as `%s`" %
                   (c["src"], i, a["expr"]), {})
        want_ident = (len(body) == 1 and is_id(body[0]) and e["assign_rhs_ident"]) if a["alias"] is not None else e["ident"]
        if a["alias"] is not None and e["assign_ident"] != a["alias"]:
            want_ident = a["ident"]     # syn did not see `ident = expr` here (e.g. a range of an assignment): no opinion
        if a["ident"] != want_ident and not (a["ident"] and len(body) == 1 and is_id(body[0])):
            report("ident-flag-mismatch", "`%s`: argument %d ident flag %s, Rust %s" % (c["src"], i, a["ident"], want_ident), {})
    if ok_alias:
        src_toks = [{"l": '""'}, {"p": ",", "j": False}] + toks
        if sy["trailing"]:
            src_toks = src_toks[:-1]
        if not exprs:
            src_toks = [{"l": '""'}]        # the comma after a lone literal separates nothing (fmt/mod.rs:127-130)
        if rl.get("printed") is None or forget(drop_last_joint(rl["printed"])) != forget(drop_last_joint(src_toks)):
            report("reemission-not-verbatim", "`%s` is re-emitted as `%s`" % (c["src"], fa["printed"]), {})
    return facts


# ------------------------------------------------------------------ shrinking

def shrink(runner, spec, key, budget=8):
    """greedy: smaller variants that still produce the same class"""
    def classes(specs):
        srcs = [G.render_list(s) for s in specs]
        cases = runner.real(srcs)
        out = []
        for c in cases:
            ks = []
            if isinstance(c["split"], dict) and "tokens" in c["split"]:
                check_case(c, None, lambda k, t, d: ks.append(k))
            out.append(ks)
        return out
    cur = spec
    for _ in range(budget):
        cands = sorted(G.shrink_candidates(cur), key=G.spec_size)[:150]
        if not cands:
            break
        res = classes(cands)
        good = [s for s, ks in zip(cands, res) if key in ks and G.spec_size(s) < G.spec_size(cur)]
        if not good:
            break
        cur = good[0]
    return cur


# ------------------------------------------------------------------ argument resolution oracle
# "the positional indices and `name =` aliases the derive uses for bound inference and pass-through denote the same
#  arguments as they do for format_args!"

TRAIT_OF_TYPE = {"": "Display", "?": "Debug", "x": "LowerHex", "X": "UpperHex", "o": "Octal", "b": "Binary",
                 "e": "LowerExp", "E": "UpperExp", "p": "Pointer"}
ATTR_OF_DERIVE = {"Display": "display", "Debug": "debug", "LowerHex": "lower_hex", "Binary": "binary"}

SHAPES = [  # argument expressions that are NOT a bare field (F = a field identifier); no recorded design limit inside
    "{F} . x", "& {F}", "* {F}", "{F} + 1", "( {F} , 1 )", "[ {F} , {F} ]", "f ::< A , B > ( {F} )",
    "< A as T < B , C >> :: X", "& < A as T < B , C >> :: X", "1 + < A as T < B , C >> :: X", "- < A as T < B , C >> :: f ( {F} )",
    "1u32 << < A as T < B , C >> :: X", "0 < * {F} && * {F} < < A as T < B , C >> :: X", "1 << 2 << f ::< A , B > ( {F} )",
    "{F} <= 1 && 2 < x . m ::< A , B > ( )", "f ::< A , B > ( ) < 1 << < A as T < B , C >> :: X",
    "{F} . m ::< A , B > ( 1 , 2 )", "tag ::< 1 , 2 > ( )", "g ::< 'c' , \"s\" , 3 > ( {F} )", "Vec ::< fn ( A ) -> B , C > :: new ( )",
    "| p , q | p", "| p : M < K , V > , q | {F}", "1", "\"s, t\"", "{F} == {F}", "{F} < 1", "{F} . 0", "m ! ( {F} , 2 )",
    "{ {F} ; 1 }", "if {F} . ok ( ) { 1 } else { 2 }", "{F} as u8", "{F} ?", "& mut {F}", "self . len ( )", "{F} ( 1 , 2 )",
]


def gen_args(rng, fields, n, bare_p=0.55):
    """n arguments (positional first, then aliased) -> list of (alias|None, source, bare field or None)"""
    n_alias = rng.randrange(0, n + 1) if rng.random() < 0.7 else 0
    # an alias may shadow a field name: `{a}` then denotes the argument, not the field
    names = rng.sample(["x", "name", "w", "val", "r#ref"] + [f for f in fields if not f.startswith("r#")], n_alias)
    out = []
    for i in range(n):
        alias = names[i - (n - n_alias)] if i >= n - n_alias else None
        f = rng.choice(fields)
        if rng.random() < bare_p:
            out.append((alias, f, f))
        else:
            out.append((alias, rng.choice(SHAPES).replace("{F}", f), None))
    return out


def render_args(rng, args):
    parts = []
    for alias, src, _ in args:
        if alias is None:
            parts.append(src)
        else:
            parts.append(alias + rng.choice([" = ", "=", " =", "= "]) + src)
    return rng.choice([", ", ",", " , "]).join(parts) + ("," if args and rng.random() < 0.2 else "")


def ph(ref, ty):
    return "{" + ref + ((":" + ty) if ty else "") + "}"


def gen_bound_case(rng):
    kind = rng.choice(["tuple", "tuple", "named", "named", "variant-tuple", "variant-named"])
    fields = ["_0", "_1", "_2"] if "tuple" in kind else ["a", "b", "r#type"]
    derive = rng.choice(["Display", "Display", "Display", "Debug", "LowerHex", "Binary"])
    n = rng.choice([1, 1, 2, 2, 3])
    args = gen_args(rng, fields, n)
    # placeholders: every argument is used; the k-th implicit `{}` is argument k
    n_impl = rng.randrange(0, n + 1)
    refs = [("impl", k) for k in range(n_impl)]
    rest = []
    for i in range(n):
        if i < n_impl and rng.random() < 0.7:
            continue
        alias = args[i][0]
        if alias is not None and rng.random() < 0.5:
            rest.append(("name", alias))
        else:
            rest.append(("idx", i))
    if rng.random() < 0.3:      # an implicitly captured field next to explicit arguments
        f = rng.choice([x for x in fields if not x.startswith("r#")])
        if all(a[0] != f for a in args):
            rest.append(("name", f))
    # implicit ones keep their relative order; the others are inserted anywhere
    seq = list(refs)
    for r in rest:
        seq.insert(rng.randrange(len(seq) + 1), r)
    if not seq:
        seq = [("idx", 0)]
    lit = ""
    phs = []
    for (k, v) in seq:
        ty = rng.choice(["", "", "", "?", "x", "b", "e", "p", "o", "X", "E"])
        ref = "" if k == "impl" else str(v) if k == "idx" else v.replace("r#", "")
        if k == "name" and v.startswith("r#"):
            continue    # `{ref}`-style names of raw aliases are not written in literals
        lit += rng.choice(["", " ", "a", "-", "{{", "}}"]) + ph(ref, ty)
        phs.append((k, v, TRAIT_OF_TYPE[ty]))
    attr = ATTR_OF_DERIVE[derive]
    a_src = render_args(rng, args)
    body = '"%s"%s' % (lit, (rng.choice([", ", ","]) + a_src) if args else "")
    tys = ["T0", "T1", "T2"]
    if kind == "tuple":
        item = "#[%s(%s)] struct S<T0, T1, T2>(T0, T1, T2);" % (attr, body)
    elif kind == "named":
        item = "#[%s(%s)] struct S<T0, T1, T2> { a: T0, b: T1, r#type: T2 }" % (attr, body)
    elif kind == "variant-tuple":
        item = "enum E<T0, T1, T2> { #[%s(%s)] V(T0, T1, T2), #[%s(\"w\")] W }" % (attr, body, attr)
    else:
        item = "enum E<T0, T1, T2> { #[%s(%s)] V { a: T0, b: T1, r#type: T2 }, #[%s(\"w\")] W }" % (attr, body, attr)
    return {"derive": derive, "item": item, "args_src": a_src, "phs": phs, "fields": fields, "tys": tys, "lit": lit,
            "n": n}


PASS_LITS = ["{}", "{0}", "{1}", "{name}", "{x}", "{:?}", "{0:x}", "{name:?}", "{x:p}", "{:>4}", "{0:5}", "{:#?}", "{:x?}",
             "{} {}", "a{}", "{0}{0}", "{_0}", "{a}", "{}\\n", ""]


def gen_pass_case(rng):
    n = rng.choice([0, 1, 1, 1, 1, 2])
    fields = rng.choice([["_0", "_1", "_2"], ["a", "b", "c"]])
    args = gen_args(rng, fields, n, bare_p=0.4)
    if n and rng.random() < 0.5:      # make single-alias cases frequent
        args = [(rng.choice(["name", "x", "other"]), args[0][1], args[0][2])] + args[1:]
        if n == 2 and args[1][0] == args[0][0]:
            args[1] = ("w",) + args[1][1:]
    lit = rng.choice(PASS_LITS)
    a_src = render_args(rng, args)
    return {"lit": lit, "args_src": a_src, "n": n, "body": '"%s"%s' % (lit, (", " + a_src) if args else "")}


_PH = re.compile(r"^\{([A-Za-z_][A-Za-z0-9_]*|[0-9]+)?(?::([?xXobeEp]?))?\}$")


def syn_args(split):
    """(alias, expression tokens, bare identifier or None) per argument, from syn's split of the argument tokens"""
    toks = split["tokens"]
    out = []
    for e in split["syn"]["ok"]:
        sl = toks[e["start"]:e["end"]]
        al = lexical_alias(sl)
        body = sl[2:] if al is not None else sl
        bare = body[0]["i"] if len(body) == 1 and is_id(body[0]) and body[0]["i"] not in RUST_KEYWORDS else None
        out.append((al, body, bare))
    return out


def resolve(args, kind, v):
    """the argument a placeholder denotes for format_args!: index -> list order (aliased or not);
    name -> the argument with that alias, else an implicit capture of the name"""
    if kind in ("impl", "idx"):
        return ("arg", v) if v < len(args) else ("invalid", None)
    for i, (al, _, _) in enumerate(args):
        if al is not None and al.replace("r#", "") == v.replace("r#", ""):
            return ("arg", i)
    return ("capture", v)


def check_resolution(binary, chk, rng, n_bound, n_pass, report):
    bound_cases = [gen_bound_case(rng) for _ in range(n_bound)]
    pass_cases = [gen_pass_case(rng) for _ in range(n_pass)]
    # fixed regression inputs (single aliased argument behind a bare placeholder; alias referred to by position)
    for body in ['"{}", value = _0', '"{0}", value = _0', '"{value}", value = _0', '"{:?}", x = _0 + 1', '"{}", x=_0',
                 '"{0:x}", name = a', '"{}", _0', '"{name}"', '"{}", other = a, b', '"{1}", a', '"{0}", a, b',
                 '"{}", _0 == _1', '"{0}", a==b', '"{:?}", r == &0', '"{eq}", eq = a == b', '"{}", a != b']:
        lit = re.match(r'"([^"]*)"', body).group(1)
        rest = body[len(lit) + 2:].lstrip(", ")
        pass_cases.append({"lit": lit, "args_src": rest, "n": None, "body": body})
    reqs = []
    for c in bound_cases:
        reqs.append({"cmd": "c16_split", "tokens": c["args_src"]})
        reqs.append({"cmd": "expand", "derive": c["derive"], "item": c["item"], "summary": True})
    for c in pass_cases:
        reqs.append({"cmd": "c16_split", "tokens": c["args_src"]})
        reqs.append({"cmd": "fmt_attr", "tokens": c["body"]})
    res = common.run_jsonl(binary, reqs, timeout=300)
    relex_reqs = []
    stats = {"bound_cases": 0, "bound_placeholders": 0, "pass_cases": 0, "pass_delegated": 0}
    # ---- (b) bound inference
    for k, c in enumerate(bound_cases):
        sp, ex = res[2 * k], res[2 * k + 1]
        if not isinstance(sp, dict) or not isinstance(sp.get("syn"), dict) or "ok" not in sp["syn"] or "tokens" not in sp \
                or len(sp["syn"]["ok"]) != c["n"]:
            continue        # generator produced something syn reads differently: no opinion
        if not isinstance(ex, dict) or "items" not in ex:
            key = "expansion-panics" if isinstance(ex, dict) and ("panic" in ex or "crash" in ex) else "bound-expansion-failed"
            report(key, "`%s` does not expand: %s" % (c["item"], json.dumps(ex)[:300]), {"item": c["item"]})
            continue
        if not isinstance(ex["items"], list) or not all(isinstance(it, dict) for it in ex["items"]):
            report("expansion-unparsable", "the expansion of `%s` is not Rust (the arguments were re-emitted wrongly): %s ... %s" %
                   (c["item"], json.dumps(ex["items"])[:160], str(ex.get("ok"))[-220:]), {"item": c["item"]})
            continue
        args = syn_args(sp)
        field_ty = dict(zip([f.replace("r#", "") for f in c["fields"]], c["tys"]))
        want = set()
        impl = 0
        ok = True
        for (kind, v, tr) in c["phs"]:
            where, i = resolve(args, kind, v)
            if where == "invalid":
                ok = False
                break
            name = args[i][2] if where == "arg" else i
            if name is not None and name.replace("r#", "") in field_ty:
                want.add((field_ty[name.replace("r#", "")], tr))
        if not ok:
            continue
        got = set()
        for it in ex["items"]:
            if it.get("kind") == "impl":
                for w in it.get("where") or []:
                    m = re.match(r"^(\w+) : .*:: (\w+)$", str(w))
                    got.add((m.group(1), m.group(2)) if m else ("?", str(w)))
        stats["bound_cases"] += 1
        stats["bound_placeholders"] += len(c["phs"])
        chk.count(("bound", c["item"]), True)
        if got != want:
            report("bound-argument-mismatch",
                   "`%s`: format_args! resolves the placeholders to arguments needing the bounds %s, the derive infers %s" %
                   (c["item"], sorted(want), sorted(got)), {"item": c["item"], "expected": sorted(want), "observed": sorted(got)})
    # ---- (a) pass-through
    base = 2 * len(bound_cases)
    pend = []
    for k, c in enumerate(pass_cases):
        sp, fa = res[base + 2 * k], res[base + 2 * k + 1]
        if not isinstance(sp, dict) or not isinstance(sp.get("syn"), dict) or "ok" not in sp["syn"] or "tokens" not in sp:
            continue
        if not isinstance(fa, dict) or "args" not in fa:
            if isinstance(fa, dict) and "err" in fa and "lex_error" not in fa:
                report("attr-rejects-valid-list", "FmtAttribute rejects `%s`: %s" % (c["body"], fa["err"]), {"attr": c["body"]})
            elif not (isinstance(fa, dict) and "lex_error" in fa):
                report("dm-panic", "FmtAttribute fails internally on `%s`: %s" % (c["body"], json.dumps(fa)[:200]), {"attr": c["body"]})
            continue
        args = syn_args(sp)
        m = _PH.match(c["lit"])
        want = None
        if m:
            ref, ty = m.group(1), m.group(2) or ""
            kind, v = ("impl", 0) if ref is None else ("idx", int(ref)) if ref.isdigit() else ("name", ref)
            where, i = resolve(args, kind, v)
            if where == "arg" and len(args) == 1:
                want = (args[i][1], TRAIT_OF_TYPE[ty])
            elif where == "capture" and not args:
                want = ([{"i": v}], TRAIT_OF_TYPE[ty])
        tr = fa.get("transparent")
        if tr is not None and not (isinstance(tr, dict) and isinstance(tr.get("expr"), str) and isinstance(tr.get("trait"), str)):
            report("harness-unexpected-output", "unexpected `transparent` answer for `%s`: %s" % (c["body"], json.dumps(tr)[:200]),
                   {"attr": c["body"]})
            continue
        pend.append((c, want, tr))
        if tr is not None:
            relex_reqs.append({"cmd": "tokens", "tokens": tr["expr"]})
    # tie: the model's transparent_expr (fmt/mod.rs transparent_call, argument selection) on the same tokens
    tie_idx = []
    tie_exprs = []
    for idx, (c, want, tr) in enumerate(pend):
        mm = _PH.match(c["lit"])
        if not mm:
            continue
        ref = mm.group(1)
        php = "PhNone" if ref is None else ("PhIndex %d" % int(ref)) if ref.isdigit() else ("PhName " + common.coq_str(ref))
        sp = res[base + 2 * pass_cases.index(c)]
        toks = [{"l": '"%s"' % c["lit"]}] + ([{"p": ",", "j": False}] + sp["tokens"] if sp["tokens"] else [])
        tie_idx.append(idx)
        tie_exprs.append("view_transparent (%s) %s" % (php, coq_list(toks)))
    tie_res = dict(zip(tie_idx, common.coq_eval(["Verif.C16.Model"], tie_exprs, batch=150, tag="c16t")))
    stats["pass_model_ties"] = len(tie_idx)
    rl = iter(common.run_jsonl(binary, relex_reqs, timeout=300))
    for idx, (c, want, tr) in enumerate(pend):
        if idx in tie_res:
            t = tie_res[idx]
            mt = None
            if t != "Fail" and t != "Fuel" and t[1] != "None":
                mt = drop_last_joint([from_coq(x) for x in t[1][1]])
            c["_model_transparent"] = (t if t in ("Fail", "Fuel") else "Ok", mt)
        stats["pass_cases"] += 1
        chk.count(("pass", c["body"]), True)
        got = None
        if tr is not None:
            r = next(rl, None)
            got = (drop_last_joint((r.get("ok") if isinstance(r, dict) else None) or []), tr["trait"])
            stats["pass_delegated"] += 1
        w = None if want is None else (drop_last_joint(want[0]), want[1])
        if "_model_transparent" in c:
            st_, mt = c["_model_transparent"]
            if st_ != "Ok" or mt != (None if got is None else got[0]):
                report("tie-transparent", "Coq model of transparent_call's argument selection disagrees with the code on "
                       "`#[display(%s)]`" % c["body"], {"model": [st_, None if mt is None else show(mt)],
                                                        "code": None if got is None else show(got[0])})
        if got != w:
            def sh(x):
                return None if x is None else "%s::fmt(%s)" % (x[1], show(x[0]))
            report("passthrough-argument-mismatch",
                   "`#[display(%s)]`: for format_args! the sole bare placeholder denotes %s, the derive delegates to %s" %
                   (c["body"], sh(w), sh(got)), {"attr": c["body"], "expected": sh(w), "observed": sh(got)})
    return stats


# ------------------------------------------------------------------ the check

def run(tier, seed, replay):
    chk = common.Check("C16", tier, seed)
    binary = common.build_inproc()
    runner = Runner(binary)
    st = common.check_proofs(chk, "C16")
    # the explanatory port of the scanner follows the code under test (with or without the `->` rule)
    probe = common.run_jsonl(binary, [{"cmd": "c16_split", "tokens": "f::<fn() -> A, B>(), y"}])[0]
    try:
        ARROW_SKIP[0] = len(probe["dm"]["ok"]) == 2
    except Exception:
        ARROW_SKIP[0] = True

    if replay:
        r = json.load(open(replay))["replay"]
        inputs = [{"src": r["src"], "origin": "replay"}]
    else:
        inputs = make_inputs(chk, tier)
    chk.log("%d argument lists" % len(inputs))

    cases = runner.real([x["src"] for x in inputs])
    lexable = []
    for x, c in zip(inputs, cases):
        c["origin"] = x["origin"]
        c["spec"] = x.get("spec")
        chk.bump("origin:" + x["origin"])
        sp = c["split"]
        if not isinstance(sp, dict) or "crash" in sp or "panic" in sp:
            chk.violation("dm-panic", {"src": c["src"], "result": sp}, "harness crash / hang on `%s`" % c["src"])
            continue
        if "lex_error" in sp:
            chk.bump("not-lexable")
            continue
        if not all(k in sp and isinstance(sp[k], dict if k != "tokens" else list) for k in ("tokens", "dm", "syn")):
            chk.violation("harness-unexpected-output", {"src": c["src"], "result": sp},
                          "the harness returned no split for `%s`: %s" % (c["src"], json.dumps(sp)[:200]))
            continue
        if not isinstance(c.get("attr"), dict):
            c["attr"] = {"crash": c.get("attr")}
        if has_none_group(sp["tokens"]):
            continue
        lexable.append(c)
    chk.log("%d lexable; evaluating the Coq model" % len(lexable))
    models = runner.model(lexable)

    found = {}          # class -> list of cases
    kinds = {}
    n_syn = 0
    for c, m in zip(lexable, models):
        hits = []
        try:
            facts = check_case(c, m, lambda k, t, d: hits.append((k, t, d)))
        except Exception as e:      # a harness / model answer of a shape no reader expects: a finding with this input
            facts = {"syn_ok": False, "n": 0}
            hits.append(("reader-error", "`%s`: unexpected answer (%s: %s)" % (c["src"], type(e).__name__, e),
                         {"split": c.get("split"), "attr": c.get("attr")}))
        toks = c["split"]["tokens"]
        nontrivial = facts["syn_ok"] and (facts["n"] >= 2 or any(t.get("p") in ("<", "|", ",") for t in toks))
        chk.count(c["src"], nontrivial)
        if facts["syn_ok"]:
            n_syn += 1
            chk.bump("syn-parsable:%d-args" % min(facts["n"], 4))
            for k in facts.get("kinds", ()):
                kinds[k] = kinds.get(k, 0) + 1
            if "missplit" not in facts and not hits:
                chk.sample({"src": c["src"][:200], "arguments": facts["n"]}, limit=8)
        else:
            chk.bump("syn-unparsable(%s)" % c["origin"])
        for (k, t, d) in hits:
            found.setdefault(k, []).append((c, t, d))
    chk.cov["traces_validated_against_impl"] = len(lexable)
    chk.cov["oracle_evaluations"] = n_syn
    chk.cov["syn_expr_forms_covered"] = dict(sorted(kinds.items()))

    # argument resolution (pass-through and bound inference) against format_args!'s own rules
    if not replay:
        res_hits = []
        try:
            rstats = check_resolution(binary, chk, chk.rng, 700 if tier == "quick" else 8000, 500 if tier == "quick" else 5000,
                                      lambda k, t, d: res_hits.append((k, t, d)))
        except common.BuildError:
            raise
        except Exception as e:
            import traceback
            rstats = {"error": "%s: %s" % (type(e).__name__, e)}
            res_hits.append(("reader-error", "the argument-resolution oracle met an answer of unexpected shape (%s: %s)" %
                             (type(e).__name__, e), {"traceback": traceback.format_exc()[-1500:]}))
        chk.cov["argument_resolution"] = rstats
        for (k, t, d) in res_hits:
            found.setdefault(k, []).append(({"src": d.get("item") or d.get("attr") or d.get("src") or str(d)[:300]}, t, d))

    # report, smallest example of every class first; grammar cases are shrunk
    for key in sorted(found):
        lst = sorted(found[key], key=lambda x: len(x[0].get("src") or ""))
        chk.bump("class:" + key, len(lst))
        for idx, (c, text, detail) in enumerate(lst[:3]):
            src = c.get("src") or ""
            if idx == 0 and len(src) > 60 and c.get("spec") is not None and not replay and not key.startswith("tie-"):
                small = shrink(runner, c["spec"], key)
                s2 = G.render_list(small)
                if s2 != src:
                    cc = runner.real([s2])[0]
                    hits = []
                    check_case(cc, None, lambda k, t, d: hits.append((k, t, d)))
                    for (k, t, d) in hits:
                        if k == key:
                            src, text, detail = s2, t, d
                            break
            chk.violation(key, dict(detail, src=src, original=c["src"]), text)

    if getattr(chk, "proof_broken", False) and not chk.violations:
        chk.violation("proof-broken", chk.proof_failure, "a C16 proof obligation no longer checks: %s" %
                      chk.proof_failure["failed"], no_input=True)
    elif getattr(chk, "proof_broken", False):
        chk.notes.append("proof obligation broken at %s; failing inputs found by the differential run" %
                         chk.proof_failure["failed"])

    return chk.finish(
        proof=st,
        rule="argument lists: hand corpus (incl. the `_refuted` witnesses of Props.v) + the strings of the repo's own unit "
             "tests (parsing.rs `mod spec`, fmt/mod.rs `fmt_attribute_spec`; singles and sampled 2-/3-permutations, with and "
             "without trailing comma) + grammar-generated lists of 1..4 expressions over every syn::Expr form (depth <= 4, "
             "with/without `name =` aliases, trailing comma, three comma styles, 25% rendered without optional blanks so that "
             "Joint spacing varies) + a malformed stream (token deletion/duplication/insertion/replacement, only "
             "no-panic and model==code are required there). Every list goes through the real lexer, the real parsing::Expr, "
             "the real FmtAttribute, the Coq model and (oracle) syn's full Expr parser. non-trivial = syn parses it and it has "
             ">= 2 arguments or a `<`, `|` or `,` token at the top level; distinct by source text. "
             "`syn_expr_forms_covered` is measured by visiting syn's AST.",
        trusted=TRUSTED)


META = {
    "level": "proof",
    "technique": "Coq proofs about an executable model of the token scanner (totality, verbatim slices, losslessness, "
                 "fragment correctness) + differential correspondence with the real parser + syn-full as grammar oracle",
    "text": "Theorems over ALL token lists (unbounded) about a Gallina model of impl/src/parsing.rs and of "
            "FmtAttribute/FmtArgument parse/to_tokens: the scanner terminates; every returned argument is a verbatim in-order "
            "slice of the input and groups are never divided; re-emission gives back the input minus a trailing comma up to the "
            "spacing flag of separator `,`/alias `=`; `ident()` holds iff the argument is one identifier token; lists whose "
            "arguments decompose into turbofish / qualified-path heads / bar pairs / plain tokens - in particular all lists of "
            "the expression fragment G - are split exactly. The property over ALL Rust expressions is only covered by the "
            "partial theorem C16_fragment_partial; the excluded shapes have `_refuted` witnesses and are searched for on the real "
            "code against syn's full expression parser on every run.",
    "note": "partial: a complete Rust expression grammar is not formalised; outside fragment G the claim rests on the "
            "differential run against syn. Trusted: Coq kernel/vm_compute; hand model tied by differential runs; syn `full` as "
            "the grammar oracle; proc_macro2 lexer. Delimiter::None groups are outside the model.",
    "design_ref": "DESIGN.md section 2 / C16",
}
