"""C18 - derive expansion is total: a result or a diagnostic, never an internal failure.

proofs : coq/theories/C18 (index / unwrap / subtraction cores of the expanders for all inputs; closure of the
         panic-site inventory by vm_compute over Gen/PanicSiteList.v), + the literal-parser / scanner totality
         theorems of C03 / C16 when present
T-gen  : tools/lib/c18_panic_sites.py re-lists every potential internal-failure site of /repo/impl/src on every run
probe  : every derive x item shapes x attribute token streams (doc-harvested + grammar + mutated) x format
         literals (Unicode, unbalanced, huge numbers) x argument expressions x deep nesting, through the
         in-process harness under catch_unwind; outcome must be ok / err / a panic at a `Diagnostic` site
"""
import json
import os
import re

from lib import common
from lib import c18_panic_sites as ps

TRUSTED = [
    "Coq 8.16.1 kernel + vm_compute (coqc full .vo build); no axioms (Print Assumptions: closed)",
    "hand-written Gallina models coq/theories/C18/Model.v (lengths and index lists of utils.rs State/MultiFieldData, "
    "error.rs, from.rs, try_into.rs, as/mod.rs, fmt/display.rs, into.rs); tied to the code by replaying the refuted "
    "witnesses and by the panic probe (no panic is ever observed at a Discharged / Unreachable site)",
    "tools/lib/c18_panic_sites.py: the Rust lexer and the site patterns (a failure mode outside the listed kinds is "
    "only seen by the probe); `Unreachable` reasons and `Diagnostic` message reviews are hand arguments in Model.v",
    "syn::parse accepts every syntactically valid item (lib.rs:104 is outside the harness); HashMap key equality "
    "for the TryInto buckets; proc_macro2 fallback Ident validation stands for proc_macro::Ident::new",
    "in-process harness = the unmodified impl/src compiled with overflow checks; 256 MB stack thread",
]

# ------------------------------------------------------------------ classification table (read from Model.v)

ENTRY_RE = re.compile(r'\(\s*"((?:[^"]|"")*)"\s*,\s*(Discharged|Refuted|Unreachable|Diagnostic|ProbeOnly)\b\s*("(?:[^"]|"")*"|\w+)?')


def read_classification():
    src = common.strip_coq_comments(open(os.path.join(common.COQ, "theories", "C18", "Model.v")).read())
    a = src.index("Definition classification")
    b = src.index("].", a)
    table = {}
    for m in ENTRY_RE.finditer(src[a:b]):
        arg = m.group(3) or ""
        table[m.group(1).replace('""', '"')] = (m.group(2), arg.strip('"'))
    return table


def theorem_names(pid):
    p = os.path.join(common.COQ, "theories", pid, "Props.v")
    if not os.path.exists(p):
        return None
    return set(m.group(2) for m in common.THEOREM_RE.finditer(common.strip_coq_comments(open(p).read())))


# ------------------------------------------------------------------ generators

NAMES = ["A", "Foo", "r#type", "r#struct", "\u00dcn\u00ef", "_Foo", "E9", "Xy"]
FIELD_NAMES = ["a", "b", "source", "backtrace", "r#type", "r#fn", "_0", "x1", "\u00e9", "field_0", "c", "d"]
VARIANT_NAMES = ["A", "B", "Var", "r#fn", "SHOUT_CASE", "camelCase", "\u00dcn\u00ef", "_U", "X1", "__", "r#type", "Zz",
                 "HTTPRequest", "a_b"]
GENERICS = ["", "", "", "<T>", "<'a, T>", "<T: Clone>", "<T: Tr + 'static = i32>", "<T, U>",
            "<'a, 'b: 'a, T: 'a + ?Sized, U = T, const N: usize>", "<const N: usize = 3>", "<'a>",
            "<T: ?Sized>", "<#[cfg(all())] T>", "<const N: usize, const M: bool>", "<r#type>"]
WHERES = ["", "", "", " where T: Tr", " where T: Tr<U>, U: 'static", " where for<'b> &'b T: Tr, [T; N]: Sized",
          " where", " where T: ?Sized,", " where 'a: 'static"]
BASE_TYPES = [
    "i32", "u8", "String", "T", "U", "&'a T", "&'static str", "Vec<T>", "Option<Box<dyn std::error::Error + 'static>>",
    "Backtrace", "std::backtrace::Backtrace", "::std::backtrace::Backtrace", "Box<dyn Fn(T) -> U + 'a>", "[T; N]",
    "[u8; 4]", "(T, i32)", "()", "!", "fn(T) -> T", "for<'b> fn(&'b T)", "*const T", "*mut [T]", "dyn Tr + Send",
    "dyn for<'b> Tr<'b, T>", "impl Tr<T>", "_", "<T as Tr>::X", "T::X", "m!(T)", "Vec<[T; { N + 1 }]>",
    "PhantomData<fn() -> T>", "&'a mut (dyn Tr<T> + 'a)", "Foo<'a, T, N>", "Foo<{ 1 + 2 }>", "Foo<X = T>", "Foo<X: Tr>",
    "r#type", "Self", "crate::m::T", "(T,)", "(((T)))", "[T]", "&[T]", "Box<Self>", "Backtrace<T>", "my::Backtrace",
    "dyn Iterator<Item = u8> + Send", "dyn Tr<T> + 'a", "Tr + Send", "?Sized", "&dyn Tr + Send", "unsafe extern \"C\" fn(T, ...)",
    "Fn(T) -> U", "Foo<T>::X", "<T>::X", "&'a &'b mut T", "[[T; 2]; 3]", "Foo<-1>", "Foo<'static>", "Option<T::X>",
    "impl Fn(T) -> T + use<'a, T>", "Box<dyn use<'a> Tr>", "Foo<fn(T) -> (U, T)>", "Foo<N>", "[u8; N]", "isize",
]
WRAPS = ["Box<%s>", "Option<%s>", "&'a %s", "(%s, u8)", "[%s; 2]", "(%s)", "Vec<%s>", "*const %s", "fn(%s) -> %s",
         "&mut %s", "[%s]", "PhantomData<%s>", "Foo<%s, %s>", "<%s as Tr>::X", "dyn Tr<%s>"]
DISCRS = ["", "", "", " = 1", " = 1 << 2", " = -3", " = N", " = { 1 + 1 }", " = u8::MAX as isize", " = 0x10", " = A as u8"]

LIT_CORPUS = [
    "", "{}", "{_0}", "{0}", "{1}", "{a}", "{:?}", "{{}}", "{", "}", "{{", "}}{", "{}}", "{:", "{:}", "{0", "{a:>", "{:.}",
    "{:.*}", "{:1$}", "{:a$}", "{:99999999999999999999}", "{99999999999999999999999}",
    "{:.340282366920938463463374607431768211456$}", "{:.99999999999999999999}", "{18446744073709551615}",
    "{18446744073709551616}", "{:18446744073709551615$}", "{:18446744073709551616$}", "{:.18446744073709551615}",
    "\u00e9", "{\u00e9}", "{:\u00e9<5}", "{:\U0001f980^5}", "{\U0001f980}", "{:\x7f<}", "{:\x80>1}", "{\uffff}",
    "{_variant}", "{_variant:?}", "{self}", "{r#a}", "{_}", "{__}", "{ }", "{0 }", "{:#?}", "{:x?}", "{:p}", "{a:p}",
    "{_0:p}", "\x00", "{\x00}", "{:\U0010ffff<}", "{} {} {}", "{2} {0}", "{_1} {_0}", "{a} {b} {source}", "{:>+#010.3e}",
    "{:\u20ac^w$.p$x?}", "{0:1$.2$}", "{}{", "{}}}", "{{{}}}", "{:}}", "{:{<}", "{:}>}", "{\u0430\u0431}", "{:\u00a0<}",
    "{a.b}", "{0x}", "{-1}", "{+}", "{:e?}", "{: }", "{:  }", "{ :}", "{\t}", "{:\n}", "{_0:\u2028<1}", "{_\u00e9}",
    "{:.0$}", "{:0$.0$}", "{:00}", "{:000000000000000000000000000000000000000001}",
]
LIT_ALPHABET = list("{}:<^>+-#0$.*?xXopbeE _a1r9") + ["\u00e9", "\u20ac", "\U0001f980", "\x80", "\u07ff", "\u0800",
                                                        "\uffff", "\U00010000", "\U0010ffff", "\t", "\u00a0", "\u2028",
                                                        "\x00", "\x7f", "\u0301", "\u0430"]
ARG_EXPRS = [
    "_0", "a", "self.a", "*a", "&a", "a + 1", "f(a, b)", "a.b(c)", "x::<T>(1)", "Vec::<T>::new()", "|a, b| a + b",
    "|a| a, b", "a < b", "a > b", "a < b, c > d", "if a { 1 } else { 2 }", "[1, 2]", "(1, 2)", "{ let x = 1; x }",
    "<T as Tr>::f()", "a as M<K, V>", "a | 1, b | 2", "1..2", "..", "a?", "x = 1", "x = a.b", "_0 = a", "r#type",
    "format!(\"{}\", a)", "match a { _ => 1 }", "'c'", "b\"x\"", "1.5e3", "0xff_u8", "true", "\"s\"", "async { a }.await",
    "a = ", "= 1", "a = b = c", "a: T", "#[attr] a", "unsafe { a }", "loop {}", "break", "return", "<", ">", "a >> b",
    "a << b", "a::<", "::<T>", "<T>::", "||", "| |", "|", "a ||b|| c", "a::<T<U>>::b", "a::<<T as Tr>::X>()", "x.0.1",
    "-1", "!a", "a[0]", "a[..]", "&mut *a", "move || a", "A { a, ..b }", "a as u8", "'a: loop {}", "1 < 2 > 3",
    "<", "a, <", "< a >", "a < b > ::c", ":: < a > b", "a :: < b", "| a", "a | b | c |", "_variant", "self", "Self::X",
    "_0 = _0", "a = a", "source = 1", "x = |a| a, y = b", "\U0001f980", "\u00e9 = 1", "1 = a", "\"lit\" = a", "x == 1",
    "x = = 1", "x => 1", "x := 1", "$a", "a $ b", "#", "a;", ";", "a b", "a b c, d",
]
# attribute bodies (token text); FMT stands for a generated `"literal", args`
SEED_BODIES = [
    "ignore", "skip", "forward", "owned", "ref", "ref_mut", "owned, ref, ref_mut", "not(forward)", "source", "backtrace",
    "not(source)", "not(backtrace)", "transparent", "types(i32)", "types(i32, \"&str\")", "owned(types(i32))",
    "ref(types(i32), types(u8))", "i32", "i32, u8", "(i32, i64)", "()", "(i32,)", "&'a str", "String, &'static str",
    "owned(i32)", "owned(i32), ref(i32), ref_mut(i32)", "ref, ref_mut(T)", "repr", "repr(u8)", "repr(u8, i16)",
    "bound(T: Display)", "bounds(T: Display, U: Debug)", "where(T: Tr)", "bound()", "rename_all = \"snake_case\"",
    "rename_all = \"SCREAMING-KEBAB-CASE\"", "rename_all = \"nope\"", "rename_all = 1", "fmt = \"{}\"", "fmt = \"{}\", a",
    "fmt = 1", "fmt = \"{}\", \"a\"", "fmt = \"{}\", 1", "bound = \"T: Tr\"", "bound = 2", "bound = \"\"", "types(1)",
    "types(1.5)", "types(b\"x\")", "types('c')", "types(true)", "types()", "types(\"\")", "types(\"(\")", "types(i32, 1)",
    "owned(types(1))", "ref(types(\"&str\"), 2)", "types(a::b)", "types(a(b))", "not(ignore)", "not(not(forward))",
    "forward, ignore", "ignore, ignore", "owned(ignore)", "not()", "not", "str", "[u8]", "dyn Tr", "T", "Vec<T>", "!", "_",
    "((i32, i64), u8)", "(i32, i64, u8)", "(i32)", "i32,", ",", ",,", "i32 i64", "for<'a> fn(&'a u8)", "impl Tr",
    "forward, i32", "skip, i32", "forward forward", "forward(i32)", "skip(1)", "owned = 1", "ref = \"x\"", "owned(ref(i32))",
    "ref_mut(ref_mut)", "owned(), ref(), ref_mut()", "owned(i32,), ref(i32 i64)", "owned(i32) i64", "owned i64",
    "ref(i32) u8, i64", "owned(i32) owned(i64) u8", "i64 owned(i32)", "owned(i32), i64", "types", "types = 1", "types[i32]",
    "repr(C)", "repr(transparent)", "repr(u8, u16)", "repr(align(8), u8)", "repr = \"u8\"", "repr()", "u8", "C, u8",
    "align(4)", "packed(2), i64", "1", "1.5", "\"x\"", "b\"x\"", "'c'", "true", "-1", "r#\"{}\"#", "c\"x\"",
    "\"{}\" \"{}\"", "\"{}\",", "\"{}\",,", ", \"{}\"", "\"{}\" a", "\"{}\", a,", "\"{}\", a,,", "\"{}\"; a",
    "\"{}\", bound(T: Tr)", "bound(T: Tr), \"{}\"", "bound(T: Tr), bound(U: Tr)", "bound(T)", "bound(: Tr)", "bound(T: )",
    "bound('a: 'b)", "bound(for<'a> &'a T: Tr)", "bound(T: Tr + ?Sized + 'a)", "bound(T = U)", "bound(\"T: Tr\")",
    "where(T: Tr,)", "where T: Tr", "rename_all", "rename_all(\"x\")", "rename_all = \"lowercase\", \"{}\"",
    "skip, \"{}\"", "\"{}\", skip", "skip skip", "skip()", "ignore(x)", "(skip)", "transparent, forward",
    "crate = x", "crate(x)", "::a", "a::", "$crate", "self", "Self", "super::x", "r#ref", "r#type(i32)", "mut", "const",
]


# characters Python's str.splitlines() treats as line ends: common.run_jsonl frames responses with it, and the
# harness echoes literal source text, so these are only ever written as escapes
LINE_BREAKS = "\r\n\x0b\x0c\x1c\x1d\x1e\x85\u2028\u2029"


def rust_lit(rng, s):
    """Python str -> Rust string literal source (several spellings)"""
    k = rng.random()
    if k < 0.08 and '"#' not in s and not any(c in LINE_BREAKS for c in s):
        return 'r#"' + s + '"#'
    out = ['"']
    for c in s:
        o = ord(c)
        if c in '"\\':
            out.append("\\" + c)
        elif 0x20 <= o < 0x7f or (o >= 0xa0 and k < 0.5 and c not in LINE_BREAKS):
            out.append(c)
        else:
            out.append("\\u{%x}" % o)
    out.append('"')
    return "".join(out)


def gen_literal(rng):
    r = rng.random()
    if r < 0.3:
        s = rng.choice(LIT_CORPUS)
    elif r < 0.55:
        s = "".join(rng.choice(LIT_ALPHABET) for _ in range(rng.randrange(0, 12)))
    elif r < 0.85:
        parts = []
        for _ in range(rng.randrange(1, 4)):
            arg = rng.choice(["", "0", "1", "_0", "_1", "a", "b", "source", "_variant", "\u00e9", "x", "17", "self"])
            spec = ""
            if rng.random() < 0.6:
                spec = ":" + rng.choice(["", "<", "^", "*>", "\u00e9<", "\U0001f980^", "}>", "{<"]) * (rng.random() < 0.4) \
                    + rng.choice(["", "+", "-"]) + "#" * (rng.random() < 0.2) + "0" * (rng.random() < 0.2) \
                    + rng.choice(["", "5", "1$", "w$", "99999999999999999999", "18446744073709551615", "a$"]) \
                    + rng.choice(["", ".3", ".1$", ".p$", ".*", ".", ".99999999999999999999999$"]) \
                    + rng.choice(["", "?", "x?", "X?", "o", "x", "X", "p", "b", "e", "E", "q", "??"])
            parts.append(rng.choice(["", "t ", "{{", "}}", "\u00e9"]) + "{" + arg + spec + "}")
        s = "".join(parts)
    else:
        s = rng.choice(LIT_CORPUS)
        for _ in range(rng.randrange(1, 4)):
            i = rng.randrange(len(s) + 1)
            c = rng.choice(LIT_ALPHABET)
            k = rng.randrange(3)
            s = s[:i] + c + s[i:] if k == 0 else (s[:i] + s[i + 1:] if k == 1 else s[:i] + c + s[i + 1:])
    return s


def gen_fmt_body(rng):
    lit = rust_lit(rng, gen_literal(rng))
    n = rng.choice([0, 0, 1, 1, 2, 3])
    args = [rng.choice(ARG_EXPRS) for _ in range(n)]
    sep = rng.choice([", ", ", ", ", ", ",", " , ", " "]) if rng.random() < 0.1 else ", "
    body = lit + ("".join(sep + a for a in args))
    if rng.random() < 0.05:
        body += ","
    return body


def gen_type(rng, depth=0):
    r = rng.random()
    if depth >= 3 or r < 0.6:
        return rng.choice(BASE_TYPES)
    w = rng.choice(WRAPS)
    return w % tuple(gen_type(rng, depth + 1) for _ in range(w.count("%s")))


def deep_type(rng, n, k=None, inner=None):
    k = rng.randrange(7) if k is None else k
    inner = inner or rng.choice(["T", "i32", "Backtrace", "dyn Tr<T>"])
    if k == 7:
        return "dyn Tr<" * n + inner + ">" * n
    if k == 8:
        return "Tr<X = " * n + inner + ">" * n
    if k == 9:
        return "dyn Fn(" * n + inner + ")" * n
    if k == 10:
        return "<" * n + inner + " as Tr>::X" * n
    if k == 0:
        return "Box<" * n + inner + ">" * n
    if k == 1:
        return "(" * n + inner + ")" * n
    if k == 2:
        return "&" * n + inner
    if k == 3:
        return "[" * n + inner + "]" * n
    if k == 4:
        return "(" * n + inner + ",)" * n
    if k == 5:
        return "Option<Vec<" * (n // 2) + inner + ">>" * (n // 2)
    return "fn(" * n + inner + ")" * n


def tokens_of(src):
    return [t.t for t in ps.lex(src)]


def mutate_tokens(rng, body, pool):
    """token deletion / duplication / swap / replacement / insertion / (un)wrapping on a token text"""
    try:
        toks = tokens_of(body)
    except Exception:
        return body
    for _ in range(rng.choice([1, 1, 1, 2, 3])):
        k = rng.randrange(8)
        n = len(toks)
        plain = [i for i, t in enumerate(toks) if t not in "()[]{}"]
        if k == 0 and plain:
            del toks[rng.choice(plain)]
        elif k == 1 and plain:
            i = rng.choice(plain)
            toks.insert(i, toks[i])
        elif k == 2 and len(plain) >= 2:
            i, j = rng.sample(plain, 2)
            toks[i], toks[j] = toks[j], toks[i]
        elif k == 3 and plain:
            toks[rng.choice(plain)] = rng.choice(pool)
        elif k == 4:
            toks.insert(rng.randrange(n + 1), rng.choice(pool))
        elif k == 5 and n:
            i = rng.randrange(n)
            # wrap one plain token (or everything) in a group
            o, c = rng.choice([("(", ")"), ("[", "]"), ("{", "}")])
            if toks[i] in "()[]{}":
                toks = [o] + toks + [c]
            else:
                toks[i:i + 1] = [o, toks[i], c]
        elif k == 6:
            # remove one matched pair of delimiters
            opens = [i for i, t in enumerate(toks) if t in "([{"]
            if opens:
                i = rng.choice(opens)
                depth = 0
                for j in range(i, len(toks)):
                    if toks[j] in "([{":
                        depth += 1
                    elif toks[j] in ")]}":
                        depth -= 1
                        if depth == 0:
                            del toks[j]
                            del toks[i]
                            break
        else:
            toks = toks + [rng.choice([",", ",", "="])] + [rng.choice(pool)]
    return " ".join(toks)


TOKEN_POOL = [
    "1", "1.5", "b\"x\"", "'c'", "true", "false", "\"x\"", "\"{}\"", "-", "=", ",", "::", "!", "#", "?", ":", ";", "<", ">",
    "&", "*", "|", "nope", "unknown_ident", "types", "fmt", "bound", "not", "ignore", "skip", "forward", "owned", "ref",
    "ref_mut", "source", "backtrace", "repr", "rename_all", "transparent", "where", "for", "dyn", "impl", "fn", "mut",
    "i32", "T", "'a", "()", "(1)", "(i32)", "(\"x\")", "[1]", "{}", "0xff", "1u8", "1e3", "\"\\u{1f980}\"", "r#type",
    "self", "Self", "crate", "_", "..", "->", "=>", "+", "@", "$", "~",
]


def attr_forms(rng, name, body):
    r = rng.random()
    if r < 0.80:
        return "#[%s(%s)]" % (name, body)
    if r < 0.83:
        return "#[%s]" % name
    if r < 0.86:
        return "#[%s()]" % name
    if r < 0.89:
        return "#[%s = %s]" % (name, rng.choice(["\"x\"", "1", "\"{}\"", "true", "b\"x\"", body if body else "1"]))
    if r < 0.91:
        return "#[%s{%s}]" % (name, body)
    if r < 0.93:
        return "#[%s[%s]]" % (name, body)
    if r < 0.95:
        return "#[%s::x(%s)]" % (name, body)
    if r < 0.97:
        return "#[derive_more::%s(%s)]" % (name, body)
    if r < 0.985:
        return "#[%s(%s)] #[%s(%s)]" % (name, body, name, body)
    return "#![%s(%s)]" % (name, body) if rng.random() < 0.2 else "#[%s((%s))]" % (name, body)


class Gen:
    def __init__(self, rng, derives, doc_bodies):
        self.rng = rng
        self.derives = derives                 # [(trait, module, [attrs])]
        self.doc_bodies = doc_bodies           # {attr name: [body text]}
        self.all_attr_names = sorted(set(a for _, _, al in derives for a in al) | {"repr"})

    def attr_names(self, trait, declared):
        snake = re.sub(r"(?<!^)(?=[A-Z])", "_", trait).lower()
        names = list(declared) + [snake, trait.lower()]
        if trait == "TryFrom":
            names.append("repr")
        return list(dict.fromkeys(names))

    def body(self, name):
        rng = self.rng
        fmtish = name in ("display", "debug", "binary", "octal", "lower_hex", "upper_hex", "lower_exp", "upper_exp",
                          "pointer")
        r = rng.random()
        if fmtish and r < 0.55:
            b = gen_fmt_body(rng)
        elif r < 0.15 and self.doc_bodies.get(name):
            b = rng.choice(self.doc_bodies[name])
        elif r < 0.93:
            b = rng.choice(SEED_BODIES)
        else:
            b = gen_fmt_body(rng)
        if rng.random() < 0.45:
            b = mutate_tokens(rng, b, TOKEN_POOL)
        return b

    def attrs(self, names, p):
        rng = self.rng
        out = []
        while rng.random() < p and len(out) < 3:
            name = rng.choice(names) if rng.random() < 0.93 else rng.choice(self.all_attr_names)
            out.append(attr_forms(rng, name, self.body(name)))
            p *= 0.35
        if rng.random() < 0.03:
            out.append(rng.choice(["#[doc = \"x\"]", "#[cfg(all())]", "#[allow(dead_code)]", "#[repr(u8)]", "#[repr(C)]",
                                   "#[non_exhaustive]", "#[deprecated]", "/// doc"]) + "\n")
        return " ".join(out)

    def fields(self, names, kind, n, p_attr, types=None):
        rng = self.rng
        if kind == "unit":
            return ""
        fs = []
        used = rng.sample(FIELD_NAMES, n)
        for i in range(n):
            ty = types[i] if types else gen_type(rng)
            a = self.attrs(names, p_attr)
            vis = rng.choice(["", "", "", "pub ", "pub(crate) "])
            fs.append("%s %s%s%s" % (a, vis, (used[i] + ": ") if kind == "named" else "", ty))
        inner = ", ".join(fs) + ("," if fs and rng.random() < 0.3 else "")
        return "{ %s }" % inner if kind == "named" else "( %s )" % inner

    def item(self, trait, declared, shape=None, p_attr=0.35, deep=0):
        rng = self.rng
        names = self.attr_names(trait, declared)
        shape = shape or rng.choice(["unit", "tuple", "named", "enum", "enum", "union", "empty_enum"])
        name = rng.choice(NAMES)
        gen = rng.choice(GENERICS)
        wh = rng.choice(WHERES) if gen else rng.choice(["", "", "", " where"])
        cattrs = self.attrs(names, p_attr * 1.4)
        if trait == "TryFrom" and rng.random() < 0.6:
            cattrs += " #[try_from(repr)]" if rng.random() < 0.8 else " #[try_from(%s)]" % self.body("try_from")
        if shape in ("unit", "tuple", "named"):
            n = rng.randrange(0, 6)
            types = None
            if deep:
                n = max(n, 1)
                types = [gen_type(rng) for _ in range(n)]
                types[rng.randrange(n)] = deep_type(rng, deep)
            body = self.fields(names, shape, n, p_attr, types)
            if shape == "named":
                return "%s struct %s%s%s %s" % (cattrs, name, gen, wh, body)
            return "%s struct %s%s %s%s;" % (cattrs, name, gen, body, wh)
        if shape == "union":
            n = rng.randrange(0, 4)
            return "%s union %s%s%s %s" % (cattrs, name, gen, wh, self.fields(names, "named", n, p_attr) or "{ }")
        if shape == "empty_enum":
            return "%s enum %s%s%s { }" % (cattrs, name, gen, wh)
        nv = rng.randrange(1, 6)
        vs = []
        vnames = rng.sample(VARIANT_NAMES, nv)
        unit_only = rng.random() < (0.7 if trait in ("TryFrom", "FromStr") else 0.15)
        for i in range(nv):
            kind = "unit" if unit_only else rng.choice(["unit", "tuple", "named", "tuple"])
            n = rng.randrange(0, 4)
            types = None
            if deep and i == 0:
                kind, n = "tuple", 1
                types = [deep_type(rng, deep)]
            body = self.fields(names, kind, n, p_attr, types)
            d = rng.choice(DISCRS) if kind == "unit" or rng.random() < 0.05 else ""
            vs.append("%s %s %s%s" % (self.attrs(names, p_attr), vnames[i], body, d))
        return "%s enum %s%s%s { %s }" % (cattrs, name, gen, wh, ", ".join(vs) + ("," if rng.random() < 0.3 else ""))


def harvest_doc_bodies():
    """attribute bodies of the code examples of /repo/impl/doc/*.md, per attribute name"""
    out = {}
    d = os.path.join(common.REPO, "impl", "doc")
    for nm in sorted(os.listdir(d)):
        if not nm.endswith(".md"):
            continue
        text = open(os.path.join(d, nm), encoding="utf-8").read()
        for block in re.findall(r"```rust[^\n]*\n(.*?)```", text, re.S):
            block = "\n".join(l[2:] if l.startswith("# ") else l for l in block.splitlines())
            try:
                toks = ps.lex(block)
            except Exception:
                continue
            partner = ps.match_groups(toks)
            for i, t in enumerate(toks):
                if t.t == "#" and i + 3 < len(toks) and toks[i + 1].t == "[" and toks[i + 2].k == "id" \
                        and toks[i + 3].t == "(" and partner[i + 3] > 0 and toks[i + 2].t not in ("derive", "cfg", "doc", "allow"):
                    body = " ".join(x.t for x in toks[i + 4:partner[i + 3]])
                    out.setdefault(toks[i + 2].t, [])
                    if body not in out[toks[i + 2].t]:
                        out[toks[i + 2].t].append(body)
    return out


def arity_cases():
    """From / Into with a listed tuple type of every arity against 0..4 fields: at struct, variant and field level,
    plain and inside owned / ref / ref_mut, with a skipped field, with a second listed type
    (utils.rs validate_type: the `wrong tuple length` diagnostics and their usize subtractions)"""
    out = []
    for nf in range(0, 5):
        tys = ["i32"] * nf
        tuple_fields = "(%s)" % ", ".join(tys)
        named_fields = "{ %s }" % ", ".join("f%d: i32" % i for i in range(nf))
        for ar in (0, 1, 2, 3, 4, 5, 6, 40):
            tup = "(" + ", ".join(["i16"] * ar) + ("," if ar == 1 else "") + ")"
            for fields, semi in ((tuple_fields, ";"), (named_fields, "")):
                out.append(("From", "#[from(%s)] struct P%s%s" % (tup, fields, semi)))
                out.append(("From", "#[from(u8, %s)] struct P%s%s" % (tup, fields, semi)))
                out.append(("From", "enum E { #[from(%s)] V%s, W }" % (tup, fields)))
                out.append(("From", "enum E { #[from(%s, %s)] V%s, #[from] W(u8) }" % (tup, tup, fields)))
                out.append(("Into", "#[into(%s)] struct P%s%s" % (tup, fields, semi)))
                for w in ("owned", "ref", "ref_mut"):
                    out.append(("Into", "#[into(%s(%s))] struct P%s%s" % (w, tup, fields, semi)))
                out.append(("Into", "#[into(owned(%s), ref(%s), ref_mut(%s, u8))] struct P%s%s" % (tup, tup, tup, fields, semi)))
                out.append(("Into", "#[into(%s)] #[into(ref(%s))] struct P%s%s" % (tup, tup, fields, semi)))
            # field level (one field is converted) and a skipped field (the arity counts the remaining ones)
            if nf >= 1:
                rest = ", ".join(["i32"] * (nf - 1))
                out.append(("Into", "struct P(#[into(%s)] i32%s);" % (tup, (", " + rest) if rest else "")))
                out.append(("Into", "struct P { #[into(ref(%s))] a: i32, b: u8 }" % tup))
                out.append(("Into", "#[into(%s)] struct P(%s, #[into(skip)] u8);" % (tup, ", ".join(tys))))
                out.append(("Into", "#[into(ref_mut(%s))] struct P { %s, #[into(ignore)] z: u8 }" % (
                    tup, ", ".join("f%d: i32" % i for i in range(nf)))))
    return out


INT_TYPES = [("i8", 8, True), ("i16", 16, True), ("i32", 32, True), ("i64", 64, True), ("i128", 128, True),
             ("isize", 64, True), ("u8", 8, False), ("u16", 16, False), ("u32", 32, False), ("u64", 64, False),
             ("u128", 128, False), ("usize", 64, False)]


def spellings(v, ty=None):
    """source spellings of the integer v: decimal, underscores, hex, octal, binary, suffixed"""
    neg = v < 0
    a = -v if neg else v
    sign = "-" if neg else ""
    dec = str(a)
    und = "_".join([dec[max(0, len(dec) - 3 * (k + 1)):len(dec) - 3 * k] for k in range((len(dec) + 2) // 3)][::-1])
    hx = "%X" % a
    hxu = "_".join([hx[max(0, len(hx) - 4 * (k + 1)):len(hx) - 4 * k] for k in range((len(hx) + 3) // 4)][::-1])
    out = [sign + dec, sign + und, sign + "0x" + hxu, sign + "0o%o" % a, sign + "0b%s" % bin(a)[2:]]
    if ty:
        out += [sign + dec + ty, sign + "0x" + hx + "_" + ty]
    return out


def limit_values():
    vals = []
    for ty, bits, signed in INT_TYPES:
        lo, hi = (-(1 << (bits - 1)), (1 << (bits - 1)) - 1) if signed else (0, (1 << bits) - 1)
        for v in (lo - 1, lo, lo + 1, hi - 1, hi, hi + 1):
            vals.append((ty, v))
    return vals


HUGE_LITERALS = ["340282366920938463463374607431768211456", "99999999999999999999999999999999999999999999",
                 "0xFFFF_FFFF_FFFF_FFFF_FFFF_FFFF_FFFF_FFFF_FF", "-170141183460469231731687303715884105729",
                 "0b" + "1" * 130, "0o7777777777777777777777777777777777777777777777", "1e400", "1.5", "1_u8_", "0x",
                 "18446744073709551616usize", "256u8", "-129i8", "1u256", "0xG"]


def discriminant_cases(rng, quick):
    """TryFrom (and every other enum derive on a subset): explicit literal discriminants at and around the limits of every
    integer type, in every spelling, followed by 0..3 implicit variants, under every repr; plus literals that fit no type"""
    out = []
    reprs = [t for t, _, _ in INT_TYPES]
    combos = []
    for ty, v in limit_values():
        for sp in spellings(v, ty):
            for tail in range(0, 4):
                combos.append((ty, sp, tail))
    for sp in HUGE_LITERALS:
        for tail in range(0, 4):
            combos.append((None, sp, tail))
    for (ty, sp, tail) in combos:
        tails = "".join(", T%d" % k for k in range(tail))
        rs = [ty or "u64", None] + ([] if quick else reprs)
        if quick:
            rs.append(rng.choice(reprs))
        for r in dict.fromkeys(rs):
            rep = "#[repr(%s)] " % r if r else ""
            pre = rng.choice(["", "Zero, ", "Zero, Low = 5, Next, "])
            out.append(("TryFrom", "#[try_from(repr)] %senum L { %sMid = %s%s }" % (rep, pre, sp, tails)))
    # the other enum derives see the same discriminants (they must ignore them)
    others = ["FromStr", "IsVariant", "Unwrap", "TryUnwrap", "TryInto", "Display", "Debug", "From", "Error", "Add", "Not"]
    for (ty, sp, tail) in rng.sample(combos, 150 if quick else 1500):
        tails = "".join(", T%d" % k for k in range(tail))
        out.append((rng.choice(others), "#[repr(%s)] enum L { Zero, Mid = %s%s }" % (ty or "u64", sp, tails)))
    return out


def numeric_cases(rng, quick, derives):
    """other numeric inputs of the derives at and around integer limits: format argument indexes, widths, precisions,
    `_N` field references, tuple-field accesses in arguments, array lengths / const arguments in field types,
    structs with very many fields"""
    out = []
    ns = sorted(set([0, 1, 2, 255, 256, 65535, 65536, 70000] +
                    [x for b in (31, 32, 63, 64, 127, 128) for x in ((1 << b) - 1, 1 << b, (1 << b) + 1)] + [10 ** 40]))
    fmts = ["Display", "Debug", "Binary", "LowerHex", "Pointer", "UpperExp", "Octal"]
    for n in ns:
        for lit in ("{%d}", "{:%d}", "{:.%d}", "{:%d$}", "{:.%d$}", "{_%d}", "{_%d:?}", "{0:%d.%d}" , "{:0%d}", "{:>%d}", "{%d:%d$}"):
            body = lit.replace("%d", str(n))
            d = rng.choice(fmts) if quick else None
            for dd in ([d] if d else fmts):
                nm = {"Display": "display", "Debug": "debug", "Binary": "binary", "LowerHex": "lower_hex", "Pointer": "pointer",
                      "UpperExp": "upper_exp", "Octal": "octal"}[dd]
                out.append((dd, "#[%s(\"%s\")] struct A(i32, i32);" % (nm, body)))
                out.append((dd, "#[%s(\"%s\", _0, _1)] struct A<T>(T, i32);" % (nm, body)))
                out.append((dd, "enum A<T> { #[%s(\"%s\")] V(T, i32), W }" % (nm, body)))
        for arg in ("_0.%d", "self.%d", "_%d", "x.%d.%d", "a[%d]", "%d", "-%d", "%du8", "0x%X"):
            a = arg.replace("%d", str(n)).replace("%X", "%X" % n)
            out.append(("Display", "#[display(\"{}\", %s)] struct A<T>(T, i32);" % a))
            out.append(("Debug", "struct A<T>(#[debug(\"{}\", %s)] T, i32);" % a))
        for ty in ("[T; %d]", "[u8; %d]", "Foo<%d>", "Foo<{ %d }>", "[[T; %d]; %d]", "[T; %dusize]", "[T; 0x%X]", "Foo<-%d>"):
            t = ty.replace("%d", str(n)).replace("%X", "%X" % n)
            ds = rng.sample(derives, 4 if quick else len(derives))
            for (trait, _, _) in ds:
                out.append((trait, "struct A<T, const N: usize>(%s);" % t))
                out.append((trait, "enum A<T> { V { a: %s }, W }" % t))
    return out


def many_members_cases(quick, derives):
    """very many fields / variants (numbered variables, `_N` names, tuple indexes); Unwrap / TryUnwrap emit one match arm
    per variant in each of their 3 methods per variant (quadratic output), so the answer-time limit grows with the size"""
    out = []
    for cnt in ((70, 200) if quick else (70, 300, 600)):
        tup = "struct A<T>(%s);" % ", ".join(["T"] * cnt)
        named = "struct A<T> { %s }" % ", ".join("f%d: T" % k for k in range(cnt))
        enum = "enum A { %s }" % ", ".join("V%d" % k for k in range(cnt))
        enum2 = "enum A<T> { %s }" % ", ".join("V%d(T)" % k for k in range(cnt))
        for (trait, _, _) in derives:
            for it in (tup, named, enum, enum2):
                out.append((trait, it))
        out.append(("Display", "#[display(\"{_%d} {_%d}\")] %s" % (cnt - 1, cnt, tup)))
        out.append(("TryFrom", "#[try_from(repr)] #[repr(u8)] " + enum))
    return out


def answer_limit(item):
    """seconds a single expansion may take before it counts as a hang: 10 s, scaled quadratically for items with more
    than 300 members (the quadratic expansions are slow but bounded)"""
    members = item.count(",") + 1
    return 10 if members <= 300 else min(300, int(10 * (members / 300.0) ** 2) + 10)


# ------------------------------------------------------------------ ties of the Part C models (model vs real code)

META_IDS = ["ignore", "forward", "owned", "ref", "ref_mut", "not", "types", "source", "backtrace", "bogus", "a::b"]
META_CONTEXTS = [   # (derive, item template, allowed parameters at that position)
    ("TryInto", "#[try_into%s] enum E { A(i32), B(u8) }", ["ignore", "owned", "ref", "ref_mut"], "try_into"),
    ("Unwrap", "enum E { #[unwrap%s] A(i32), B }", ["ignore", "owned", "ref", "ref_mut"], "unwrap"),
    ("Error", "struct E { #[error%s] a: i32 }", ["ignore", "source", "backtrace"], "error"),
    ("Deref", "struct D(#[deref%s] Vec<i32>, u8);", ["ignore", "forward"], "deref"),
    ("IntoIterator", "struct D(#[into_iterator%s] Vec<i32>, u8);", ["ignore", "owned", "ref", "ref_mut"], "into_iterator"),
]


def gen_pmeta(rng, depth=0):
    """-> (rust tokens, Coq pmeta term)"""
    ident = rng.choice(META_IDS)
    cid = "None" if "::" in ident else '(Some "%s"%%string)' % ident
    if rng.random() < (0.55 if depth == 0 else 0.7) or depth >= 3:
        return ident, "(PMPath %s)" % cid
    k = rng.random()
    if k < 0.15:
        lit = rng.choice(["1", "\"x\"", "a b", "=", "1, owned"])
        return "%s(%s)" % (ident, lit), "(PMList %s false [] None)" % cid
    kids = [gen_pmeta(rng, depth + 1) for _ in range(rng.choice([0, 1, 1, 2, 3]))]
    toks = ", ".join(k[0] for k in kids) + ("," if kids and rng.random() < 0.2 else "")
    return "%s(%s)" % (ident, toks), "(PMList %s true [%s] None)" % (cid, "; ".join(k[1] for k in kids))


def meta_tie_cases(rng, n):
    cases = []
    for _ in range(n):
        derive, tmpl, allowed, name = rng.choice(META_CONTEXTS)
        r = rng.random()
        if r < 0.04:
            body, shape = "", "ASPath"
        elif r < 0.07:
            body, shape = " = \"x\"", "ASNameValue"
        else:
            ms = [gen_pmeta(rng) for _ in range(rng.choice([0, 1, 1, 2, 3]))]
            body = "(%s)" % ", ".join(m[0] for m in ms)
            shape = "(ASList true [%s])" % "; ".join(m[1] for m in ms)
        attrs = "[%s]" % shape
        item = tmpl % body
        if r > 0.97:                                   # two attributes
            item = item.replace("#[%s" % name, "#[%s(ignore)] #[%s" % (name, name), 1)
            attrs = "[ASList true [PMPath (Some \"ignore\"%%string)]; %s]" % shape
        coq = "p_ok (get_meta_info [%s]%%string %s)" % ("; ".join('"%s"' % a for a in allowed), attrs)
        cases.append((derive, item, coq))
    return cases


LEGACY_NAMES = [("owned", "NOwned"), ("ref", "NRef"), ("ref_mut", "NRefMut"), ("types", "NTypes"), ("foo", "NOtherName")]


def gen_type_list(rng):
    """arguments of a `types(..)`-like list -> (tokens, Coq option (list bool))"""
    if rng.random() < 0.1:
        return "&'a str", "None"
    els = []
    for _ in range(rng.choice([0, 1, 1, 2, 3])):
        els.append(rng.choice([("\"&str\"", "true"), ("i32", "true"), ("a::B", "true"), ("\"x\"", "true"), ("u8", "true"),
                               ("String", "true"), ("1", "false"), ("x(y)", "false"), ("true", "false")]))
    return ", ".join(e[0] for e in els), "(Some [%s])" % "; ".join(e[1] for e in els)


def gen_lmeta(rng):
    name, cname = rng.choice(LEGACY_NAMES + [("types", "NTypes")] * 3)
    if rng.random() < 0.3:
        return name, "(LMPath %s)" % cname
    if cname in ("NOwned", "NRef", "NRefMut"):
        k = rng.random()
        if k < 0.1:
            return "%s(+)" % name, "(LMList %s None IParseFail)" % cname
        if k < 0.2:
            return "%s()" % name, "(LMList %s (Some []) IEmpty)" % cname
        lead = rng.choice(["", "i32, ", "\"x\", "])
        if k < 0.45:
            last = rng.choice(["i32", "\"&str\"", "1"])
            return "%s(%s%s)" % (name, lead, last), "(LMList %s None ILastNotList)" % cname
        iname, icname = rng.choice(LEGACY_NAMES + [("types", "NTypes")] * 4)
        toks, tl = gen_type_list(rng)
        return ("%s(%s%s(%s))" % (name, lead, iname, toks),
                "(LMList %s None (ILastList %s %s))" % (cname, "true" if icname == "NTypes" else "false", tl))
    toks, tl = gen_type_list(rng)
    return "%s(%s)" % (name, toks), "(LMList %s %s IEmpty)" % (cname, tl)


def legacy_tie_cases(rng, n):
    cases = []
    for _ in range(n):
        if rng.random() < 0.05:
            body, coq = rng.choice(["1", "\"x\", types(i32)", "i32 +"]), "None"
        else:
            ms = [gen_lmeta(rng) for _ in range(rng.choice([1, 1, 2, 3]))]
            body, coq = ", ".join(m[0] for m in ms), "(Some [%s])" % "; ".join(m[1] for m in ms)
        nf = rng.choice([1, 1, 2, 0])
        item = "#[into(%s)] struct A%s;" % (body, "(" + ", ".join(["i32"] * nf) + ")") if nf else "#[into(%s)] struct A;" % body
        cases.append(("Into", item, "fst (check_legacy_syntax %d %s)" % (nf, coq)))
    return cases


def run_model_ties(chk, binary, rng, quick):
    """the Part C models against the real derives on generated attribute bodies"""
    n = 350 if quick else 3000
    meta = meta_tie_cases(rng, n)
    legacy = legacy_tie_cases(rng, n)
    real = common.run_jsonl(binary, [{"cmd": "expand", "derive": d, "item": it, "summary": False} for d, it, _ in meta + legacy],
                            timeout=60)
    model = common.coq_eval(["Verif.Gen.PanicSiteList", "Verif.C18.Model"], [c for _, _, c in meta + legacy], batch=200, tag="c18tie")
    nm = 0
    for k, ((d, it, coq), r, m) in enumerate(zip(meta + legacy, real, model)):
        if r is None or "item_unparsable" in r or "bad_request" in r:
            continue
        nm += 1
        if k < len(meta):
            real_ok = ("ok" in r) or ("panic" in r and "/impl/src/" in r["panic"].get("loc", ""))   # later, diagnostic stage
            what = "attribute parser accepts"
        else:
            real_ok = "err" in r and r["err"].startswith("legacy syntax")
            what = "legacy syntax reported"
        chk.bump("tie:" + ("meta" if k < len(meta) else "legacy"))
        if (m == "true") != real_ok:
            chk.violation("tie-meta-model" if k < len(meta) else "tie-legacy-model",
                          {"derive": d, "item": it, "model": m, "model_term": coq, "real": str(r)[:300]},
                          "Coq model and real code disagree (%s: model %s, real %s) on %s" % (what, m, real_ok, it))
    chk.cov["traces_validated_against_impl"] = chk.cov.get("traces_validated_against_impl", 0) + nm
    return nm


FMT_DERIVES = [("Display", "display"), ("Debug", "debug"), ("Binary", "binary"), ("Octal", "octal"), ("LowerHex", "lower_hex"),
               ("UpperHex", "upper_hex"), ("LowerExp", "lower_exp"), ("UpperExp", "upper_exp"), ("Pointer", "pointer")]


def boundary_code_points():
    """~230 code points on both sides of the boundaries between XID_Start / XID_Continue and the std classes
    is_alphabetic / is_alphanumeric: superscripts, fractions, enclosed letters, letter numbers, combining marks,
    variation selectors, modifier letters, connector punctuation, digits of other scripts"""
    import unicodedata
    fixed = ("\u00b2\u00b3\u00b9\u00bd\u00bc\u00be\u24d0\u24b6\u2460\u093e\u093c\u093f\ufe00\ufe01\u203f\u2040\u00b7\u2118\u212e"
             "\u309b\u309c\u3021\u2167\u2170\u2082\u00aa\u00ba\u02b0\u02c6\u0308\u0488\u0489\u3099\u1885\u1886\u214e\u2180\u249c"
             "\U0001f130\U0001d7d8\u07c0\u0660\u0966\u0e33\u0387\u1369\u19da\u2070\u2189\u3007\u16ee\ua6e6\U00010140\u0345\u05bf"
             "\u200c\u200d\u00ad\u2054\ufe33\uff3f\u30fb\uff65\u0f0b\u2e2f\ua67f\u1da0\u2071\u207f\u2c7c\ua69c\uab5c\u0e4e\u1bab")
    out = list(fixed)
    per = {}
    for cp in range(0xa0, 0x20000, 7):
        ch = chr(cp)
        cat = unicodedata.category(ch)
        if cat in ("No", "Nl", "Mn", "Mc", "Me", "Lm", "Nd", "So", "Sk", "Pc", "Cf", "Lo", "Lt") and per.get(cat, 0) < 12:
            per[cat] = per.get(cat, 0) + 1
            out.append(ch)
    return [c for c in dict.fromkeys(out) if c not in LINE_BREAKS]


def placeholder_name_cases():
    """single bare placeholder, no arguments: FmtAttribute::transparent_call turns the name into an identifier
    (format_ident!); names built around the boundary code points, without and with a trait letter / modifiers, for the
    nine fmt derives at struct and variant level and for Debug at field level"""
    out = []
    k = 0
    for c in boundary_code_points():
        esc = "\\u{%x}" % ord(c)
        for name in (esc, "x" + esc, esc + "x", "_" + esc, "x" + esc + "1"):
            for lit in ("{%s}", "{%s:?}", "{%s:x}", "{%s:>5}"):
                body = '"' + (lit % name) + '"'
                trait, attr = FMT_DERIVES[k % len(FMT_DERIVES)]
                where = k % 4
                k += 1
                if where == 0:
                    out.append((trait, "#[%s(%s)] struct Squared { x: u8 }" % (attr, body)))
                elif where == 1:
                    out.append((trait, "#[%s(%s)] struct Circled;" % (attr, body)))
                elif where == 2:
                    out.append((trait, "enum E { #[%s(%s)] A { x: u8 }, #[%s(\"b\")] B }" % (attr, body, attr)))
                else:
                    out.append(("Debug", "struct F { #[debug(%s)] x: u8, y: u8 }" % body))
    return out


# attribute bodies a derive accepts on a field (or, for the enum derives, on a variant): "" is the bare `#[attr]`
MEMBER_ATTR_KINDS = {
    "as_ref": ["skip", "ignore", "", "forward", "i32", "str, [u8]"], "as_mut": ["skip", "ignore", "", "forward", "i32"],
    "from": ["skip", "ignore", "", "forward", "i64", "types(i32)"], "into": ["skip", "ignore", "", "i64", "ref", "owned(i64), ref"],
    "debug": ["skip", "ignore", "\"{}\", 1", "\"{_0}\"", "bound(T: Tr)"],
    "display": ["\"{}\", 1", "\"{_0}\"", "bound(T: Tr)", "skip"],
    "error": ["ignore", "source", "backtrace", "not(source)", "not(backtrace)", ""],
    "deref": ["ignore", "forward", ""], "deref_mut": ["ignore", "forward", ""],
    "index": ["ignore", ""], "index_mut": ["ignore", ""],
    "into_iterator": ["ignore", "owned", "ref", "ref_mut", "owned, ref", ""],
    "mul": ["forward", "ignore", ""], "mul_assign": ["forward", "ignore", ""],
    "unwrap": ["ignore", "owned", "ref", "ref_mut", ""], "try_unwrap": ["ignore", "owned", "ref", "ref_mut", ""],
    "is_variant": ["ignore", ""], "try_into": ["ignore", "owned", "ref", "ref_mut", "owned, ref"],
    "try_from": ["repr", "ignore"],
}


def _attr(name, body):
    return "" if body is None else ("#[%s]" % name if body == "" else "#[%s(%s)]" % (name, body))


def _members_items(name, seq):
    """one attribute (or none) per member, in order: a named struct, a tuple struct and an enum"""
    n = len(seq)
    named = "struct Foo<T> { %s }" % ", ".join("%s f%d: %s" % (_attr(name, b), i, "T" if i == 0 else "i32") for i, b in enumerate(seq))
    tup = "struct Foo<T>(%s);" % ", ".join("%s %s" % (_attr(name, b), "T" if i == 0 else "i32") for i, b in enumerate(seq))
    enum = "enum Foo<T> { %s }" % ", ".join("%s V%d(%s)" % (_attr(name, b), i, "T" if i == 0 else "i32") for i, b in enumerate(seq))
    return [named, tup, enum]


def member_order_cases(rng, quick, derives):
    """ORDER permutations of mixed per-member attributes, 2-4 members: every pair, every triple over {skip-like, one
    other kind, none}, sampled quadruples -- for every derive that has an attribute of its own"""
    out = []
    for (trait, _, declared) in derives:
        for name in declared:
            kinds = MEMBER_ATTR_KINDS.get(name, ["ignore", "skip", "forward", ""])
            opts = kinds + [None]
            seqs = [(a, b) for a in opts for b in opts if not (a is None and b is None)]
            skipish = [k for k in kinds if k in ("skip", "ignore")] or [kinds[0]]
            for sk in skipish:
                for other in [k for k in kinds if k != sk]:
                    tri = [sk, other, None]
                    seqs += [(a, b, c) for a in tri for b in tri for c in tri if sk in (a, b, c) and other in (a, b, c)]
            for _ in range(30 if quick else 300):
                seqs.append(tuple(rng.choice(opts) for _ in range(4)))
            for seq in dict.fromkeys(seqs):
                for it in _members_items(name, seq):
                    out.append((trait, it))
    return out


def member_order_pins(derives):
    """both orders of (skip-like, other) on two members, for every derive with per-member attributes: fixed corpus"""
    out = []
    for (trait, _, declared) in derives:
        for name in declared:
            kinds = MEMBER_ATTR_KINDS.get(name, ["ignore", ""])
            skipish = [k for k in kinds if k in ("skip", "ignore")] or [kinds[0]]
            other = [k for k in kinds if k not in skipish][:2] or [""]
            for sk in skipish:
                for o in other:
                    for seq in ((sk, o), (o, sk), (sk, o, sk), (o, sk, o)):
                        for it in _members_items(name, seq)[:2 if trait not in ("From", "Unwrap", "TryUnwrap", "IsVariant", "TryInto") else 3]:
                            out.append((trait, it))
    out.append(("AsRef", "struct Foo { #[as_ref(skip)] bar: i32, #[as_ref] baz: f32 }"))      # seeded change_9
    out.append(("AsRef", "struct Foo { #[as_ref] bar: i32, #[as_ref(skip)] baz: f32 }"))
    out.append(("AsMut", "struct Foo { #[as_mut(ignore)] bar: i32, #[as_mut(forward)] baz: Vec<u8> }"))
    return out


# lemma of Proofs.v that stops checking -> derives whose expansion exercises the modelled function
LEMMA_FOCUS = {
    "validate_type_arith_safe": ["From", "Into"], "from_types_safe": ["From"], "from_legacy_error_safe": ["From"],
    "from_expand_fields_unit_arm_unreachable": ["From"], "into_loop_safe": ["Into"], "into_push_value_safe": ["Into"],
    "into_legacy_top_level_safe": ["Into"], "error_index_safe": ["Error"], "parse_fields_inv": ["Error"],
    "render_ops_safe": ["Error"], "infer_source_rem_safe": ["Error"], "try_into_member_safe": ["TryInto"],
    "as_struct_attr_unwrap_safe": ["AsRef", "AsMut"], "as_field_attrs_skip_unreachable": ["AsRef", "AsMut"],
    "as_validation_is_present": ["AsRef", "AsMut"], "asef_guard_present": ["Deref", "DerefMut", "Index", "IndexMut", "IntoIterator", "FromStr"],
    "vt_single_guard_present": ["From", "Into"], "il_guard_present": ["Into"], "from_str_guard_present": ["FromStr"],
    "display_shared_attr_unwrap_safe": ["Display", "Binary", "Octal", "LowerHex", "UpperHex", "LowerExp", "UpperExp", "Pointer"],
    "placeholder_counter_safe": ["Display", "Debug"], "ident_preds_are_xid_present": ["Display", "Debug", "Binary", "Pointer"],
    "transparent_ident_valid": ["Display", "Debug", "Binary", "Pointer"], "balanced_pair_count_safe": ["Display", "Debug"],
    "assert_single_enabled_field_safe": ["Deref", "DerefMut", "Index", "IndexMut", "IntoIterator", "FromStr"],
    "len1_index0_safe": ["FromStr"], "fmt_trait_names_total": ["Display", "Debug"],
    # Part C: obligations over extracted expressions / guards and the new models
    "isf_exp_is": ["Error"], "isf_guard_present": ["Error"], "infer_source_arith_safe": ["Error"],
    "pfs_star_is": ["Display", "Debug"], "pfs_next_is": ["Display", "Debug"], "pfs_pos_is": ["Display", "Debug"],
    "parse_fmt_counter_safe": ["Display", "Debug"],
    "bp_dec_is": ["Display", "Debug"], "bp_inc_is": ["Display", "Debug"], "bp_guard_present": ["Display", "Debug"],
    "balanced_pair_x_safe": ["Display", "Debug"],
    "tf_inc_is": ["TryFrom"], "try_from_counter_safe": ["TryFrom"], "ff_inc_is": ["From"], "from_forward_counter_safe": ["From"],
    "ppnm_meta_wrapped": ["TryInto", "Unwrap", "TryUnwrap", "Error", "Deref", "IntoIterator", "Mul", "Add"],
    "ppnm_meta_top": ["TryInto", "Unwrap", "TryUnwrap", "Error", "Deref", "IntoIterator", "Mul", "Add"],
    "meta_parser_safe": ["TryInto", "Unwrap", "TryUnwrap", "Error", "Deref", "IntoIterator", "Mul", "Add"],
    "get_meta_info_total": ["TryInto", "Unwrap", "TryUnwrap", "Error", "Deref", "IntoIterator", "Mul", "Add"],
    "check_legacy_syntax_safe": ["Into"],
    "call_depth_le_ty_depth": ["Error", "Display", "Debug", "AsRef", "AsMut"],
}


def failing_lemma(proof_failure):
    """name of the lemma of C18/Proofs.v (or theorem of Props.v) enclosing the line coqc stopped at"""
    m = re.match(r"(?:\./)?(theories/C18/\w+\.v):(\d+)", (proof_failure or {}).get("failed") or "")
    if not m:
        return None
    try:
        lines = open(os.path.join(common.COQ, m.group(1))).read().splitlines()[:int(m.group(2))]
    except OSError:
        return None
    for l in reversed(lines):
        mm = re.match(r"\s*(?:Lemma|Theorem|Example)\s+(\w+)", l)
        if mm:
            return mm.group(1)
    return None


# fixed corpus: the witnesses of the refuted theorems and earlier minimised failures, run first
CORPUS = [
    ("Error", "struct E(#[error(ignore)] i32, Backtrace);"),          # index panic until /repo 6329c3f
    ("Error", "struct E(#[error(ignore)] i32, std::backtrace::Backtrace);"),
    ("Error", "enum E { V(#[error(ignore)] i32, Backtrace) }"),
    ("Error", "struct E(Backtrace, #[error(ignore)] i32);"),
    ("Error", "enum E { V { #[error(ignore)] a: i32, source: Inner } }"),
    ("From", "#[from(types(1))] struct A(i32);"),
    ("From", "enum A { #[from(types(1.5, \"x\"))] V(i32) }"),
    ("From", "#[from(())] struct A(i32);"),
    ("From", "enum A { #[from(())] V { a: i32 } }"),
    ("From", "#[from((i32, i64))] struct A(i32);"),
    ("Into", "#[into(())] struct A(i32);"),
    ("Into", "#[into(i32 i64)] struct A(i32);"),                    # push_value panic until /repo 04051df
    ("Into", "#[into(owned(i32) i64)] struct A(i32);"),             # ... until /repo 4f1b004
    ("Into", "struct A(#[into(ref(i32) i64, u8)] i32);"),
    # seeded change_2 (push_punct guard): a trailing comma inside a wrapper group followed by another item, and the
    # same wrapper keyword typed first then bare; struct and field level, also laid out over several lines
    ("Into", "#[into(owned(i64,), ref(i32))] struct A(i32);"),
    ("Into", "#[into(\n    owned(i64,),\n    ref(i32),\n)]\nstruct A(i32);"),
    ("Into", "#[into(owned(i64), owned, ref)] struct A(i32);"),
    ("Into", "struct A(#[into(owned(i64,), ref(i32))] i32, u8);"),
    ("Into", "struct A { #[into(owned(i64), owned, ref)] a: i32, b: u8 }"),
    ("Into", "#[into(ref(i32,), ref_mut(i32,), owned)] struct A(i32);"),
    ("Into", "#[into(owned, owned(i64,), owned)] struct A(i32);"),
    ("Into", "#[into(ref_mut(i32), ref_mut, ref_mut(u8,),)] struct A { a: i32 }"),
    ("From", "#[from((),)] struct A(i32);"),
    ("FromStr", "enum E { r#fn, r#Fn }"),
    ("Into", "#[into(types(1))] struct A(i32);"),
    ("Into", "#[into(owned(types(1)))] struct A(i32);"),
    ("Unwrap", "enum E { r#fn(i32), B }"),
    ("TryUnwrap", "enum E { r#fn(i32), B }"),
    ("IsVariant", "enum E { r#fn(i32), B }"),
    ("TryFrom", "#[try_from(repr)] enum E { r#fn, B }"),
    ("IntoIterator", "struct S(#[into_iterator(ref)] dyn Iterator<Item = u8> + Send);"),
    ("Deref", "#[deref(forward)] struct S(dyn Tr + Send);"),
    ("Display", "#[display(\"{:99999999999999999999}\")] struct A;"),
    ("Display", "#[display(\"{99999999999999999999999}\")] struct A;"),
    ("Display", "#[display(\"{:.340282366920938463463374607431768211456$}\")] struct A;"),
    ("Debug", "struct A<T>(Box<dyn for<'a> Tr<'a, T>>);"),
    ("AsRef", "#[as_ref(forward)] struct A<T>(Vec<[T; { N + 1 }]>);"),
]


# witness of every `Refuted` theorem, as an item for the real code: it must fail at the site the table marks Refuted
REFUTED_WITNESS = {}      # no refuted site on the current tree


# ------------------------------------------------------------------ judging

def msg_class(msg):
    m = re.sub(r'"(?:[^"\\]|\\.)*"', '"_"', msg)
    m = re.sub(r"`[^`]*`", "`_`", m)
    return re.sub(r"\d+", "N", m)[:80]


class Judge:
    def __init__(self, sites, classes):
        self.sites = sites
        self.classes = classes          # key -> (class, arg)
        self.by_file = {}
        for s in sites:
            self.by_file.setdefault(s["file"], []).append(s)
        self.prefix = os.path.join(common.REPO, "impl", "src") + "/"
        self.foreign_prefix = None

    def site_at(self, rel, line):
        cands = [s for s in self.by_file.get(rel, []) if s["line_lo"] <= line <= s["line_hi"] and s["kind"] != "recursion"]
        if not cands:
            return None
        exact = [s for s in cands if s["line"] == line]
        pool = exact or cands
        # the panicking macros first, then the narrowest span
        pool.sort(key=lambda s: (s["kind"] not in ("panic", "assert", "unreachable", "unimplemented", "todo", "unwrap",
                                                    "expect", "index", "slice", "arith"),
                                 s["line_hi"] - s["line_lo"]))
        return pool[0]

    def frame_site(self, frames, msg):
        """a panic raised inside syn/quote/proc-macro2: innermost derive_more frame -> (file, fn) -> candidate sites"""
        needle = None
        if "Punctuated::push_value" in msg or "Punctuated::push_punct" in msg:
            kinds, needle = ("vecop",), ("push_value" if "push_value" in msg else "push_punct")
        elif "not a valid Ident" in msg or "Ident" in msg:
            kinds = ("format_ident", "ident_new")
        else:
            kinds = ("parse_quote", "format_ident", "ident_new", "vecop")
        for fr in frames:
            m = re.search(r"dm_inproc::((?:[A-Za-z_#0-9]+::)*)([A-Za-z_0-9]+)", fr.replace("{{closure}}", "").rstrip(":"))
            if not m:
                continue
            mods = [x for x in m.group(1).split("::") if x]
            fn = m.group(2)
            # `<dm_inproc::try_from::Expansion as quote::ToTokens>::to_tokens`: the method name is after `>::`
            m2 = re.search(r">::([A-Za-z_0-9]+)", fr)
            if fr.lstrip().startswith("<") and m2:
                mods = [x for x in (m.group(1) + m.group(2)).split("::") if x]
                fn = m2.group(1)
            # drop type segments (capitalised) from the module path
            while mods and mods[-1][:1].isupper():
                mods.pop()
            mods = [x[2:] if x.startswith("r#") else x for x in mods]
            for rel in ("/".join(mods) + ".rs", "/".join(mods + ["mod.rs"])):
                if rel in self.by_file:
                    cands = [s for s in self.by_file[rel] if s["kind"] in kinds and s["fn"] == fn
                             and (needle is None or needle in s["text"])]
                    cands_np = [s for s in cands if self.classes.get(s["key"], ("", ""))[0] not in ("Unreachable",)]
                    if len(cands_np) == 1:
                        return cands_np[0]["key"], rel, fn
                    if cands:
                        return "%s|%s|%s|*" % (rel, fn, cands[0]["kind"]), rel, fn
                    return "dep|%s|%s|%s" % (rel, fn, msg_class(msg)), rel, fn
        return None, None, None

    def judge(self, resp):
        """-> (status, class_key, site_key)   status in ok err diag skip violation"""
        if resp is None:
            return "violation", "no-response", None
        if "ok" in resp:
            return "ok", None, None
        if "err" in resp:
            return "err", None, None
        if "item_unparsable" in resp or "bad_request" in resp:
            return "skip", None, None
        if "crash" in resp:
            rc = resp["crash"].get("rc")
            return "violation", ("hang" if rc == 124 else "crash"), None
        if "panic" in resp:
            loc = resp["panic"].get("loc", "?")
            msg = resp["panic"].get("msg", "")
            if "/impl/src/" in loc and "/registry/" not in loc:
                # normally common.REPO/impl/src/...; while builders share one cargo target directory the binary may
                # momentarily have been built from a copy of the tree under another prefix
                if not loc.startswith(self.prefix):
                    self.foreign_prefix = loc.split("/impl/src/")[0]
                rel, _, line = loc.split("/impl/src/", 1)[1].rpartition(":")
                s = self.site_at(rel, int(line))
                if s is None:
                    return "violation", "unmapped|%s:%s" % (rel, line), None
                cls = self.classes.get(s["key"], ("Unaccounted", ""))[0]
                if cls == "Diagnostic":
                    return "diag", None, s["key"]
                return "violation", s["key"], s["key"]
            key, rel, fn = self.frame_site(resp["panic"].get("frames", []), msg)
            if key is None:
                key = "dep|%s|%s" % (os.path.basename(loc), msg_class(msg))
            return "violation", key, key if key in self.classes else None
        return "violation", "unknown-response", None


def run_single(binary, req, limit=10):
    """one request in its own process: the response, or {"crash": {"rc": 124}} after `limit` seconds (a hang), or
    {"crash": {"rc": rc}} when the process dies (stack exhaustion, abort)"""
    import subprocess
    try:
        p = subprocess.run([binary], input=(json.dumps(req) + "\n").encode(), stdout=subprocess.PIPE,
                           stderr=subprocess.PIPE, timeout=limit)
    except subprocess.TimeoutExpired:
        return {"crash": {"rc": 124, "stderr": "no answer within %d s" % limit}}
    line = p.stdout.decode("utf-8", "replace").split("\n")[0]
    try:
        return json.loads(line)
    except Exception:
        return {"crash": {"rc": p.returncode, "stderr": p.stderr.decode("utf-8", "replace")[-400:]}}


# ------------------------------------------------------------------ shrinking

def render(toks):
    return " ".join(toks)


def shrink(binary, judge, derive, item, klass, max_rounds=40):
    """greedy delta-debugging on the token list of the item: drop attributes / fields / variants / tokens while the
    same violation class persists"""
    if klass in ("hang", "crash", "no-response"):
        return item                       # every trial would cost the whole watchdog time
    try:
        toks = tokens_of(item)
    except Exception:
        return item
    def holds(cands):
        rs = common.run_jsonl(binary, [{"cmd": "expand", "derive": derive, "item": render(c), "summary": False}
                                       for c in cands], timeout=30, jobs=8)
        for c, r in zip(cands, rs):
            st, k, _ = judge.judge(r)
            if st == "violation" and k == klass:
                return c
        return None
    if holds([toks]) is None:
        return item
    rounds = 0
    size = max(1, len(toks) // 2)
    import time as _time
    t_end = _time.time() + (20 if klass in ("hang", "crash") else 60)
    while size >= 1 and rounds < max_rounds and _time.time() < t_end:
        rounds += 1
        cands = [toks[:i] + toks[i + size:] for i in range(0, len(toks), max(1, size // 2) if size > 1 else 1)
                 if i < len(toks)]
        got = holds(cands[:400])
        if got is not None and len(got) < len(toks):
            toks = got
            size = min(size, max(1, len(toks) // 2))
        else:
            if size == 1:
                break
            size //= 2
    return render(toks)


# ------------------------------------------------------------------ the check

def file_of_module(module):
    return [module.replace("::", "/") + ".rs", module.replace("::", "/") + "/mod.rs"]


def run(tier, seed, replay):
    chk = common.Check("C18", tier, seed)
    rng = chk.rng
    binary = common.build_inproc()

    # ---- T-gen: the inventory, then the Coq side
    sites = ps.generate()
    derives = ps.derive_table()
    gen_path = os.path.join(common.COQ, "theories", "Gen", "PanicSiteList.v")
    bad = common.scan_forbidden([gen_path])
    if bad:
        chk.violation("coq-forbidden", {"forbidden": bad}, "forbidden declarations in the generated file", no_input=True)
    st = common.check_proofs(chk, "C18")
    table = read_classification()
    site_keys = set(s["key"] for s in sites)
    unaccounted = [s for s in sites if s["key"] not in table]
    stale = sorted(k for k in table if k not in site_keys)
    classes = dict(table)
    for s in unaccounted:
        classes[s["key"]] = ("Unaccounted", "")
    chk.log("%d sites, %d unaccounted, %d stale table entries, proofs %s" % (
        len(sites), len(unaccounted), len(stale), "BROKEN" if getattr(chk, "proof_broken", False) else "ok"))

    # the Python reading of the table must agree with what Coq computes from it
    if not getattr(chk, "proof_broken", False):
        try:
            rep = common.coq_eval(["Verif.Gen.PanicSiteList", "Verif.C18.Model"], ["site_report", "unaccounted_sites"],
                                  tag="c18")
            coq_cls = {r[0]: r[4][0] for r in rep[0]}     # (key, file, fn, line, (tag, arg))
            diff = [k for k in site_keys if coq_cls.get(k) != classes.get(k, ("Unaccounted", ""))[0]]
            if diff or len(coq_cls) != len(site_keys):
                chk.violation("tie-classification", {"differ": diff[:10], "coq": len(coq_cls), "python": len(site_keys)},
                              "Model.v classification as computed by Coq differs from the table the probe uses", no_input=True)
            chk.cov["traces_validated_against_impl"] = len(coq_cls)
        except common.BuildError as e:
            chk.notes.append("could not evaluate site_report in Coq: %s" % str(e)[-300:])

    # lemma names cited by the table must exist
    thms = {}
    for pid in ("C18", "C03", "C16"):
        thms[pid] = theorem_names(pid)
    known_thms = set().union(*[t for t in thms.values() if t])
    pending = sorted(set(arg for (c, arg) in table.values() if c in ("Discharged", "Refuted") and arg not in known_thms))
    pending_sites = sorted(k for k, (c, arg) in table.items() if c in ("Discharged", "Refuted") and arg in pending
                           and k in site_keys)
    missing_local = [l for l in pending if not (l.startswith("C18_") and any(x in l for x in ("_suffix", "split_total")))
                     and not l.startswith("C03_")]
    if missing_local:
        chk.violation("lemma-missing", {"lemmas": missing_local},
                      "Model.v cites lemmas that are in no Props.v: %s" % missing_local, no_input=True)
    if pending:
        chk.notes.append("cited lemmas not (yet) present in C03/C16 Props.v: %s -- the %d sites they discharge are "
                         "covered by the probe only in this run" % (pending, len(pending_sites)))

    judge = Judge(sites, classes)
    doc_bodies = harvest_doc_bodies()
    g = Gen(rng, derives, doc_bodies)

    # ---- tie of the refuted theorems: their witnesses fail on the real code, at the site marked Refuted
    n_wit = 0
    for key, (c, lemma) in sorted(table.items()):
        if c != "Refuted" or key not in site_keys:
            continue
        if lemma not in REFUTED_WITNESS:
            chk.violation("tie-refuted-witness", {"site": key, "lemma": lemma},
                          "no real-code witness registered for the refuted theorem %s" % lemma, no_input=True)
            continue
        d, it = REFUTED_WITNESS[lemma]
        r = run_single(binary, {"cmd": "expand", "derive": d, "item": it, "summary": False})
        stt, klass, _ = judge.judge(r)
        n_wit += 1
        if not (stt == "violation" and klass == key):
            chk.violation("tie-refuted-witness", {"site": key, "lemma": lemma, "derive": d, "item": it, "observed": r},
                          "the witness of %s no longer fails at %s on the real code (observed %s): the model is out of date"
                          % (lemma, key, str(r)[:120]), no_input=True)
    chk.cov["traces_validated_against_impl"] = chk.cov.get("traces_validated_against_impl", 0) + n_wit

    # ---- ties of the attribute meta parser / legacy detector models
    if not getattr(chk, "proof_broken", False) and not replay:
        try:
            n_tie = run_model_ties(chk, binary, rng, tier == "quick")
            chk.log("model ties: %d generated attribute bodies (meta parser, legacy detector) compared with the real derives" % n_tie)
        except common.BuildError as e:
            chk.notes.append("model ties not evaluated: %s" % str(e)[-300:])

    # ---- A-IDENT: identifiers accepted by the literal parser are accepted by Ident::new (format_ident!("{name}"))
    ip = common.run_jsonl(binary, [{"cmd": "ident_probe", "lo": lo, "hi": min(lo + 0x8000, 0x110000)}
                                   for lo in range(0, 0x110000, 0x8000)], timeout=120)
    bad_start = [c for r in ip for c in r.get("bad_start", [])]
    bad_cont = [c for r in ip for c in r.get("bad_cont", [])]
    chk.assumptions.append("A-IDENT: every scalar the real literal parser (fmt/parsing.rs identifier, driven through `format`) "
                           "accepts at the start / inside of a placeholder name is accepted by proc_macro2::Ident::new "
                           "(fmt/mod.rs:187 format_ident!(\"{name}\")); measured this run over all 0x110000 code points: "
                           "%d + %d rejected" % (len(bad_start), len(bad_cont)))
    # code points the real parser accepts in a name but Ident::new rejects: replayed through the derives below
    ident_items = []
    for c in (bad_start[:8] + bad_cont[:8]):
        nm = ("\\u{%x}" % c) if c in bad_start else ("a\\u{%x}" % c)
        for trait, attr in FMT_DERIVES[:3]:
            ident_items.append((trait, "#[%s(\"{%s}\")] struct A;" % (attr, nm), "ident-table"))

    # ---- syn's enums vs the arms of contains_generics (the `_ => unimplemented!()` arms)
    syn_note = syn_variant_check(chk)

    # ---- the probe
    outcomes = {}
    diag_sites = {}
    found = {}                       # class -> (derive, item, resp)
    n_probe = [0]

    def run_batch(cases, timeout=25, chunk=None):
        reqs = [{"cmd": "expand", "derive": d, "item": it, "summary": False} for (d, it, _) in cases]
        rs = common.run_jsonl(binary, reqs, timeout=timeout, chunk=chunk)
        # a crash / hang is confirmed by running the culprit alone (10 s limit)
        for i, r in enumerate(rs):
            if r is None or "crash" in r:
                rs[i] = run_single(binary, reqs[i], limit=answer_limit(reqs[i]["item"]))
            elif "panic" in r and "/impl/src/" not in r["panic"].get("loc", "") and not r["panic"].get("frames"):
                rs[i] = run_single(binary, reqs[i])      # the stack capture of a dependency panic was empty: once more
        for (d, it, bucket), r in zip(cases, rs):
            stt, klass, skey = judge.judge(r)
            n_probe[0] += 1
            outcomes[stt] = outcomes.get(stt, 0) + 1
            chk.bump(bucket)
            chk.bump("derive:" + d)
            if stt == "diag":
                diag_sites[skey] = diag_sites.get(skey, 0) + 1
            chk.count((d, it), stt != "skip")
            if stt in ("ok", "err", "diag"):
                chk.sample({"derive": d, "item": it[:200], "outcome": stt}, limit=8)
            if stt == "violation":
                if klass not in found:
                    found[klass] = (d, it, r)
                else:
                    # keep the shortest
                    if len(it) < len(found[klass][1]):
                        found[klass] = (d, it, r)

    if replay:
        rp = json.load(open(replay))["replay"]
        run_batch([(rp["derive"], rp["item"], "replay")])
    else:
        quick = tier == "quick"
        # (a) corpus
        run_batch([(d, it, "corpus") for d, it in CORPUS + member_order_pins(derives)])
        run_batch([(d, it, "member-order") for d, it in member_order_cases(rng, quick, derives)])
        # placeholder names around the identifier-class boundaries (+ whatever the A-IDENT measurement found)
        run_batch(ident_items + [(d, it, "placeholder-name") for d, it in placeholder_name_cases()])
        # (a') listed tuple types of every arity against 0..4 fields (From / Into, all levels and kinds)
        run_batch([(d, it, "arity") for d, it in arity_cases()])
        # (a'') numeric inputs at and around the limits of every integer type
        run_batch([(d, it, "discriminant") for d, it in discriminant_cases(rng, quick)])
        run_batch([(d, it, "numeric") for d, it in numeric_cases(rng, quick, derives)], timeout=60)
        run_batch([(d, it, "many-members") for d, it in many_members_cases(quick, derives)], timeout=400, chunk=4)
        # (b) every derive x every base shape, no attributes
        cases = []
        for (trait, module, declared) in derives:
            for shape in ("unit", "tuple", "named", "enum", "union", "empty_enum"):
                for _ in range(3 if quick else 12):
                    cases.append((trait, g.item(trait, declared, shape, p_attr=0.0), "shape:" + shape))
        run_batch(cases)
        # (c) every seed body / doc body on container, field and variant of every derive that declares an attribute
        cases = []
        for (trait, module, declared) in derives:
            names = g.attr_names(trait, declared)
            bodies = SEED_BODIES + [b for nm in declared for b in doc_bodies.get(nm, [])]
            if quick and not declared:
                bodies = rng.sample(bodies, min(len(bodies), 12))     # derives without an attribute of their own
            for b in bodies:
                nm = names[0]
                a = "#[%s(%s)]" % (nm, b)
                cases.append((trait, "%s struct A<T>(T);" % a, "seed:container"))
                cases.append((trait, "struct A<T> { %s a: T, b: i32 }" % a, "seed:field"))
                cases.append((trait, "enum A<T> { %s V(T), W { a: i32 }, X }" % a, "seed:variant"))
                cases.append((trait, "struct A(%s i32, Backtrace);" % a, "seed:tuple-field"))
                if not quick:
                    cases.append((trait, "%s enum A { V, W }" % a, "seed:enum-container"))
                    cases.append((trait, "enum A<T> { V(%s T, i32), W }" % a, "seed:variant-field"))
        run_batch(cases)
        # (d) random items with generated + mutated attributes
        n_rand = 13000 if quick else 1000000
        done = 0
        while done < n_rand:
            k = min(100000, n_rand - done)
            cases = []
            for _ in range(k):
                trait, module, declared = rng.choice(derives)
                cases.append((trait, g.item(trait, declared, p_attr=rng.choice([0.2, 0.4, 0.7])), "random"))
            run_batch(cases)
            done += k
            if not quick:
                chk.log("random probes: %d / %d, violation classes so far: %d" % (done, n_rand, len(found)))
        # (e) deep nesting (own small batches: slow items, crashes / hangs attributed to the culprit)
        cases = []
        depths = [200, 500, 1000, 2000]
        for (trait, module, declared) in derives:
            for dep in (depths if not quick else [rng.choice(depths)]):
                for _ in range(1 if quick else 3):
                    cases.append((trait, g.item(trait, declared, rng.choice(["tuple", "named", "enum"]), p_attr=0.1, deep=dep),
                                  "deep:%d" % dep))
        # every recursive arm of utils::is_type_parameter_used_in_type / fmt::contains_generics / GenericsSearch, with the
        # type parameter innermost (derive(Error) infers the source bound, Display/Debug/AsRef look for generics)
        for k in range(11):
            for dep in ([2000] if quick else depths):
                ty = deep_type(rng, dep, k, "T")
                cases.append(("Error", "struct E<T>(#[error(source)] %s);" % ty, "deep:%d" % dep))
                cases.append(("Error", "enum E<T> { V { source: %s, b: Backtrace } }" % ty, "deep:%d" % dep))
                cases.append(("Display", "#[display(\"{_0:?}\")] struct E<T>(%s);" % ty, "deep:%d" % dep))
                cases.append(("Debug", "struct E<T>(%s);" % ty, "deep:%d" % dep))
                cases.append(("AsRef", "#[as_ref(forward)] struct E<T>(%s);" % ty, "deep:%d" % dep))
        run_batch(cases, timeout=10 + 20, chunk=8)

    # ---- a new / unclassified site: fuzz harder around it
    extra = 0
    if (unaccounted or getattr(chk, "proof_broken", False)) and not replay:
        files = set(s["file"] for s in unaccounted)
        biased = [d for d in derives if any(f in files for f in file_of_module(d[1]))]
        lemma = failing_lemma(getattr(chk, "proof_failure", None))
        if lemma:
            chk.notes.append("the obligation that stopped checking is %s" % lemma)
            focus = LEMMA_FOCUS.get(lemma) or LEMMA_FOCUS.get(lemma.replace("C18_", ""), [])
            biased += [d for d in derives if d[0] in focus and d not in biased]
        biased = biased or derives
        n_extra = 60000 if tier == "quick" else 400000
        chk.log("unaccounted sites in %s: fuzzing %d more probes biased to %s" % (
            sorted(files), n_extra, [d[0] for d in biased][:8]))
        cases = []
        for _ in range(n_extra):
            trait, module, declared = rng.choice(biased)
            cases.append((trait, g.item(trait, declared, p_attr=rng.choice([0.4, 0.7, 0.9])), "biased"))
        run_batch(cases)
        extra = n_extra

    # ---- report
    chk.log("%d probes: %s; %d violation classes" % (n_probe[0], outcomes, len(found)))
    if judge.foreign_prefix:
        chk.notes.append("panic locations under %s instead of %s: the shared harness binary was rebuilt from another tree "
                         "while this check ran" % (judge.foreign_prefix, common.REPO))
    for klass in sorted(found):
        d, it, r = found[klass]
        small = it if replay else shrink(binary, judge, d, it, klass)
        rr = common.run_jsonl(binary, [{"cmd": "expand", "derive": d, "item": small, "summary": False}], timeout=30)[0]
        site = next((s for s in sites if s["key"] == klass), None)
        where = ("%s:%d (%s, fn %s)" % (site["file"], site["line"], site["kind"], site["fn"])) if site else klass
        what = rr.get("panic", rr.get("crash", rr)) if isinstance(rr, dict) else rr
        chk.violation(klass, {"derive": d, "item": small, "observed": what, "site": where, "unshrunk_item": it[:2000]},
                      "#[derive(%s)] on `%s` fails internally at %s: %s" % (d, small[:300], where, str(what)[:200]))

    if getattr(chk, "proof_broken", False) or unaccounted:
        missing = [s for s in unaccounted if s["key"] not in found]
        hit = [s["key"] for s in unaccounted if s["key"] in found]
        detail = dict(getattr(chk, "proof_failure", {}) or {})
        detail["unclassified_sites_without_failing_input"] = [
            {"key": s["key"], "file": s["file"], "line": s["line"], "fn": s["fn"], "kind": s["kind"],
             "text": s["text"][:200]} for s in missing]
        detail["unclassified_sites_with_failing_input"] = hit
        detail["failing_lemma"] = failing_lemma(getattr(chk, "proof_failure", None))
        if missing or not unaccounted:
            chk.violation("proof-broken", detail,
                          "C18 obligation no longer checks (%s); unclassified sites: %s; %d extra biased probes found no "
                          "failing input for them" % (detail.get("failed", "C18_sites_accounted"),
                                                       [s["key"] for s in missing][:6], extra), no_input=True)
        if hit:
            chk.notes.append("proof obligation broken by unclassified sites; failing inputs found by the probe for %s" % hit)

    cls_count = {}
    for s in sites:
        c = classes[s["key"]][0]
        cls_count[c] = cls_count.get(c, 0) + 1
    probe_only = ["%s (%s:%d)" % (s["key"], s["file"], s["line"]) for s in sites if classes[s["key"]][0] == "ProbeOnly"]
    probe_only += ["%s (%s:%d) [cited lemma %s not present yet]" % (s["key"], s["file"], s["line"], classes[s["key"]][1])
                   for s in sites if s["key"] in pending_sites]
    if stale:
        chk.notes.append("stale entries of the classification table (no such site any more): %s" % stale[:10])
    return chk.finish(
        proof=st,
        rule="probe = fixed corpus (witnesses of the refuted theorems) + every derive x {unit, tuple, named, enum, union, "
             "empty enum} + every seed / doc-harvested attribute body on container / field / variant of every derive + random "
             "items (names incl. raw and non-ASCII identifiers, 15 generics lists, where-clauses, 0-5 fields of ~70 base types "
             "wrapped up to 3 levels, discriminants) carrying grammar-generated attributes (12 syntactic forms, format literals "
             "with 1-4 byte chars / unbalanced braces / huge numbers, ~110 argument expression shapes) mutated by token "
             "deletion / duplication / swap / replacement / insertion / (un)wrapping + types nested 200-2000 deep; "
             "non-trivial = the item parses as a DeriveInput (the expander ran); distinct by (derive, item source)",
        trusted=TRUSTED,
        extra={"probe_outcomes": outcomes, "probes": n_probe[0],
               "site_classes": cls_count, "sites": len(sites),
               "probe_only_sites": probe_only,
               "pending_external_lemmas": pending,
               "refuted_sites": [k for k, (c, _) in table.items() if c == "Refuted"],
               "diagnostic_sites_hit": diag_sites,
               "diagnostic_sites_never_hit": sorted(k for k, (c, _) in table.items() if c == "Diagnostic" and k not in diag_sites),
               "unaccounted_sites": [s["key"] for s in unaccounted],
               "syn_variant_check": syn_note,
               "doc_attribute_bodies": sum(len(v) for v in doc_bodies.values())})


def syn_variant_check(chk):
    """fmt/mod.rs contains_generics ends three matches on syn enums with `_ => unimplemented!()`; list the variants of
    the locked syn version that no arm names (they would reach the arm if syn's parser can produce them)"""
    try:
        lock = open(common.repo_lock()).read()
        vers = re.findall(r'name = "syn"\nversion = "(2\.[^"]+)"', lock)
        if not vers:
            return "syn 2.x not in Cargo.lock"
        reg = os.path.expanduser("~/.cargo/registry/src")
        root = None
        for d in os.listdir(reg):
            p = os.path.join(reg, d, "syn-" + vers[0], "src")
            if os.path.isdir(p):
                root = p
        if root is None:
            return "syn-%s sources not found" % vers[0]
        src = open(os.path.join(common.REPO, "impl", "src", "fmt", "mod.rs")).read()
        body = src[src.index("impl ContainsGenericsExt for syn::Type"):src.index("trait FieldsExt")]

        def variants(fname, enum):
            s = open(os.path.join(root, fname)).read()
            m = re.search(r"pub enum %s\b[^{]*\{(.*?)\n    \}" % enum, s, re.S)
            return re.findall(r"^\s{8}([A-Z][A-Za-z]+)\b", m.group(1), re.M) if m else []
        missing = {}
        for fname, enum, prefix in (("ty.rs", "Type", "Self::"), ("path.rs", "GenericArgument", "syn::GenericArgument::"),
                                    ("generics.rs", "TypeParamBound", "syn::TypeParamBound::")):
            vs = variants(fname, enum)
            miss = [v for v in vs if (prefix + v) not in body]
            missing[enum] = {"variants": len(vs), "unnamed_in_contains_generics": miss}
        return {"syn": vers[0], "enums": missing}
    except Exception as e:              # informational only
        return "not evaluated: %s" % e


META = {
    "level": "proof",
    "technique": "Coq proofs of the index/unwrap cores + machine-checked closure of a generated panic-site inventory, "
                 "and an in-process panic probe (grammar + mutation fuzzing under catch_unwind)",
    "text": "Theorems for all inputs about Gallina models of the expanders' index arithmetic (State/MultiFieldData vectors, "
            "assert_single_enabled_field, matcher, error.rs parse_fields / infer_source_field / render_*, from.rs expand_fields / "
            "validate_type / legacy_error, try_into grouping, as_ref attribute logic, display shared attribute, into legacy "
            "syntax): all index operations in range, with *_refuted witnesses where the faithful model fails. A translator "
            "re-lists every unreachable!/unimplemented!/panic!/assert!/unwrap/expect/index/slice/usize arithmetic/cast/"
            "parse_quote!/format_ident!/recursion site of impl/src on every run; C18_sites_accounted (vm_compute) fails on any "
            "new site. The probe runs every derive on generated and mutated items and maps each panic back to the inventory.",
    "note": "`ProbeOnly` sites (listed in coverage.probe_only_sites) are exploration, not proof: parse_quote!/format_ident! on "
            "user-derived tokens, recursion depth over syn types. `Unreachable`/`Diagnostic` classifications are reviewed hand "
            "arguments recorded in C18/Model.v. The literal-parser and scanner totality theorems live in C03/C16.",
    "design_ref": "DESIGN.md section 2 / C18",
}
