"""C12 - `TryFrom<repr>` is the exact inverse of the enum-to-integer cast.

proofs : coq/theories/C12 (try_from == first match over the language-rule discriminants of the field-less
         variants, for all variant lists; repr selection; impl header), two switches re-read from the source
tie    : Coq model of impl/src/try_from.rs + attr::ReprInt  vs  (a) the in-process expander (selected repr, impl
         header, token text of every generated constant) and (b) the REAL proc-macro compiled by rustc and run
         over whole 8/16-bit domains / discriminants +-1 and extremes of wider reprs
oracle : `Variant as repr` (or a pointer read of the tag / a field-less twin) computed by the same program
"""
import json
import os
import re

from lib import common
from lib import c12_gen as G

TRUSTED = [
    "Coq 8.16.1 kernel + vm_compute (coqc full .vo build); no axioms (Print Assumptions: closed)",
    "hand-written Gallina model coq/theories/C12/Model.v (try_from.rs:77-144, utils.rs ReprInt) tied to the code by "
    "differential runs; Gen/C12Flags.v re-extracted from try_from.rs by tools/lib/c12_gen.py on every run",
    "Model.eval = rustc's constant evaluation on the generated expression fragment (checked: the model's "
    "language-rule table must equal the `as`-cast table printed by the compiled program)",
    "rustc/cargo 1.95: `as` casts, tag read through a pointer for #[repr(int)] enums, first-arm match semantics; "
    "64-bit usize/isize (measured by the generated program)",
    "tools/lib/c12_gen.py (generators, renderers, generation-time evaluator), tools/props/c12.py",
]

CRATE = "c12_rt"
GENERATOR_REJECTS = {}       # module id -> rustc error codes; filled per run, copied into the evidence


# ------------------------------------------------------------------ cases

def build_cases(chk, tier):
    rng = chk.rng
    cases = G.fixed_cases()
    per_repr = 22 if tier == "quick" else 280
    k = 0
    reprs = G.INTS + [None]
    for t in reprs:
        made = 0
        tries = 0
        while made < per_repr and tries < per_repr * 40:
            tries += 1
            attrs = G.repr_attr_shapes(rng, t)
            r = rng.random()
            if r < 0.78:
                gens = []
            elif r < 0.86:
                gens = [["const"]]
            elif r < 0.93:
                gens = [["lt"]]
            else:
                gens = rng.choice([[["lt"], ["const"]], [["ty"]], [["lt"], ["ty"], ["const"]], [["ty", "bounded"]],
                                   [["lt"], ["ty", "bounded"], ["const", "default"]]])
            # defaults (trailing parameters only) on a third of the generic enums
            if gens and rng.random() < 0.35:
                gens = [list(g) for g in gens]
                if gens[-1][0] != "lt":
                    gens[-1].append("default")
                    if len(gens) > 1 and gens[-2][0] == "ty" and rng.random() < 0.5:
                        gens[-2].append("default")
            c = G.random_case(rng, "m%d" % k, t or "isize", attrs, gens)
            if c is None:
                continue
            k += 1
            made += 1
            cases.append(c)
    return cases


def describe(chk, case):
    t = G.language_repr(case)
    vs = case["variants"]
    chk.bump("repr:" + (t if any(h in G.INTS for a in case["repr_attrs"] for h in a) else "none(isize)"))
    if case["generics"]:
        chk.bump("generic")
        if any("default" in g[1:] for g in case["generics"]):
            chk.bump("generic_with_defaulted_parameter")
        if any("bounded" in g[1:] for g in case["generics"]) or case.get("where"):
            chk.bump("generic_with_bounds_or_where")
    if any(not G.is_empty(v) for v in vs):
        chk.bump("has_variant_with_fields")
    if any(v["fields"] in ("tuple0", "brace0") for v in vs):
        chk.bump("has_empty_tuple_or_brace_variant")
    if any(v["discr"] is not None and not G.plus_safe(v["discr"]) for v in vs):
        chk.bump("explicit_discriminant_looser_than_plus")
    if any(v["discr"] is not None and v["discr"][0] not in ("lit",) for v in vs):
        chk.bump("constant_expression_discriminant")
    if any(v.get("raw") for v in vs):
        chk.bump("raw_identifier_variant")
    dv = G.discr_values(case, t) or []
    if any(d < 0 for d in dv):
        chk.bump("negative_discriminant")
    if len(case["repr_attrs"]) > 1 or any(len(a) > 1 for a in case["repr_attrs"]):
        chk.bump("repr_among_other_hints")


def nontrivial(case):
    vs = case["variants"]
    return any(v["discr"] is not None for v in vs) and any(v["discr"] is None for v in vs)


# ------------------------------------------------------------------ in-process expansion (header, repr, constants)

CONST_RE = re.compile(r"const (__DISCRIMINANT_\w+) : (\w+) = (.*?) ;")


def strip_ws(s):
    return "".join(s.split())


def inproc_view(resp):
    """summary of the real expansion, or None when the response cannot be read (expander error / panic, token
    stream that does not parse as items, unexpected shape).  Never raises."""
    try:
        items = resp.get("items") if isinstance(resp, dict) else None
        if not isinstance(items, list) or not items or items[0].get("kind") != "impl":
            return None
        it = items[0]
        body = ""
        for m in it["members"]:
            if m["kind"] == "fn":
                body = m["body"]
        return {"params": [strip_ws(p) for p in it["params"]], "trait": strip_ws(it["trait"]), "where": [strip_ws(w) for w in it.get("where", [])],
                "self": strip_ws(it["self_ty"]), "consts": [(m.group(1), m.group(2), m.group(3)) for m in CONST_RE.finditer(body)]}
    except Exception:
        return None


unreadable_class = G.unreadable_class


def header_strings(h, repr_name):
    """model header record -> (params, trait, self) in the harness' whitespace-free spelling"""
    def app(p):
        name, args = p
        name = common.py_str(name)
        args = [common.py_str(a) for a in args]
        return name + ("<" + ",".join(args) + ">" if args else "")
    params = []
    for g in h["h_impl_params"]:
        nm = common.py_str(g[1])
        params.append({"GLifetime": nm, "GType": nm, "GConst": "const" + nm + ":usize"}[g[0]])
    return params, "derive_more::core::convert::TryFrom<" + app(h["h_trait_arg"]) + ">", app(h["h_self"])


# ------------------------------------------------------------------ the generated crate

parse_diags = G.parse_diags


def build_and_run(chk, cases, name=CRATE):
    """-> (failed {id: diags}, outputs {id: parsed line}).  A module the compiler rejects is dropped (and
    reported by the caller); when the diagnostics name no module the crate is bisected by module."""
    failed = {}
    budget = [14]

    def build(subset):
        if budget[0] <= 0:
            raise common.BuildError("the generated C12 crate still fails after %d rebuilds" % 14)
        budget[0] -= 1
        main, files = G.crate_sources(subset)
        d = common.make_crate(name, main, extra_files=files)
        rc, out = common.cargo(d, ["build", "--message-format=json", "--quiet"])
        return rc, out, d

    def settle(subset):
        """returns the sub-list of `subset` that builds together, recording the rest in `failed`"""
        live = list(subset)
        while live:
            rc, out, d = build(live)
            if rc == 0:
                return live
            bad, other = parse_diags(out, d)
            bad = {k: v for k, v in bad.items() if any(c["id"] == k for c in live)}
            if bad:
                failed.update(bad)
                live = [c for c in live if c["id"] not in bad]
                chk.log("crate build: %d module(s) rejected by rustc, rebuilding without them" % len(bad))
                continue
            if len(live) == 1:
                failed[live[0]["id"]] = [(None, "; ".join(map(str, other))[:400] or "rejected (no span in the module)", False)]
                return []
            chk.log("crate build fails and no diagnostic names a module: bisecting %d modules" % len(live))
            h = len(live) // 2
            a, b = settle(live[:h]), settle(live[h:])
            live = a + b
            if not a or not b:
                continue
        return live

    live = settle(cases)        # (the top-level call always ends on a successful build of exactly `live`)
    if failed:
        # control: the rejected modules WITHOUT the derive.  A module rustc rejects even then is an artefact of the
        # generator and says nothing about derive_more: it is dropped from the run and counted, never reported.
        ctl = [c for c in cases if c["id"] in failed]

        def build_ctl(subset):
            main, files = G.crate_sources(subset, control=True)
            d = common.make_crate(name + "_ctl", main, extra_files=files)
            return common.cargo(d, ["build", "--message-format=json", "--quiet"])
        _, ctl_failed = G.build_dropping(chk, ctl, lambda c: c["id"], build_ctl, what="C12 control crate")
        common.cleanup_scratch(name + "_ctl")
        for cid, diags in ctl_failed.items():
            GENERATOR_REJECTS[cid] = sorted(set(str(code) for code, _, _ in diags))
            failed.pop(cid, None)
        if ctl_failed:
            chk.log("generator artefacts (rejected by rustc even without the derive), dropped: %s" %
                    ", ".join("%s %s" % kv for kv in sorted(GENERATOR_REJECTS.items())))
    if not live:
        return failed, {}
    binp = os.path.join(common.rt_target_dir(), "debug", name)
    import subprocess
    p = subprocess.run([binp], stdout=subprocess.PIPE, stderr=subprocess.PIPE, text=True, timeout=900)
    if p.returncode != 0:
        raise common.BuildError("generated C12 program failed: rc=%s %s" % (p.returncode, p.stderr[-1500:]))
    outs = {}
    for line in p.stdout.splitlines():
        f = line.split("\t")
        if f[0] == "usize_bits":
            if f[1] != "64":
                raise common.BuildError("C12 model assumes a 64-bit target, usize::BITS = %s" % f[1])
            continue
        try:
            rec = {}
            for kv in f[1:]:
                k, _, v = kv.partition("=")
                rec[k] = v
            pairs = lambda s: [(int(a), int(b)) for a, b in (x.split(":") for x in s.split(",") if x)]
            outs[f[0]] = {"mode": rec["mode"], "table": dict(pairs(rec["table"])), "full": rec["full"] == "true",
                          "points": [int(x) for x in rec["points"].split(",") if x], "ok": dict(pairs(rec["ok"])),
                          "err_good": int(rec["err_good"]), "err_bad": pairs(rec["err_bad"])}
        except Exception:
            continue          # reported as program-output-missing by the caller
    return failed, outs


def classify_failure(case, diags):
    t = G.language_repr(case)
    codes = set(c for c, _, _ in diags)
    if "E0428" in codes:
        return "constant-name-collision"          # two variants got the same `__DISCRIMINANT_*` constant
    if case.get("glob") and codes & {"E0618", "E0423", "E0532", "E0574", "E0530", "E0164"}:
        return "expansion-captures-variant-name"  # an unqualified name of the expansion resolved to a glob-imported variant
    if case["generics"] and (codes & {"E0109", "E0107", "E0726"} or
                             any("default" in (m or "") and "parameter" in (m or "") for _, m, _ in diags)):
        return "generic-enum-header"
    if "E0080" in codes or any("overflow" in (m or "") for _, m, _ in diags):
        if any(v["discr"] is not None and not G.plus_safe(v["discr"]) for v in case["variants"]):
            return "splice-precedence"
        if G.signed(t) and G.max_inc_fieldless(case) > G.hi(t):
            return "inc-literal-range"
    return "expansion-rejected"


# ------------------------------------------------------------------ repr selection through the in-process expander

OTHER_HINTS = ["C", "Rust", "align(4)", "align(16)", "packed", "packed(2)", "transparent", "simd", "a::b", "u9", "int", "I8"]


def repr_cases(rng, n):
    out = [[], [["u8"], ["u8"]], [["u8", "i16"]], [["u8"], ["C"], ["i16"]], [["C"], ["C"]], [["u8", "u8"]],
           [["C", "u8", "align(4)", "i64"]], [["align(4)"], ["usize"], ["packed(2)"]], [["i128"], ["align(2)", "u8"]]]
    # every integer type in every position of one list and of several attributes, next to hints rustc accepts on enums
    for k, t in enumerate(G.INTS):
        o1 = ["C", "align(4)", "align(16)", "packed", "Rust", "packed(2)"][k % 6]
        o2 = ["align(8)", "C", "packed", "align(2)", "C", "Rust"][k % 6]
        out += [[[t]], [[t, o1]], [[o1, t]], [[o1, t, o2]], [[t, o1, o2]], [[o1, o2, t]],
                [[t], [o1]], [[o1], [t]], [[o1], [t], [o2]], [[o1, o2], [t, o2]], [[t, o1], [o2]]]
    for _ in range(n):
        attrs = []
        for _ in range(rng.choice([0, 1, 1, 1, 2, 2, 3])):
            a = []
            for _ in range(rng.choice([1, 1, 2, 2, 3])):
                a.append(rng.choice(G.INTS) if rng.random() < 0.35 else rng.choice(OTHER_HINTS))
            attrs.append(a)
        out.append(attrs)
    return out


def repr_selection_tie(chk, inproc, tier):
    """random and systematic `#[repr(...)]` hint lists: real ReprInt::parse_attrs (through `expand`) vs the model's
    repr_of, and vs the property's reading (a unique integer hint, wherever it stands, is the repr; none = isize)"""
    rcs = repr_cases(chk.rng, 150 if tier == "quick" else 1500)
    rreqs = [{"cmd": "expand", "derive": "TryFrom", "item": "#[try_from(repr)] %s enum E { A, B }" %
              " ".join("#[repr(%s)]" % ", ".join(a) for a in attrs)} for attrs in rcs]
    rres = common.run_jsonl(inproc, rreqs)
    rterms = common.coq_eval(["Verif.C12.Model"], ["repr_of %s" % G.coq_attrs({"repr_attrs": a}) for a in rcs], tag="c12c")
    for attrs, rq, r, t in zip(rcs, rreqs, rres, rterms):
        try:
            chk.count(("repr", json.dumps(attrs)), len(attrs) > 0)
            as_case = {"id": "rp", "repr_attrs": attrs, "generics": [], "inproc_only": True,
                       "variants": [{"name": "A", "fields": "unit", "discr": None}, {"name": "B", "fields": "unit", "discr": None}]}
            v = inproc_view(r)
            if v is not None:
                m = re.match(r"derive_more::core::convert::TryFrom<(\w+)", v["trait"])
                real = m.group(1) if m else "?"
            elif "err" in r:
                real = None
            else:
                chk.violation("expander-rejects", {"case": as_case, "rust": rq["item"], "response": r}, "expander fails on repr hints %s" % attrs)
                continue
            ints = [h for a in attrs for h in a if h in G.INTS]
            pos = "none" if not ints else ("several" if len(ints) > 1 else
                                           [("last" if a[-1] == ints[0] else "first" if a[0] == ints[0] else "middle") for a in attrs if ints[0] in a][0])
            chk.bump("repr_hint_int_position:" + pos)
            # the property's reading: a unique integer hint is the repr, none means isize
            if len(ints) <= 1 and real != (ints[0] if ints else "isize"):
                chk.violation("repr-selection", {"case": as_case, "rust": rq["item"], "expander": real, "expected": ints[0] if ints else "isize",
                                                 "response": r.get("err")},
                              "%s: the expansion is `impl TryFrom<%s>` but the representation type is %s" %
                              (rq["item"], real, ints[0] if ints else "isize"))
            model = None if t == "None" else t[1].lower()
            if model != real:
                chk.violation("tie-model-repr", {"case": as_case, "rust": rq["item"], "model": model, "code": real, "response": r.get("err")},
                              "repr_of disagrees with ReprInt::parse_attrs on %s" % attrs)
        except common.BuildError:
            raise
        except Exception as e:      # a reader of real output must never abort the check
            import traceback
            chk.violation("expander-output-unreadable", {"rust": rq["item"], "error": traceback.format_exc()[-1500:]},
                          "cannot read the expansion for repr hints: %s: %s" % (type(e).__name__, e))
    chk.bump("repr_hint_lists", len(rcs))


TF_ARGS = [("repr", "TARepr"), ("repr(u8)", "TAReprTypes"), ("repr(u8, i16)", "TAReprTypes"), ("foo", "TAInvalid"),
           (None, "TAInvalid"), ("repr = 1", "TAInvalid"), ("repr()", "TAReprTypes")]


def decision_tie(chk, inproc):
    """which items get an impl at all: real `try_from::expand` vs the model's expand_decision, on every combination of item
    kind x repr attributes x up to two `#[try_from(..)]` attributes (and some triples)"""
    import itertools
    kinds = [("KEnum", "enum E { A, B }"), ("KEnum", "enum E { A(u8) }"), ("KStruct", "struct E { a: u8 }"), ("KUnion", "union E { a: u8 }")]
    reprs = [[], [["u8"]], [["C", "i16"]], [["u8"], ["u8"]]]
    tfs = [()] + [(a,) for a in TF_ARGS] + list(itertools.product(TF_ARGS, repeat=2)) + \
        [(TF_ARGS[0],) * 3, (TF_ARGS[1],) * 3, (TF_ARGS[1], TF_ARGS[2], TF_ARGS[0])]
    combos = [(k, r, tf) for k in kinds for r in reprs for tf in tfs]
    reqs, exprs = [], []
    for (kc, item), r, tf in combos:
        attrs = " ".join("#[repr(%s)]" % ", ".join(a) for a in r) + " " + \
            " ".join("#[try_from]" if a[0] is None else "#[try_from(%s)]" % a[0] for a in tf)
        reqs.append({"cmd": "expand", "derive": "TryFrom", "item": attrs + " " + item})
        exprs.append("expand_decision %s %s [%s]" % (kc, G.coq_attrs({"repr_attrs": r}), "; ".join(a[1] for a in tf)))
    res = common.run_jsonl(inproc, reqs)
    terms = common.coq_eval(["Verif.C12.Model"], exprs, tag="c12d")
    for rq, r, t in zip(reqs, res, terms):
        chk.count(("decision", rq["item"]), True)
        try:
            if isinstance(r, dict) and "err" in r:
                real = "DError"
            elif isinstance(r, dict) and "ok" in r and r.get("items") == []:
                real = "DNoImpl"
            elif inproc_view(r) is not None:
                real = "DImpl"
            else:
                cls, why = unreadable_class(r)
                chk.violation(cls, {"rust": rq["item"], "response": str(r)[:800]}, "%s: %s" % (rq["item"], why))
                continue
            if real != t:
                chk.violation("tie-model-decision", {"rust": rq["item"], "model": t, "code": real, "response": str(r)[:300]},
                              "expand_decision says %s but the expander %s on `%s`" %
                              (t, {"DError": "reports an error", "DNoImpl": "emits nothing", "DImpl": "emits an impl"}[real], rq["item"]))
        except Exception as e:
            chk.violation("expander-output-unreadable", {"rust": rq["item"], "response": str(r)[:800]}, "%s: %s" % (type(e).__name__, e))
    chk.bump("attribute_decision_combinations", len(combos))


# ------------------------------------------------------------------ the check

def run(tier, seed, replay):
    chk = common.Check("C12", tier, seed)
    flags = G.read_flags()
    G.write_flags(flags)
    chk.notes.append("switches read from try_from.rs: splice `%s` (parenthesised=%s), header `%s` (generics_on_repr=%s)%s" %
                     (flags["splice_template"], flags["splice_parenthesised"], flags["header_template"], flags["generics_on_repr"],
                      "".join("; UNRECOGNISED: " + u for u in flags["unrecognised"])))
    inproc = common.build_inproc()
    st = common.check_proofs(chk, "C12")       # (Gen/C12Flags.v is built as a dependency; other properties' Gen files are not ours to scan)

    if replay:
        cases = [json.load(open(replay))["replay"]["case"]]
    else:
        cases = build_cases(chk, tier)
    by_id = {c["id"]: c for c in cases}
    for c in cases:
        describe(chk, c)
    chk.log("%d enum declarations" % len(cases))

    # ---- 1. in-process expansion
    reqs = [{"cmd": "expand", "derive": "TryFrom", "item": "#[try_from(repr)]\n" + G.enum_item(c, with_derive=False)} for c in cases]
    exp = common.run_jsonl(inproc, reqs)
    views = {}
    for c, r, rq in zip(cases, exp, reqs):
        v = inproc_view(r)
        if v is None:
            cls, why = unreadable_class(r)
            chk.violation(cls, {"case": c, "rust": G.enum_item(c), "response": str(r)[:1500]},
                          "%s: %s" % (G.enum_item(c, with_derive=False).replace("\n", " "), why))
        views[c["id"]] = v

    # ---- 2. the model on the same declarations (first pass: everything that does not need run-time points)
    paren = "true" if flags["splice_parenthesised"] else "false"
    onrepr = "true" if flags["generics_on_repr"] else "false"
    pre = ["(gen_header %s %s %s %s, map (fun p => (const_name (fst p), snd p)) (consts %s %s), repr_of %s, gen_header_full %s %s %s %s %s)" %
           (onrepr, common.coq_str(G.language_repr(c)), common.coq_str("E"), G.coq_generics(c), paren,
            G.coq_variants(c), G.coq_attrs(c),
            onrepr, common.coq_str(G.language_repr(c)), common.coq_str("E"), G.coq_generics_full(c),
            common.coq_str(strip_ws(G.where_clause(c)[len("where"):]) if G.where_clause(c) else "")) for c in cases]
    pre_terms = common.coq_eval(["Verif.C12.Model"], pre, batch=max(4, len(pre) // 16 + 1), tag="c12a")
    predicted_header_bad = set()
    wrong_repr = set()
    for c, t in zip(cases, pre_terms):
        try:
            v = views[c["id"]]
            if v is None:
                continue
            hdr, mconsts, mrepr, hfull = t
            lrepr = G.language_repr(c)
            # model repr vs the repr the real expander used
            m = re.match(r"derive_more::core::convert::TryFrom<(\w+)", v["trait"])
            real_repr = m.group(1) if m else None
            model_repr = None if mrepr == "None" else mrepr[1].lower()
            if model_repr != real_repr:
                chk.violation("tie-model-repr", {"case": c, "model": model_repr, "code": real_repr},
                              "model and expander select different reprs for %s" % c["repr_attrs"])
            if real_repr != lrepr:
                chk.violation("repr-selection", {"case": c, "rust": G.enum_item(c), "expander": real_repr, "language": lrepr},
                              "%s: the expansion is `impl TryFrom<%s>` but the enum's representation type is %s" %
                              (G.enum_item(c, with_derive=False).replace("\n", " "), real_repr, lrepr))
                wrong_repr.add(c["id"])       # `E: TryFrom<%s>` does not exist: keep the module out of the crate
            # header
            mp, mt, ms = header_strings(hdr, lrepr)
            # declared bounds / where-clause must reappear on the impl (the model does not carry bounds)
            decl_params = [strip_ws(x) for x in G.generics_decl(c, for_impl=True)[1:-1].split(",")] if c["generics"] else []
            decl_where = [strip_ws(G.where_clause(c)[len("where"):])] if G.where_clause(c) else []
            if v["params"] != decl_params or v["where"] != decl_where:
                chk.violation("generic-enum-header", {"case": c, "rust": G.enum_item(c), "impl_params": v["params"], "impl_where": v["where"]},
                              "%s: the impl has parameters %s where %s" % (G.enum_item(c, False).replace("\n", " "), v["params"], v["where"]))
                predicted_header_bad.add(c["id"])
            # the full header of the model: parameters with bounds and without defaults, where-clause
            fparams = []
            for (gpar, bnd) in hfull["hf_params"]:
                nm, b = common.py_str(gpar[1]), common.py_str(bnd)
                fparams.append(("const" + nm + ":" + b) if gpar[0] == "GConst" else (nm + (":" + b if b else "")))
            fwhere = [common.py_str(hfull["hf_where"])] if hfull["hf_where"] else []
            if (fparams, fwhere) != (v["params"], v["where"]):
                chk.violation("tie-model-header", {"case": c, "model": [fparams, fwhere], "code": [v["params"], v["where"]]},
                              "gen_header_full and the expander disagree on the impl parameters / where-clause of %s" % c["id"])
            real_params_unbounded = [x.split("=")[0] if x.startswith("const") else x.split("=")[0].split(":")[0] for x in v["params"]]
            if (mp, mt, ms) != (real_params_unbounded, v["trait"], v["self"]):
                chk.violation("tie-model-header", {"case": c, "model": [mp, mt, ms], "code": [v["params"], v["trait"], v["self"]]},
                              "model and expander disagree on the impl header of %s" % c["id"])
            args = strip_ws(G.generics_args(c))
            if not (v["trait"] == "derive_more::core::convert::TryFrom<%s>" % lrepr and v["self"] == "E" + args):
                predicted_header_bad.add(c["id"])
            # constants: token text of the real expansion, re-parsed by an independent precedence parser,
            # vs the model's spliced trees
            cvals = {nm: tv[1] for nm, tv in G.case_consts(c).items()}
            try:
                real_consts = [(nm, G.parse_tokens(txt, cvals)) for (nm, ty, txt) in v["consts"]]
            except Exception as e:           # token text outside the fragment: a broken tie, not a crash
                chk.violation("tie-model-consts", {"case": c, "error": str(e), "consts": v["consts"]},
                              "cannot re-parse the generated constants of %s" % c["id"])
                continue
            model_consts = [(common.py_str(nm), G.coq_term_expr(e)) for (nm, e) in mconsts]
            if real_consts != model_consts or any(ty != real_repr for (_, ty, _) in v["consts"]):
                chk.violation("tie-model-consts", {"case": c, "model": model_consts, "code": real_consts, "text": v["consts"]},
                              "model and expander disagree on the generated constants of %s" % c["id"])
        except common.BuildError:
            raise
        except Exception as e:      # a reader of real output must never abort the check
            import traceback
            chk.violation("expander-output-unreadable", {"case": c, "rust": G.enum_item(c), "error": traceback.format_exc()[-1500:]},
                          "cannot read the expansion of %s: %s: %s" % (c["id"], type(e).__name__, e))

    # ---- 3. repr selection on arbitrary hint lists (in-process only: rustc rejects most of these enums)
    if not replay:
        repr_selection_tie(chk, inproc, tier)
        decision_tie(chk, inproc)

    # ---- 4. the real macro, compiled and run (modules whose expansion is for another repr, or that the
    #         expander refused, are already reported and stay out)
    runnable = [c for c in cases if c["id"] not in wrong_repr and not c.get("inproc_only")]
    GENERATOR_REJECTS.clear()
    try:
        failed, outs = build_and_run(chk, runnable)
    except common.BuildError as e:
        if not chk.violations:
            raise
        chk.notes.append("the generated crate could not be built after the violations above were found: %s" % str(e)[:600])
        failed, outs, runnable = {}, {}, []
    common.cleanup_scratch(CRATE)

    # ---- 5. the model on the run-time points (generator artefacts are out of the run)
    runnable = [c for c in runnable if c["id"] not in GENERATOR_REJECTS]
    if GENERATOR_REJECTS:
        chk.bump("generator_rejects", len(GENERATOR_REJECTS))
        chk.notes.append("generator artefacts dropped (rustc rejects the enum even without the derive): %s" %
                         "; ".join("%s %s: %s" % (k, v, G.enum_item(by_id[k], with_derive=False).replace("\n", " ")[:160])
                                   for k, v in sorted(GENERATOR_REJECTS.items())))
    live = list(runnable)
    exprs = []
    for c in live:
        o = outs.get(c["id"])
        if o is None or o["full"]:
            dom = "None" if G.BITS[G.language_repr(c)] <= 16 else "(Some [])"
        else:
            dom = "(Some [%s])" % "; ".join(G.coq_z(p) for p in o["points"])
        exprs.append("run_case %s %s %s %s" % (paren, G.coq_attrs(c), G.coq_variants(c), dom))
    terms = common.coq_eval(["Verif.C12.Model"], exprs, batch=max(4, len(exprs) // 32 + 1), tag="c12b")

    n_tie = 0
    for c, t in zip(live, terms):
        try:
            cid = c["id"]
            lrepr = G.language_repr(c)
            chk.count(json.dumps(c, sort_keys=True), nontrivial(c))
            # model results
            m_tbl = m_hits = None
            m_compiles = False
            if t != "None":
                mt, mtbl, mconsts, mh = t[1]
                m_tbl = None if mtbl == "None" else dict((i, d) for (i, d) in mtbl[1])
                if mh != "None":
                    m_compiles = True
                    hl, errs_ok = mh[1]
                    m_hits = dict((n, i) for (n, i) in hl)
                    if errs_ok != "true":
                        chk.violation("tie-model-hits", {"case": c}, "model Err does not carry its input")
            gen_tbl = G.discr_values(c, lrepr)
            model_fails = (not m_compiles) or (cid in predicted_header_bad)

            if cid in failed:
                diags = failed[cid]
                cls = classify_failure(c, diags)
                chk.violation(cls, {"case": c, "rust": G.rust_module(c), "rustc": [(a, b) for a, b, _ in diags][:6],
                                    "expected": "the expansion compiles (rustc accepts the enum itself)"},
                              "TryFrom expansion of a valid enum does not compile (%s): %s" % (cid, "; ".join(str(b) for _, b, _ in diags[:2])))
                if not model_fails:
                    chk.violation("tie-model-compile", {"case": c, "rustc": diags[:4]},
                                  "rustc rejects the expansion of %s but the model predicts that it compiles" % cid)
                n_tie += 1
                continue
            o = outs.get(cid)
            if o is None:
                chk.violation("program-output-missing", {"case": c, "rust": G.enum_item(c)}, "the compiled program printed no line for %s" % cid)
                continue
            if model_fails:
                chk.violation("tie-model-compile", {"case": c}, "the expansion of %s compiles but the model predicts a rejection" % cid)
            # language table: program (oracle) vs generator vs model
            table = o["table"]
            if gen_tbl is None or table != dict(enumerate(gen_tbl)):
                # the generation-time evaluator (tools/lib/c12_gen.ev) is not part of any claim: a disagreement with rustc is
                # an artefact of the generator, counted and noted; model and oracle are still compared on the real table
                chk.bump("generator_evaluator_disagrees_with_rustc")
                chk.notes.append("generator's evaluation differs from the compiled program's discriminants for %s: %s vs %s" %
                                 (G.enum_item(c, with_derive=False).replace("\n", " ")[:200], gen_tbl, sorted(table.items())))
            if m_tbl != table:
                chk.violation("tie-model-table", {"case": c, "program": table, "model": m_tbl},
                              "rust_discrs (model of the language rule) differs from the compiled program's casts (%s)" % cid)
            # oracle: exact inverse of the cast
            pts = range(G.lo(lrepr), G.hi(lrepr) + 1) if o["full"] else o["points"]
            npts = len(pts)
            expected = {}
            for i, v in enumerate(c["variants"]):
                if G.is_empty(v) and i in table:
                    expected[table[i]] = i
            if not o["full"]:
                expected = {d: i for d, i in expected.items() if d in set(pts)}
            if o["ok"] != expected or o["err_bad"] or o["err_good"] != npts - len(o["ok"]):
                wrong = sorted(set(o["ok"].items()) ^ set(expected.items()))[:6]
                unsafe = any(v["discr"] is not None and not G.plus_safe(v["discr"]) for v in c["variants"])
                cls = "splice-precedence" if unsafe else "inverse-mismatch"
                names = [G.vsrc(v) for v in c["variants"]]
                chk.violation(cls, {"case": c, "rust": G.enum_item(c), "observed_ok": sorted(o["ok"].items()),
                                    "expected_ok": sorted(expected.items()), "err_with_wrong_input": o["err_bad"]},
                              "try_from is not the inverse of the cast on %s: (n, variant) differing: %s; variants %s, discriminants %s" %
                              (G.enum_item(c, with_derive=False).replace("\n", " "), wrong, names, sorted(table.items())))
            # tie: model hits vs real hits
            if m_hits is not None and m_hits != o["ok"]:
                chk.violation("tie-model-hits", {"case": c, "model": sorted(m_hits.items()), "code": sorted(o["ok"].items())},
                              "model and compiled expansion disagree on %s" % cid)
            n_tie += 1
            chk.cov["evaluations"] += npts - 1
            chk.sample({"enum": G.enum_item(c, with_derive=False), "discriminants": sorted(table.items()),
                        "ok": sorted(o["ok"].items())[:8], "inputs": npts, "oracle": o["mode"]}, limit=8)
        except common.BuildError:
            raise
        except Exception as e:      # a reader of real output must never abort the check
            import traceback
            chk.violation("expander-output-unreadable", {"case": c, "rust": G.enum_item(c), "error": traceback.format_exc()[-1500:]},
                          "cannot read the run-time observation: %s: %s" % (type(e).__name__, e))
    chk.cov["traces_validated_against_impl"] = n_tie
    chk.bump("compiled_and_run", len(outs))
    chk.bump("rejected_by_rustc", len(failed))

    if flags["unrecognised"] and not chk.violations:
        chk.violation("source-template-unrecognised", {"unrecognised": flags["unrecognised"]},
                      "try_from.rs no longer has the templates the model's switches are read from (%s) and the differential run "
                      "found no failing input" % "; ".join(flags["unrecognised"]), no_input=True)
    if getattr(chk, "proof_broken", False) and not chk.violations:
        chk.violation("proof-broken", chk.proof_failure, "a C12 proof obligation no longer checks: %s" %
                      chk.proof_failure["failed"], no_input=True)
    elif getattr(chk, "proof_broken", False):
        chk.notes.append("proof obligation broken at %s; failing inputs found by the differential run" % chk.proof_failure["failed"])

    return chk.finish(
        proof=st,
        rule="enums: hand-written boundary layouts (DESIGN section 8 rows 9/10, doc/test enums, 256-variant 8-bit enums, extremes of "
             "128-bit reprs) + per repr (12 integer types and none) random layouts of 1-8 variants: unit / `()` / `{}` / tuple / "
             "struct variants, implicit runs, explicit discriminants = literals (negatives, extremes) or constant expressions "
             "(<< >> | & ^ + - * / % ! unary-, casts of typed consts, parentheses, named consts) chosen so that rustc accepts the "
             "enum; repr spelled alone or among C/align hints in one or two attributes; 22% with lifetime/type/const parameters. "
             "inputs: every value of 8/16-bit reprs, else discriminants +-1, MIN, MIN+1, MAX-1, MAX, 0, 1, 2, -1, 255, 256. "
             "evaluations = (enum, input) pairs; non-trivial = enum with >=1 explicit and >=1 implicit discriminant; distinct by declaration. "
             "plus random #[repr(...)] hint lists through the in-process expander",
        trusted=TRUSTED,
        extra={"switches": flags, "generator_rejects": dict(GENERATOR_REJECTS)})


META = {
    "level": "proof",
    "technique": "Coq proof about an executable model of the TryFrom(repr) expander (discriminant reconstruction, repr selection, "
                 "impl header) + differential correspondence with the real macro compiled by rustc, `as`-cast oracle over whole "
                 "8/16-bit domains",
    "text": "Theorems for all variant lists (unbounded, by induction): the constants the expansion defines are exactly the "
            "language-rule discriminants of the field-less variants, so under rustc's distinctness the generated first-match "
            "`match` returns Ok(v) iff v is field-less with discriminant n, and Err carries n otherwise; repr selection is "
            "characterised completely; the header is well-formed iff the generics sit on the enum. The statements are "
            "instantiated at the spelling the source has now (parenthesised splice, generics on the enum; both re-read from "
            "try_from.rs, so a regression breaks the proof obligation); 'the expansion compiles' is proved for unsigned reprs and "
            "non-negative discriminants and, for the rest, under the explicit hypothesis that every spliced offset literal fits "
            "the repr, which is refuted without it by a witness the check replays on the real macro. The model is re-tied on every run to "
            "the in-process expander (tokens of every constant, header, repr) and to the compiled expansion (all inputs of "
            "8/16-bit reprs), and two switches of the model are re-extracted from the source text.",
    "note": "Trusted: Coq kernel/vm_compute; the model's constant evaluator on the generated expression fragment (checked against "
            "rustc's own casts each run); generator/renderers; 64-bit target. Known finding: inc-literal-range. Repaired and kept as regressions: "
            "splice-precedence (481e7f0), generic-enum-header (6cf1b20), raw variant constant names (33c6018).",
    "design_ref": "DESIGN.md section 2 / C12",
}
