#!/usr/bin/env python3
"""Applies every seeded change (seeded/<id>/change_<n>/patch.diff) to /repo in turn, runs the property's quick check,
restores /repo, and rewrites seeded/RESULTS.json + the table in seeded/README.md.   usage: run_seeds.py [ID ...]"""
import glob, json, os, re, subprocess, sys
VERIF = os.path.dirname(os.path.dirname(os.path.abspath(__file__)))
REPO = os.environ.get("VERIF_REPO", "/repo")


CHANGES = None


def sh(cmd, cwd=None):
    return subprocess.run(cmd, shell=True, cwd=cwd, stdout=subprocess.PIPE, stderr=subprocess.STDOUT, text=True)


def main():
    args = sys.argv[1:]
    global CHANGES
    if "--changes" in args:                      # e.g. --changes 5,6 : only seeded/*/change_5 and change_6
        i = args.index("--changes")
        CHANGES = set("change_" + n for n in args[i + 1].split(","))
        del args[i:i + 2]
    only = set(a.upper() for a in args)
    assert sh("git status --short", REPO).stdout.strip() == "", "/repo has uncommitted changes"
    resp = os.path.join(VERIF, "seeded", "RESULTS.json")
    results = json.load(open(resp)) if os.path.exists(resp) else {}
    # the checks rewrite evidence/ and coq/theories/Gen/ from what they see; a run with a seed applied must not
    # leave its output behind, so both are snapshotted here and put back at the end
    keep = {}
    for pat in ("evidence/*.json", "coq/theories/Gen/*.v"):
        for f in glob.glob(os.path.join(VERIF, pat)):
            keep[f] = open(f, "rb").read()
    try:
        sweep(only, results)
    finally:
        for f, b in keep.items():
            open(f, "wb").write(b)
    finish(results, resp)


def sweep(only, results):
    for meta in sorted(glob.glob(os.path.join(VERIF, "seeded", "*", "change_*", "meta.json"))):
        d = os.path.dirname(meta)
        pid = d.split("/")[-2]
        if only and pid not in only:
            continue
        key = pid + "/" + d.split("/")[-1]
        if CHANGES and d.split("/")[-1] not in CHANGES:
            continue
        r = sh("git apply %s/patch.diff" % d, REPO)
        if r.returncode != 0:
            results[key] = {"applies": False, "detail": r.stdout[-300:]}
            sh("git checkout -q -- . && git reset -q", REPO)
            continue
        try:
            out = sh("./check %s" % pid, VERIF)
            classes = sorted(set(re.findall(r"^  -> ([^\n]*?): ", out.stdout, re.M)))
            nofail = all("no-failing-input-found" in l for l in out.stdout.splitlines() if l.startswith("VIOLATION"))
            results[key] = {"applies": True, "rc": out.returncode, "classes": classes,
                            "only_broken_tie_or_proof": bool(out.returncode) and nofail}
            # a change that is really about a neighbouring property (recorded in meta.json by the coordinator): when
            # the property's own check stays quiet, run the neighbour's too and record what it says
            also = json.load(open(meta)).get("also_run") or []
            if out.returncode == 0 or nofail:
                for other in also:
                    o2 = sh("./check %s" % other, VERIF)
                    results[key].setdefault("also", {})[other] = {
                        "rc": o2.returncode, "classes": sorted(set(re.findall(r"^  -> ([^\n]*?): ", o2.stdout, re.M)))}
        finally:
            sh("git checkout -q -- . && git reset -q", REPO)
        print(key, results[key], flush=True)


def finish(results, resp):
    json.dump(results, open(resp, "w"), indent=1, sort_keys=True)
    # README table
    rows = []
    for meta in sorted(glob.glob(os.path.join(VERIF, "seeded", "*", "change_*", "meta.json"))):
        m = json.load(open(meta))
        d = os.path.dirname(meta)
        key = d.split("/")[-2] + "/" + d.split("/")[-1]
        r = results.get(key, {})
        verdict = "not run" if not r else ("patch no longer applies" if not r.get("applies") else
                                            (("MISSED by its own check" + "".join("; caught by %s: %s" % (o, ", ".join(v["classes"])) for o, v in r.get("also", {}).items() if v["rc"])) if r["rc"] == 0 else
                                             ("caught (broken tie/proof only): " if r["only_broken_tie_or_proof"] else "caught: ") + ", ".join(r["classes"])))
        rows.append("| %s | %s | %s |\n" % (key, m["summary"].replace("|", "\\|").replace("\n", " ")[:300], verdict.replace("|", "\\|")))
    readme = os.path.join(VERIF, "seeded", "README.md")
    s = open(readme).read()
    head = s[:s.index("| seed | what it does |")]
    open(readme, "w").write(head + "| seed | what it does | result of `./check <id>` with the change applied (violation classes) |\n|------|--------------|------|\n" + "".join(rows))


if __name__ == "__main__":
    main()
