"""rustc oracle for C04: generic types with the REAL macro.  (S) the derive compiles with no further user bounds when every
formatted generic field is referenced by name / position / bare-identifier argument; (N) the impl stays available when type
parameters that are not formatted are instantiated with a type implementing no formatting trait."""
import json
import os
import re

from . import common
from . import fmtitems as F

LETTER = F.TYPE_LETTER
ALL_TRAITS = ["Display", "Debug", "Binary", "Octal", "LowerHex", "UpperHex", "LowerExp", "UpperExp"]

PRELUDE = """#![allow(unused, non_camel_case_types, dead_code)]
use core::fmt;
use core::marker::PhantomData;
/// implements no formatting trait at all (but the ordinary traits a user's own where clause may ask for)
#[derive(Clone, Copy, PartialEq, Eq, PartialOrd, Ord, Hash, Default)]
pub struct NoFmt;
/// a wrapper that formats (under any trait) iff its parameter does
pub struct W<T>(pub T);
macro_rules! fwd { ($($tr:ident),*) => { $( impl<T: fmt::$tr> fmt::$tr for W<T> {
    fn fmt(&self, f: &mut fmt::Formatter<'_>) -> fmt::Result { fmt::$tr::fmt(&self.0, f) } } )* } }
fwd!(Display, Debug, Binary, Octal, LowerHex, UpperHex, LowerExp, UpperExp);
/// projections: `<Holder as Project<T>>::Out == T`, `<Holder as Family>::Of<T> == W<T>`
pub struct Holder;
pub trait Project<T> { type Out; }
impl<T> Project<T> for Holder { type Out = T; }
pub trait Family { type Of<T>; }
impl Family for Holder { type Of<T> = W<T>; }
/// a trait object whose only mention of the parameter is an associated-type binding
pub trait Source { type Out; fn get(&self) -> &Self::Out; }
macro_rules! dynfwd { ($($tr:ident),*) => { $( impl<'s, T: fmt::$tr> fmt::$tr for dyn Source<Out = T> + 's {
    fn fmt(&self, f: &mut fmt::Formatter<'_>) -> fmt::Result { fmt::$tr::fmt(self.get(), f) } } )* } }
dynfwd!(Display, Debug, Binary, Octal, LowerHex, UpperHex, LowerExp, UpperExp);
pub fn need_display<X: fmt::Display>() {}
pub fn need_debug<X: fmt::Debug>() {}
pub fn need_binary<X: fmt::Binary>() {}
pub fn need_octal<X: fmt::Octal>() {}
pub fn need_lower_hex<X: fmt::LowerHex>() {}
pub fn need_upper_hex<X: fmt::UpperHex>() {}
pub fn need_lower_exp<X: fmt::LowerExp>() {}
pub fn need_upper_exp<X: fmt::UpperExp>() {}
"""
NEED = {"Display": "need_display", "Debug": "need_debug", "Binary": "need_binary", "Octal": "need_octal",
        "LowerHex": "need_lower_hex", "UpperHex": "need_upper_hex", "LowerExp": "need_lower_exp",
        "UpperExp": "need_upper_exp"}


def gen_field_type(rng, params, trait):
    """(rust type, set of params mentioned, formats under `trait` iff those params do)"""
    p = rng.choice(params)
    k = rng.randrange(9)
    if k == 8:
        return "Box<dyn Source<Out = %s>>" % p if trait in ("Display", "Debug") else "W<%s>" % p, {p}
    if k == 6:
        return "<Holder as Project<%s>>::Out" % p, {p}
    if k == 7:
        return rng.choice(["<Holder as Family>::Of<%s>" % p, "<Holder as Project<W<%s>>>::Out" % p]), {p}
    if k == 0:
        return p, {p}
    if k == 1:
        return "W<%s>" % p, {p}
    if k == 2:
        # Box forwards only Display / Debug / Pointer
        return ("Box<%s>" % p if trait in ("Display", "Debug") else "W<%s>" % p), {p}
    if k == 3:
        return "W<W<%s>>" % p, {p}
    if k == 4:
        return "&'static W<i32>", set()
    if trait == "Debug":
        q = rng.choice(params)
        return rng.choice(["Vec<%s>" % p, "Option<%s>" % p, "[%s; 2]" % p, "(%s, %s)" % (p, q), "(i32, %s)" % p]), \
            ({p, q} if "(%s, %s)" % (p, q) else {p})
    return "i32", set()


def mentioned(ty, params):
    return {p for p in params if re.search(r"\b%s\b" % p, ty)}


class BCase:
    pass


def gen_shared_field_case(rng, k):
    """a generic enum whose WRAPPING enum-level format names field `_0` itself (next to `_variant`) under a trait X,
    while a variant's own format names the same generic field under another trait Y: the impl needs both bounds"""
    c = BCase()
    c.k = k
    c.notes = ["shared-wrap-field"]
    trait = rng.choice([t for t in ALL_TRAITS if t != "Debug"])
    an = F.ATTR_OF[trait]
    params = rng.choice([["T"], ["T", "U"], ["T", "U"]])
    X = rng.choice(ALL_TRAITS)
    Y = rng.choice([t for t in ALL_TRAITS if t != X])

    def ph(name, tr):
        return "{%s%s}" % (name, ":" + LETTER[tr] if LETTER[tr] else "")
    shared, sargs = rng.choice([("{_variant} (raw: %s)" % ph("_0", X), []), ("%s={_variant}" % ph("_0", X), []),
                                ("%s|{0}" % ph("1", X), ["_variant", "_0"]), ("{_variant}/%s" % ph("f", X), ["f = _0"])])
    t0 = rng.choice(["T", "W<T>", "W<W<T>>"])
    vs = ["#[%s(%s)] V0(%s)" % (an, F.rust_lit(rng.choice(["text: %s", "%s", "[%s]"]) % ph("_0", Y)), t0),
          "#[%s(\"code\")] V1(i32, %s)" % (an, ", ".join("PhantomData<%s>" % p for p in params))]
    formatted = {"T"}
    if len(params) > 1 and rng.random() < 0.6:
        # a variant without a format of its own: printed through its single field under the derived trait (and under X)
        vs.append("V2(W<U>)")
        formatted.add("U")
        c.notes.append("implicit")
    if rng.random() < 0.5:
        vs.reverse()
    where = (" where T: Clone" if rng.random() < 0.3 else "")
    c.decl = "#[derive(derive_more::%s)] #[%s(%s)] pub enum Ty<%s>%s { %s }" % (
        trait, an, ", ".join([F.rust_lit(shared)] + sargs), ", ".join(params), where, ", ".join(vs))
    c.trait = trait
    c.params = params
    c.formatted = formatted
    return c


def gen_star_case(rng, k):
    """`.*` precision: the VALUE is a field of a type parameter, the precision a usize field or literal, and further
    implicit placeholders follow; the bounds belong to the values' types"""
    c = BCase()
    c.k = k
    c.notes = ["star"]
    trait = rng.choice(["Display", "Display", "LowerExp", "UpperExp", "Debug"])
    l = LETTER[trait]
    an = F.ATTR_OF[trait]
    named = rng.random() < 0.5
    v, p, h = ("val", "prec", "other") if named else ("_0", "_1", "_2")
    prec = rng.choice(["*%s" % p, "*%s" % p, "2", "3usize"])
    vty, hty = rng.choice(["T", "W<T>"]), rng.choice(["U", "W<U>", "W<W<U>>"])
    shape = rng.randrange(6)
    formatted = {"T"}
    if shape == 0:
        lit, args = "{:.*%s}" % l, [prec, v]
    elif shape == 1:
        lit, args = "{:.*%s} <{%s}>" % (l, ":" + l if l else ""), [prec, v, h]
        formatted.add("U")
    elif shape == 2:
        lit, args = "{%s:.*%s} [{%s}]" % (v, l, ":" + l if l else ""), [prec, h]
        formatted.add("U")
    elif shape == 3:
        lit, args = "{2:.*%s} [{%s}]" % (l, ":" + l if l else ""), [prec, h, v]
        formatted.add("U")
    elif shape == 4:
        lit, args = "{%s}|{x:.*%s}|{%s}" % (":" + l if l else "", l, ":" + l if l else ""), [h, prec, v, "x = %s" % v]
        formatted.add("U")
    else:
        lit, args = "{%s:.*%s}" % (v, l), [prec]
    fields = [(v, vty), (p, "usize"), (h, hty), ("ph" if named else "_3", "PhantomData<V>")]
    body = (" { %s }" % ", ".join("%s: %s" % f for f in fields)) if named else "(%s);" % ", ".join(t for _, t in fields)
    c.decl = "#[derive(derive_more::%s)] #[%s(%s)] pub struct Ty<T, U, V>%s" % (trait, an, ", ".join([F.rust_lit(lit)] + args), body)
    c.trait = trait
    c.params = ["T", "U", "V"]
    c.formatted = formatted
    return c


def gen_unit_bound_case(rng, k):
    """a FIELD-LESS variant (`V`, `V()`, `V {}`) whose format uses a type parameter through an expression, the bound it
    needs being given by a variant-level bound(...): the predicate has to reach the impl although the variant has no field"""
    c = BCase()
    c.k = k
    c.notes = ["unit-variant-bound"]
    # (not Debug: that derive reads a variant's attributes as formats only, bound(...) goes on the enum there)
    trait = rng.choice([t for t in ALL_TRAITS if t != "Debug"])
    an = F.ATTR_OF[trait]
    l = LETTER[trait]
    shape = rng.choice(["", "()", " {}"])
    kw = rng.choice(["bound", "bounds"])
    unit = "#[%s(%s(T: core::fmt::%s))] #[%s(\"%s{%s}\", T::default())] Unit%s" % (
        an, kw, trait, an, rng.choice(["", "dflt: "]), ":" + l if l else "", shape)
    other = "#[%s(\"x\")] Ph(PhantomData<T>, PhantomData<U>)" % an
    vs = [unit, other] if rng.random() < 0.5 else [other, unit]
    gen, where = rng.choice([("<T: Default, U>", ""), ("<T, U>", " where T: Default")])
    c.decl = "#[derive(derive_more::%s)] pub enum Ty%s%s { %s }" % (trait, gen, where, ", ".join(vs))
    c.trait = trait
    c.params = ["T", "U"]
    c.formatted = {"T"}
    return c


def pinned_cases():
    """regression cases that must be in EVERY run whatever the seed (each was once the only thing that exposed a
    seeded change): several bound(...) attributes on one item whose predicates are all needed"""
    out = []

    def mk(decl, trait, params, formatted, note):
        c = BCase()
        c.k = len(out)
        c.decl, c.trait, c.params, c.formatted, c.notes = decl, trait, params, set(formatted), ["pinned", "pinned:" + note]
        out.append(c)
    mk('#[derive(derive_more::Display)] #[display("{}{}", &_0, &_1)] #[display(bound(T: core::fmt::Display))] '
       '#[display(bound(U: core::fmt::Display))] pub struct Ty<T, U>(pub T, pub U);', "Display", ["T", "U"], "TU", "two-bound-attrs")
    mk('#[derive(derive_more::Display)] #[display(bound(T: core::fmt::Display))] #[display("{}{}{}", &_0, &_1, &_2)] '
       '#[display(bounds(U: core::fmt::Display))] #[display(bound(V: core::fmt::Display))] pub struct Ty<T, U, V>(pub T, pub U, pub V);',
       "Display", ["T", "U", "V"], "TUV", "three-bound-attrs-around-fmt")
    mk('#[derive(derive_more::Debug)] #[debug(bound(T: core::fmt::Debug))] #[debug(bound(U: core::fmt::Debug))] '
       '#[debug("{:?}{:?}", &a, &b)] pub struct Ty<T, U> { a: T, b: U }', "Debug", ["T", "U"], "TU", "two-bound-attrs-debug")
    mk('#[derive(derive_more::LowerHex)] #[lower_hex(bound(T: core::fmt::LowerHex))] #[lower_hex(bounds(U: core::fmt::LowerHex))] '
       'pub enum Ty<T, U> { #[lower_hex("{:x}", &_0)] A(T), #[lower_hex("{:x}", &_0)] B(U) }', "LowerHex", ["T", "U"], "TU",
       "two-bound-attrs-enum")
    return out


def gen_case(rng, k):
    if rng.random() < 0.04:
        return gen_unit_bound_case(rng, k)
    if rng.random() < 0.07:
        return gen_shared_field_case(rng, k)
    if rng.random() < 0.06:
        return gen_star_case(rng, k)
    c = BCase()
    c.k = k
    trait = rng.choice(ALL_TRAITS + ["Display", "Debug", "Debug"])
    params = rng.choice([["T"], ["T", "U"], ["T", "U", "V"]])
    attr_name = F.ATTR_OF[trait]
    is_enum = rng.random() < 0.35
    nvar = rng.randrange(1, 4) if is_enum else 1
    formatted = set()        # params that some formatted field mentions (under whatever trait)
    user_bounded = set()
    decl_vs = []
    c.notes = []
    shared = None
    macro_ty = None
    for vi in range(nvar):
        kind = rng.choice(["unnamed", "named", "named"])
        n = rng.choice([1, 1, 2, 2, 3])
        names = rng.sample(["a", "b", "c", "r#type", "_0", "x1"], n)
        fs = []
        for i in range(n):
            if rng.random() < 0.25:
                ty = rng.choice(["i32", "u8", "PhantomData<%s>" % rng.choice(params)])
            else:
                ty, _ = gen_field_type(rng, params, trait)
            fs.append({"name": names[i] if kind == "named" else None, "ty": ty, "fattr": ""})
        idents = [f["name"] if f["name"] else "_%d" % i for i, f in enumerate(fs)]
        use_attr = n > 1 or rng.random() < 0.6 or trait == "Debug" and rng.random() < 0.5
        own_attr = ""
        if trait == "Debug" and rng.random() < 0.6:
            # default Debug: every non-skipped field is formatted with Debug; some skipped; some with a field-level format
            use_attr = False
            for i, f in enumerate(fs):
                r = rng.random()
                if r < 0.25:
                    f["fattr"] = "#[debug(%s)] " % rng.choice(["skip", "ignore"])
                elif r < 0.45:
                    j = rng.randrange(n)
                    if "PhantomData" in fs[j]["ty"]:
                        j = i
                    tr2 = rng.choice(["Debug", "Display"] if "PhantomData" not in fs[j]["ty"] else ["Debug"])
                    if tr2 == "Display" and any(s in fs[j]["ty"] for s in ("Vec<", "Option<", "[", "(")):
                        tr2 = "Debug"
                    f["fattr"] = "#[debug(\"{%s%s}\")] " % (F.unraw(idents[j]), ":" + LETTER[tr2] if LETTER[tr2] else "")
                    formatted |= mentioned(fs[j]["ty"], params)
                    c.notes.append("field-fmt:%d->%d" % (i, j))
                else:
                    formatted |= mentioned(f["ty"], params)
        elif use_attr:
            pieces, args = [], []
            nph = rng.choice([1, 1, 2, 3])
            for _ in range(nph):
                j = rng.randrange(n)
                if "PhantomData" in fs[j]["ty"]:
                    pieces.append("x")
                    continue
                tr2 = rng.choice([trait, trait, "Display", "Debug"])
                if any(s in fs[j]["ty"] for s in ("Vec<", "Option<", "[", "(")):
                    tr2 = "Debug"
                spec = (":" + rng.choice(["", "", ">5", "+"]) + LETTER[tr2])
                spec = "" if spec == ":" else spec
                how = rng.random()
                if how < 0.45:
                    pieces.append("{%s%s}" % (F.unraw(idents[j]), spec))
                    c.notes.append("named")
                elif how < 0.75:
                    pieces.append("{%s}" % spec)
                    args.append((None, idents[j]))
                    c.notes.append("positional-ident")
                elif how < 0.9:
                    al = "al%d" % len(args)
                    if rng.random() < 0.3 and nph == 1:
                        # a named argument referred to by its position (accepted by format_args!, with a lint)
                        pieces.append("{%d%s}" % (len(args), spec))
                        c.notes.append("alias-by-position")
                    else:
                        pieces.append("{%s%s}" % (al, spec))
                        c.notes.append("alias-ident")
                    args.append((al, idents[j]))
                elif how < 0.95 and kind == "named" and not idents[j].startswith("r#") \
                        and not any(a[0] == idents[j] for a in args):
                    # a named argument that shadows the field name with an unrelated expression: the field is NOT formatted
                    pieces.append("{%s%s}" % (F.unraw(idents[j]), ":" + LETTER[trait] if LETTER[trait] else ""))
                    args.append((idents[j], "7u8"))
                    c.notes.append("alias-shadows-field")
                    pieces.append(rng.choice(["", " ", "-"]))
                    continue
                else:
                    # an expression argument over a generic field needs the user's own bound
                    pieces.append("{%s}" % spec)
                    args.append((None, "&%s" % idents[j]))
                    for p in mentioned(fs[j]["ty"], params):
                        user_bounded.add((fs[j]["ty"], tr2))
                    c.notes.append("expr+bound")
                formatted |= mentioned(fs[j]["ty"], params)
                pieces.append(rng.choice(["", " ", "-"]))
            args = [a for a in args if a[0] is None] + [a for a in args if a[0] is not None]
            if rng.random() < 0.12 and not any(a[0] is not None for a in args) and trait in ("Display", "LowerExp", "UpperExp", "Debug"):
                # `{x:.*}`: the precision takes the next implicit argument even though the value is named;
                # a following `{}` therefore denotes the argument after it
                j = rng.randrange(n)
                if "PhantomData" not in fs[j]["ty"] and not any(s_ in fs[j]["ty"] for s_ in ("Vec<", "Option<", "[", "(")):
                    base = len(args)
                    pieces = ["{pv:.*%s}" % LETTER[trait], " "] + [re.sub(r"^\{(?=[:}])", "{%d" % (base + 1), p_) if False else p_ for p_ in pieces]
                    # implicit placeholders already present would shift: only use this form when none is implicit
                    if not any(re.match(r"^\{[:}]", p_) for p_ in pieces[2:]):
                        args = args + [(None, "2usize")]
                        pieces.append("{}")
                        args.append((None, idents[j]))
                        args.append(("pv", "1.5f64" if trait != "Debug" else "1.5f64"))
                        formatted |= mentioned(fs[j]["ty"], params)
                        c.notes.append("star-explicit-then-implicit")
                        args = [a for a in args if a[0] is None] + [a for a in args if a[0] is not None]
                    else:
                        pieces = pieces[2:]
            lit = "".join(pieces)
            own_attr = "#[%s(%s)] " % (attr_name, ", ".join([F.rust_lit(lit)] + [("%s = " % a if a else "") + e for (a, e) in args]))
        else:
            # implicit delegation of the single field under the derived trait
            if "PhantomData" in fs[0]["ty"] or (trait != "Debug" and any(s in fs[0]["ty"] for s in ("Vec<", "Option<", "[", "("))):
                fs[0]["ty"] = "W<%s>" % params[0]
            if trait == "Debug":
                pass
            formatted |= mentioned(fs[0]["ty"], params)
            c.notes.append("implicit")
        # one field type may arrive through a `$t:ty` macro fragment: the derive then sees it inside a None-delimited
        # group (syn::Type::Group), which has to be looked through like a parenthesised type
        shown = [f["ty"] for f in fs]
        if macro_ty is None and rng.random() < 0.15:
            mf = rng.randrange(len(fs))
            macro_ty = fs[mf]["ty"]
            shown[mf] = "$mt"
            c.notes.append("macro-ty-fragment")
        body = (" { %s }" % ", ".join("%s%s: %s" % (f["fattr"], f["name"], t) for f, t in zip(fs, shown))) if kind == "named" else \
            "(%s)" % ", ".join(f["fattr"] + t for f, t in zip(fs, shown))
        decl_vs.append((own_attr, body, kind))
    shared_attr = ""
    if is_enum and rng.random() < 0.4 and trait != "Debug":
        # an enum-level format that wraps every variant through `_variant` (variants without own format delegate
        # implicitly to their single field, so that field's type needs the derived trait)
        shared_attr = "#[%s(%s)] " % (attr_name, F.rust_lit(rng.choice(["<{_variant}>", "{_variant}!", "v={_variant} "])))
        c.notes.append("shared-wrap")
        fixed = []
        for (own, body, kind) in decl_vs:
            fields_n = body.count(":") if kind == "named" else (0 if body == "()" else body.count(",") + 1)
            fixed.append((own, body, kind))
        decl_vs = fixed
        # add one variant without own format holding a bare parameter: formatted implicitly under the derived trait
        pv = rng.choice(params)
        decl_vs.append(("", "(W<%s>)" % pv, "unnamed"))
        formatted.add(pv)
    bounds = ""
    if user_bounded:
        preds = ["%s: core::fmt::%s" % (ty, tr) for (ty, tr) in sorted(user_bounded)]
        if len(preds) > 1 and rng.random() < 0.6:
            # several bound(...) attributes on one item (documented): every one of them has to reach the where-clause
            bounds = "".join("#[%s(%s(%s))] " % (attr_name, rng.choice(["bound", "bounds"]), p) for p in preds)
            c.notes.append("user-bound-split")
        else:
            bounds = "#[%s(bound(%s))] " % (attr_name, ", ".join(preds))
        c.notes.append("user-bound")
    # the type's OWN bounds: a where clause and / or inline bounds over the declared parameters, asking only for traits
    # that both instantiation types (i32, NoFmt) have.  The impl must keep them AND get every inferred bound.
    where, inline = "", {}
    if rng.random() < 0.4:
        own = ["Clone", "Copy", "PartialEq", "Sized", "Default", "Clone + PartialEq", "Ord"]
        preds = []
        for p in params:
            r = rng.random()
            if r < 0.45:
                preds.append("%s: %s" % (p, rng.choice(own)))
            elif r < 0.6:
                inline[p] = rng.choice(own)
        if rng.random() < 0.2:
            preds.append("Option<%s>: Clone" % rng.choice(params))
        if preds:
            where = " where " + ", ".join(preds) + rng.choice(["", ","])
            c.notes.append("own-where-clause")
        if inline:
            c.notes.append("own-inline-bounds")
    # make sure every parameter is used by some field (rustc E0392): add a PhantomData tail field to the first variant
    gen = "<%s>" % ", ".join(p + (": " + inline[p] if p in inline else "") for p in params)
    if is_enum:
        vs = []
        for vi, (own, body, kind) in enumerate(decl_vs):
            vs.append("%sV%d%s" % (own, vi, body))
        vs.append("#[%s(\"ph\")] Ph(%s)" % (attr_name, ", ".join("PhantomData<%s>" % p for p in params)))
        c.decl = "#[derive(derive_more::%s)] %s%spub enum Ty%s%s { %s }" % (trait, bounds, shared_attr, gen, where, ", ".join(vs))
    else:
        own, body, kind = decl_vs[0]
        used = mentioned(body + " " + (macro_ty or ""), params)
        missing = [p for p in params if p not in used]
        if missing:
            # keep unused parameters alive through an unformatted PhantomData field
            if kind == "named":
                extra = ", ".join("%sph%d: PhantomData<%s>" % ("#[debug(skip)] " if trait == "Debug" and not own else "", i, p) for i, p in enumerate(missing))
                body = body[:-2] + ", " + extra + " }"
            else:
                extra = ", ".join("%sPhantomData<%s>" % ("#[debug(skip)] " if trait == "Debug" and not own else "", p) for p in missing)
                body = body[:-1] + ", " + extra + ")"
            if not own and trait != "Debug":
                own = "#[%s(\"x\")] " % attr_name       # more than one field now: needs a format
                formatted = set()
                c.notes.append("no-field-formatted")
        # (a named struct's where clause precedes the braces, a tuple struct's follows the fields)
        if kind == "named":
            c.decl = "#[derive(derive_more::%s)] %s%spub struct Ty%s%s%s" % (trait, bounds, own, gen, where, body)
        else:
            c.decl = "#[derive(derive_more::%s)] %s%spub struct Ty%s%s%s;" % (trait, bounds, own, gen, body, where)
    if macro_ty is not None:
        c.decl = "macro_rules! mk%d { ($mt:ty) => { %s } } mk%d!(%s);" % (k, c.decl, k, macro_ty)
    c.trait = trait
    c.params = params
    c.formatted = formatted | {p for (ty, _) in user_bounded for p in mentioned(ty, params)}
    return c


def render(cases):
    """one module per case; returns (source, line ranges per case: {k: (first, last, kind)})"""
    lines = PRELUDE.splitlines()
    ranges = []
    for c in cases:
        start = len(lines) + 1
        lines.append("pub mod c%d {" % c.k)
        lines.append("    use super::*;")
        lines.append("    " + c.decl)
        decl_line = len(lines)
        # (N) parameters that are not formatted may be NoFmt; formatted ones are i32
        inst = ", ".join("i32" if p in c.formatted else "NoFmt" for p in c.params)
        lines.append("    pub fn avail() { %s::<Ty<%s>>(); }" % (NEED[c.trait], inst))
        avail_line = len(lines)
        lines.append("}")
        ranges.append((c.k, start, len(lines), decl_line, avail_line))
    lines.append("fn main() {}")
    return "\n".join(lines) + "\n", ranges


def check(name, cases):
    """compile; returns list of (case_k, where('decl'|'avail'|'other'), message)"""
    src, ranges = render(cases)
    d = common.make_crate(name, src)
    rc, out = common.cargo(d, ["check", "--message-format=json", "--quiet"])
    errs = []
    for line in out.splitlines():
        if not line.startswith("{"):
            continue
        try:
            m = json.loads(line)
        except Exception:
            continue
        msg = m.get("message")
        if not msg or msg.get("level") != "error":
            continue
        spans = [s for s in msg.get("spans", []) if s.get("is_primary")] or msg.get("spans", [])
        ln = spans[0]["line_start"] if spans else None
        hit = None
        for (k, a, b, dl, al) in ranges:
            if ln is not None and a <= ln <= b:
                hit = (k, "avail" if ln == al else "decl")
        if hit is None and msg.get("message", "").startswith("aborting"):
            continue
        errs.append((hit[0] if hit else None, hit[1] if hit else "other", msg.get("message", "")[:300]))
    return rc, errs, out
