"""Run-time corpus for the formatting derives (C02 / C05 / C07): well-typed generated types using the REAL
proc-macro, compiled by rustc and executed; every observation is compared with a reference built from plain
`format!` calls emitted next to the type (the oracle; no model involved)."""
import re

from . import common
from . import fmtitems as F

# type -> (rust type, value expressions, traits it implements)
NUM = ["Display", "Binary", "Octal", "LowerHex", "UpperHex", "LowerExp", "UpperExp", "Debug"]
TYPES = {
    "i32": ("i32", ["5", "-7", "1234"], NUM),
    "u8": ("u8", ["255", "0", "16"], NUM),
    "f64": ("f64", ["1.5", "-0.25", "1234.5678"], ["Display", "LowerExp", "UpperExp", "Debug"]),
    "str": ("&'static str", ["\"hi\"", "\"a\\nb\"", "\"\""], ["Display", "Debug", "Pointer"]),
    "ri32": ("&'static i32", ["&42", "&-1"], NUM + ["Pointer"]),
    "bool": ("bool", ["true", "false"], ["Display", "Debug"]),
}
LETTER = F.TYPE_LETTER
OUTER_SPECS = ["", ">8", "*<9", "^7", "+", "#", "08", ".2", "+.3", "#x", "#010", "-", "<", "5", "🦀^6", "#?", "x?", "+10.1e",
               "#b", "o", "E"]


def spec_for(trait, mods):
    l = LETTER[trait]
    return (":" + mods + l) if (mods or l) else ""


class Case:
    def __init__(self, k):
        self.k = k
        self.decl = ""        # type declaration with derive
        self.obs = []         # list of (tag, derived_expr, reference_expr)
        self.meta = {}


def gen_fields(rng, need_trait=None):
    kind = rng.choice(["unnamed", "unnamed", "named"])
    n = rng.choice([1, 1, 2, 2, 3])
    names = rng.sample(["a", "b", "c", "r#type", "x1"], n)
    fs = []
    for i in range(n):
        pool = [t for t, (_, _, tr) in TYPES.items() if need_trait is None or need_trait in tr]
        fs.append({"name": names[i] if kind == "named" else None, "t": rng.choice(pool)})
    return kind, fs


def ident_of(kind, fs, i):
    return fs[i]["name"] if kind == "named" else "_%d" % i


def member_of(kind, fs, i):
    return fs[i]["name"] if kind == "named" else str(i)


def gen_literal(rng, kind, fs, derive_trait, bare_p=0.35, extra_names=(), allow_self=True):
    """returns (lit, args[(alias, expr_src, ref_expr_src)], info) — well-typed w.r.t. field types.
    expr_src is what goes into the attribute; ref_expr_src the same expression in the reference (bindings are refs)."""
    n = len(fs)
    bare = rng.random() < bare_p
    nph = 1 if bare else rng.choice([1, 2, 2, 3])
    if not bare and rng.random() < 0.08:
        # text and escapes only
        lit = "".join(rng.choice(["}}", "{{", "a", " ", "}} ", "é", "{{}}", "x}}"]) for _ in range(rng.randrange(1, 4)))
        return lit, [], {"bare": False, "pointer_named": [], "placeholders": []}
    pieces, args = [], []
    npos = 0
    named_used = []
    info = {"bare": False, "pointer_named": [], "placeholders": []}
    for k in range(nph):
        if not bare and rng.random() < 0.6:
            pieces.append(rng.choice(["a", " ", "{{", "}}", "é=", "-", "[", "]"]))
        fi = rng.randrange(n)
        ft = TYPES[fs[fi]["t"]]
        trait = rng.choice(ft[2]) if rng.random() < 0.6 else (derive_trait if derive_trait in ft[2] else ft[2][0])
        mods = ""
        if not bare or rng.random() < 0.25:
            mods = rng.choice(["", "", ">6", "*^7", "+", "-", "#", "0", "04", ".1", "<4.2", "3", "<"])
        if trait == "Debug" and rng.random() < 0.2 and "LowerHex" in ft[2]:
            letter = rng.choice(["x?", "X?"])
        else:
            letter = LETTER[trait]
        spec = (":" + mods + letter) if (mods or letter) else (":" if rng.random() < 0.05 else "")
        ws = " " if rng.random() < 0.07 else ""
        how = rng.random()
        idn = ident_of(kind, fs, fi)
        if how < 0.4:
            # named directly in the literal
            pieces.append("{" + F.unraw(idn) + ws + spec + "}")
            named_used.append((fi, trait))
            if trait == "Pointer":
                info["pointer_named"].append(fi)
            info["placeholders"].append(("named", fi, trait, mods, letter))
        elif how < 0.75:
            # implicit positional + argument
            pieces.append("{" + ws + spec + "}")
            e = rng.random()
            if e < 0.6 or trait == "Pointer":
                args.append((None, idn, idn))
                info["placeholders"].append(("pos_ident", fi, trait, mods, letter))
            elif fs[fi]["t"] in ("i32",) and e < 0.8:
                args.append((None, "*%s + 1" % idn, "*%s + 1" % idn))
                info["placeholders"].append(("pos_expr", fi, trait, mods, letter))
            elif allow_self:
                args.append((None, "self.%s" % member_of(kind, fs, fi), "(&__v).%s" % member_of(kind, fs, fi)))
                info["placeholders"].append(("pos_expr", fi, trait, mods, letter))
            else:
                args.append((None, idn, idn))
                info["placeholders"].append(("pos_ident", fi, trait, mods, letter))
            npos += 1
        else:
            al = "al%d" % k
            pieces.append("{" + al + ws + spec + "}")
            args.append((al, idn, idn))
            info["placeholders"].append(("alias", fi, trait, mods, letter))
        if not bare and rng.random() < 0.3:
            pieces.append(rng.choice(["z", " ", "{{", "}}"]))
    if not bare and rng.random() < 0.3:
        # an argument EXPRESSION that starts with a bare field identifier followed by a comparison operator
        # (`a == b`, `_0 != _0`, `x >= x`): an expression, not `alias = value`; the bool is printed with Display / Debug.
        # Positional (first / middle / last among the positional arguments) or aliased.
        fi = rng.randrange(n)
        same = [j for j in range(n) if fs[j]["t"] == fs[fi]["t"]]
        fj = rng.choice(same)
        op = rng.choice(["==", "==", "==", "!=", ">=", "<="])
        e = "%s %s %s" % (ident_of(kind, fs, fi), op, ident_of(kind, fs, fj))
        letter = rng.choice(["", "?"])
        spec = ":" + letter if letter else ""
        if rng.random() < 0.35:
            al = "eq"
            pieces.append(rng.choice([" same: ", "/", ""]) + "{eq%s}" % spec)
            args.append((al, e, e))
        else:
            pos = [a for a in args if a[0] is None]
            named = [a for a in args if a[0] is not None]
            at = rng.randrange(len(pos) + 1)
            # implicit placeholders are numbered in order of appearance: put the new one before the at-th of them
            impl = [i for i, pc in enumerate(pieces) if re.match(r"^\{\s*[:}]", pc)]
            piece = "{%s}" % spec
            if at < len(pos) and len(impl) == len(pos):
                pieces.insert(impl[at], piece + rng.choice(["/", " "]))
            else:
                at = len(pos)
                pieces.append(rng.choice([" same: ", "/", ""]) + piece)
            args = pos[:at] + [(None, e, e)] + pos[at:] + named
        info["placeholders"].append(("cmp_expr", fi, "Debug" if letter else "Display", "", letter))
    # positional args must precede named ones for format_args!
    args = [a for a in args if a[0] is None] + [a for a in args if a[0] is not None]
    info["bare"] = bare and nph == 1
    if bare and rng.random() < 0.2:
        # white space / text around a sole placeholder: no longer a bare placeholder
        pieces.append(rng.choice([" ", "\n", "\t", "  "])) if rng.random() < 0.7 else pieces.insert(0, rng.choice([" ", "\n"]))
        info["bare"] = False
    return "".join(pieces), args, info


def ref_format(lit, args, kind, fs, pointer_named, extra_bind=""):
    """reference expression: the documented bindings, then plain format!"""
    binds = []
    for i, f in enumerate(fs):
        idn = ident_of(kind, fs, i)
        binds.append("let %s = &__v.%s;" % (idn, member_of(kind, fs, i)))
    explicit = []
    for (al, _, ref_src) in args:
        explicit.append(("%s = " % al if al else "") + ref_src)
    # a field named inside the literal denotes the field itself: matters for Pointer only
    for fi in sorted(set(pointer_named)):
        idn = ident_of(kind, fs, fi)
        if not any(al == F.unraw(idn) for (al, _, _) in args):
            explicit.append("%s = *%s" % (F.unraw(idn), idn))
    return "{ %s %s format!(%s) }" % (" ".join(binds), extra_bind, ", ".join([F.rust_lit(lit)] + explicit))


def value_expr(name, kind, fs, rng, generics=""):
    vals = [rng.choice(TYPES[f["t"]][1]) for f in fs]
    if kind == "named":
        return "%s { %s }" % (name, ", ".join("%s: %s" % (f["name"], v) for f, v in zip(fs, vals)))
    return "%s(%s)" % (name, ", ".join(vals))


def fields_decl(kind, fs):
    def ty(f):
        return f.get("ty_override") or TYPES[f["t"]][0]
    if kind == "named":
        return " { " + ", ".join("%s: %s" % (f["name"], ty(f)) for f in fs) + " }"
    return "(" + ", ".join(ty(f) for f in fs) + ")"


def is_bare_per_text(lit, args, field_names):
    """independent reading of the property text (C05): the literal is exactly one placeholder with no fill, alignment,
    sign, `#`, `0`, width, precision or `x?`/`X?`, referring to its only argument (index 0 or matching name) or to a
    field by name.  Returns (transparent?, trait letter)"""
    m = re.fullmatch(r"\{([^\s:{}]*)\s*(?::([?xXopbeE]?))?\s*\}", lit)
    if not m:
        return False, None
    ref, letter = m.group(1), m.group(2) or ""
    if ref == "" or ref == "0":
        ok = len(args) == 1
    elif ref.isdigit():
        ok = False
    else:
        if len(args) == 0:
            ok = True            # a field (or other binding) by name
        elif len(args) == 1:
            ok = args[0][0] == ref
        else:
            ok = False
    return ok, letter


def gen_struct_case(rng, k, derive_trait):
    c = Case(k)
    kind, fs = gen_fields(rng, None)
    name = rng.choice(["Foo", "BarBaz", "r#Struct"])
    attr_name = F.ATTR_OF[derive_trait]
    # (Debug without an attribute is std-like output: property C06, not this corpus)
    use_attr = not (len(fs) == 1 and rng.random() < 0.3 and derive_trait in TYPES[fs[0]["t"]][2]
                    and derive_trait != "Debug")
    tyname = name
    if use_attr:
        lit, args, info = gen_literal(rng, kind, fs, derive_trait)
        attr = "#[%s(%s)]" % (attr_name, ", ".join([F.rust_lit(lit)] + [("%s = " % a if a else "") + e for (a, e, _) in args]))
        reference = ref_format(lit, args, kind, fs, info["pointer_named"])
        transparent, letter = is_bare_per_text(lit, args, [ident_of(kind, fs, i) for i in range(len(fs))])
        inner = None
        if transparent:
            # the argument the flags apply to
            if args:
                inner = "{ %s %s }" % (" ".join("let %s = &__v.%s;" % (ident_of(kind, fs, i), member_of(kind, fs, i)) for i in range(len(fs))),
                                       args[0][2])
            else:
                ref = re.fullmatch(r"\{([^\s:{}]*).*\}", lit).group(1)
                fi = [i for i in range(len(fs)) if F.unraw(ident_of(kind, fs, i)) == ref]
                inner = "(&__v.%s)" % member_of(kind, fs, fi[0]) if fi else None
                if inner and letter == "p":
                    inner = "__v.%s" % member_of(kind, fs, fi[0])
        c.meta = {"lit": lit, "args": [(a, e) for (a, e, _) in args], "transparent": transparent, "attr": True}
    else:
        attr = ""
        reference = "format!(\"{%s}\", __v.%s)" % (spec_for(derive_trait, ""), member_of(kind, fs, 0))
        transparent, letter, inner = True, LETTER[derive_trait], "(&__v.%s)" % member_of(kind, fs, 0)
        c.meta = {"lit": None, "transparent": True, "attr": False}
    c.decl = "#[derive(derive_more::%s)] %s pub struct %s%s%s" % (derive_trait, attr, tyname, fields_decl(kind, fs),
                                                                   "" if kind == "named" else ";")
    c.value = value_expr(tyname, kind, fs, rng)
    dl = LETTER[derive_trait]
    # C02: flag-free formatting equals the reference
    c.obs.append(("plain", "format!(\"{%s}\", __v)" % (":" + dl if dl else ""), reference))
    # C05: caller's flags
    for sp in rng.sample(OUTER_SPECS, 6):
        if any(ch in sp for ch in "xXobeE?") :
            # an outer type letter selects another trait; only the derived trait is implemented: keep flags only
            continue
        outer = "format!(\"{:%s%s}\", __v)" % (sp, dl)
        if transparent and inner is not None:
            exp = "format!(\"{:%s%s}\", %s)" % (sp, letter, inner)
            c.obs.append(("flags-pass:" + sp, outer, exp))
        elif use_attr:
            c.obs.append(("flags-inert:" + sp, outer, reference))
    return c


def gen_star_struct_case(rng, k):
    """`.*` precision placeholders (implicit value `{:.*}`, explicit `{name:.*}` / `{N:.*}`) followed by further implicit
    `{}` placeholders, the formatted values being fields of TYPE PARAMETERS: `.*` takes the next implicit argument as the
    precision BEFORE the value, so every later `{}` moves on by one - for format_args! and for the bounds alike"""
    c = Case(k)
    tr, hty, hvals = rng.choice([("Display", "&'static str", ["\"hello\"", "\"ab\""]), ("Display", "i32", ["7", "-3"]),
                                 ("LowerExp", "f64", ["12.5", "0.25"]), ("UpperExp", "f64", ["1234.5"]), ("Display", "f64", ["2.75"])])
    l = LETTER[tr]
    named = rng.random() < 0.4
    v, p, h = ("val", "prec", "other") if named else ("_0", "_1", "_2")
    prec = rng.choice(["*%s" % p, "*%s" % p, "2", "1usize"])
    shape = rng.randrange(5)
    if shape == 0:
        lit, args = "{:.*%s}" % l, [prec, v]
    elif shape == 1:
        lit, args = "{:.*%s} <{%s}>" % (l, ":" + l if l else ""), [prec, v, h]
    elif shape == 2:
        lit, args = "{%s:.*%s} [{%s}]" % (v, l, ":" + l if l else ""), [prec, h]
    elif shape == 3:
        lit, args = "{2:.*%s} [{%s}]" % (l, ":" + l if l else ""), [prec, h, v]
    else:
        lit, args = "{%s}|{x:.*%s}|{%s}" % (":" + l if l else "", l, ":" + l if l else ""), [h, prec, v, "x = %s" % v]
    an = F.ATTR_OF[tr]
    fields = [(v, "G"), (p, "usize"), (h, "H")]
    body = (" { %s }" % ", ".join("%s: %s" % f for f in fields)) if named else "(%s);" % ", ".join(t for _, t in fields)
    c.decl = "#[derive(derive_more::%s)] #[%s(%s)] pub struct St<G, H>%s" % (tr, an, ", ".join([F.rust_lit(lit)] + args), body)
    vals = [rng.choice(["3.14159", "-0.5", "100.0"]), rng.choice(["0", "1", "3"]), rng.choice(hvals)]
    c.value = ("St::<f64, %s> { %s }" % (hty, ", ".join("%s: %s" % (f[0], x) for f, x in zip(fields, vals)))) if named else \
        "St::<f64, %s>(%s)" % (hty, ", ".join(vals))
    mem = (lambda i: fields[i][0]) if named else (lambda i: str(i))
    binds = " ".join("let %s = &__v.%s;" % (fields[i][0], mem(i)) for i in range(3))
    reference = "{ %s format!(%s) }" % (binds, ", ".join([F.rust_lit(lit)] + args))
    c.obs.append(("plain", "format!(\"{%s}\", __v)" % (":" + l if l else ""), reference))
    c.meta = {"lit": lit, "args": args, "star": True, "decl": c.decl}
    return c


NESTED_GENERIC_ARGS = [
    # (fields, argument expression with nested generic arguments closed by a tight `>>` / `>>>`, same expression over __v, letter)
    ("", "core::mem::size_of::<Result<u32, Option<u32>>>()", None, ""),
    ("", "core::mem::size_of::<Option<Result<u8, Vec<u8>>>>()", None, ""),
    ("(u8)", "[*_0, 2].iter().map(|x| (*x, vec![*x])).collect::<std::collections::BTreeMap<u8, Vec<u8>>>().len()",
     "[__v.0, 2].iter().map(|x| (*x, vec![*x])).collect::<std::collections::BTreeMap<u8, Vec<u8>>>().len()", ""),
    ("(u8)", "Ok::<u8, Option<u8>>(*_0)", "Ok::<u8, Option<u8>>(__v.0)", "?"),
    ("(u8)", "Vec::<Option<Vec<u8>>>::from([Some(vec![*_0])]).len()", "Vec::<Option<Vec<u8>>>::from([Some(vec![__v.0])]).len()", ""),
    ("(u8)", "Some::<Result<u8, Option<u8>>>(Ok(*_0))", "Some::<Result<u8, Option<u8>>>(Ok(__v.0))", "?"),
]


def gen_nested_generic_case(rng, k):
    """a single bare placeholder whose only argument is an expression containing nested generic arguments written
    tight (`::<A<B, C<D>>>()`): ONE argument, so the attribute delegates and the caller's flags reach that value"""
    c = Case(k)
    fields, expr, vexpr, letter = rng.choice(NESTED_GENERIC_ARGS)
    tr = "Debug" if letter == "?" else "Display"
    al = rng.random() < 0.3
    lit = ("{n%s}" if al else "{%s}") % (":" + letter if letter else "")
    c.decl = "#[derive(derive_more::%s)] #[%s(%s, %s%s)] pub struct SizeOf%s;" % (
        tr, F.ATTR_OF[tr], F.rust_lit(lit), "n = " if al else "", expr, fields)
    c.value = "SizeOf(%s)" % rng.choice(["7", "200"]) if fields else "SizeOf"
    inner = vexpr or expr
    c.obs.append(("plain", "format!(\"{%s}\", __v)" % (":" + letter if letter else ""), "format!(\"{%s}\", %s)" % (":" + letter if letter else "", inner)))
    for sp in rng.sample([x for x in OUTER_SPECS if not any(ch in x for ch in "xXobeE?")], 5):
        c.obs.append(("flags-pass:" + sp, "format!(\"{:%s%s}\", __v)" % (sp, letter), "format!(\"{:%s%s}\", %s)" % (sp, letter, inner)))
    c.meta = {"lit": lit, "args": [expr], "transparent": True, "attr": True, "nested_generics": True}
    return c


def pinned_struct_cases(k0):
    """regression cases present in EVERY run whatever the seed: a bare Pointer placeholder naming a field delegates
    (caller flags reach the field itself) under Debug and Display, struct-level attribute, named and tuple"""
    out = []

    def mk(derive, decl, value, letter_outer, inner):
        c = Case(k0 + len(out))
        c.decl, c.value = decl, value
        c.obs = [("plain", "format!(\"{%s}\", __v)" % (":" + letter_outer if letter_outer else ""), "format!(\"{:p}\", %s)" % inner)]
        for sp in [">20", "020", "#", "*^24"]:
            c.obs.append(("flags-pass:" + sp, "format!(\"{:%s%s}\", __v)" % (sp, letter_outer), "format!(\"{:%sp}\", %s)" % (sp, inner)))
        c.meta = {"pinned": True, "transparent": True, "attr": True}
        out.append((c, derive))
    mk("Debug", '#[derive(derive_more::Debug)] #[debug("{a:p}")] pub struct Pn { a: &\'static i32 }', "Pn { a: &42 }", "?", "__v.a")
    mk("Debug", '#[derive(derive_more::Debug)] #[debug("{_0:p}")] pub struct Pt(&\'static i32);', "Pt(&42)", "?", "__v.0")
    mk("Display", '#[derive(derive_more::Display)] #[display("{a:p}")] pub struct Pd { a: &\'static str }', 'Pd { a: "x" }', "", "__v.a")
    mk("Display", '#[derive(derive_more::Display)] #[display("{_0:p}")] pub struct Pe(&\'static i32, u8);', "Pe(&42, 1)", "", "__v.0")
    return out


def gen_enum_case(rng, k, derive_trait, with_flags=False):
    """C07: enum-level (shared) format vs the documented meaning.  with_flags (C05): caller's flags on every variant"""
    c = Case(k)
    attr_name = F.ATTR_OF[derive_trait]
    nvar = rng.randrange(1, 4)
    rename = rng.choice([None, None, "snake_case", "UPPERCASE", "kebab-case"]) if derive_trait == "Display" else None
    mode = rng.choice(["none", "default", "wrap_ph", "wrap_ph", "wrap_arg", "wrap_twice", "bare_variant", "bare_variant", "wrap_field"])
    if derive_trait in ("Display", "LowerExp", "UpperExp") and rng.random() < 0.1:
        # `_variant` reachable only through an implicit `{}` AFTER an explicit-value `.*` placeholder
        mode = "wrap_star"
    if derive_trait == "Debug":
        mode = "none"            # an enum-level #[debug("...")] is rejected (C07); variant-level ones are C02/C05's
    # a bare `_variant` placeholder has three spellings: by name, as the sole positional argument, as an aliased argument
    bare_lit, bare_args = rng.choice([("{_variant}", []), ("{_variant}", []), ("{}", ["_variant"]), ("{0}", ["_variant"]),
                                      ("{v}", ["v = _variant"])])
    # "wrap_field": the enum-level format wraps AND names the first field of every variant itself, under Debug - a trait
    # the variants' own formats need not use for that field
    shared_lit = {"none": None, "default": rng.choice(["dflt", "dflt", "{{unknown}}", "set: {{}}", "}}a{{", "é {{x}} "]), "wrap_ph": "<{_variant}>", "wrap_arg": "[{}]",
                  "wrap_twice": "{_variant}/{0}", "bare_variant": bare_lit, "wrap_star": None,
                  "wrap_field": rng.choice(["{_variant} (raw: {_0:?})", "{_0:?} -> {_variant}", "{1:?}|{0}"])}[mode]
    shared_args = {"wrap_arg": ["_variant"], "wrap_twice": ["_variant"], "bare_variant": bare_args}.get(mode, [])
    if mode == "wrap_star":
        shared_lit, shared_args = rng.choice([("{_0:.*} [{}]", ["1", "_variant"]), ("<{}> {x:.*}|{}", ["_variant", "2", "_variant", "x = _0"]),
                                              ("{2:.*}: {}", ["0", "_variant", "_0"])])
    if mode == "wrap_field" and shared_lit == "{1:?}|{0}":
        shared_args = ["_variant", "_0"]
    variants = []
    for i in range(nvar):
        vk = rng.choice(["unit", "one", "multi", "named"])
        if mode in ("wrap_field", "wrap_star"):
            vk = rng.choice(["one", "one", "multi"])        # every variant needs a `_0`
        vname = ["Alpha", "BetaGamma", "r#Type"][i]
        if vk == "unit":
            kind, fs = "unit", []
        elif vk == "one":
            kind = rng.choice(["unnamed", "named"]) if mode not in ("wrap_field", "wrap_star") else "unnamed"
            fs = [{"name": "a" if kind == "named" else None, "t": rng.choice([t for t, (_, _, tr) in TYPES.items() if derive_trait in tr])}]
        else:
            kind, fs = gen_fields(rng, None)
            if vk == "named":
                kind = "named"
                for j, f in enumerate(fs):
                    f["name"] = f["name"] or ["a", "b", "c"][j]
            elif mode in ("wrap_field", "wrap_star"):
                kind = "unnamed"
                for f in fs:
                    f["name"] = None
        if mode == "wrap_star":
            fs[0]["t"] = "f64"                               # `_0` is formatted with a precision
        own = None
        # a variant needs a format of its own when nothing else gives it a text: several fields, a field whose type lacks
        # the derived trait, or (non-Display derives) no field at all - unless the enum-level format is a plain default,
        # which covers multi-field and field-less variants of EVERY Display-like derive (repo fix 3d5b8b4)
        covered = mode == "default"
        need_own = (len(fs) > 1 and not covered) or (len(fs) == 0 and derive_trait != "Display" and not covered) or \
            (len(fs) == 1 and derive_trait not in TYPES[fs[0]["t"]][2])
        # (Debug: a variant without a format of its own prints what std's derive prints for it - any mixture and order of
        #  variants with and without a format)
        if mode == "wrap_star":
            need_own = True       # (were `_variant` not seen, a format-less variant would not even compile)
        if need_own or rng.random() < (0.5 if derive_trait == "Debug" else 0.4):
            if fs:
                lit, args, info = gen_literal(rng, kind, fs, derive_trait, bare_p=0.25, allow_self=False)
            else:
                lit, args, info = rng.choice(["unit!", "u{{}}", ""]), [], {"pointer_named": []}
            own = (lit, args, info)
        variants.append({"name": vname, "kind": kind, "fs": fs, "own": own})
    # one attribute-less single-field variant may be of a type parameter (its bound has to be inferred by the derive:
    # under a wrapping enum-level format too, where the field is printed through `_variant`)
    generic = None
    cand = [v for v in variants if len(v["fs"]) == 1 and not v["own"]] if derive_trait != "Debug" and mode != "wrap_star" else []
    gcand = list(variants) if mode == "wrap_field" else []
    if gcand and rng.random() < 0.7:
        # a variant whose first field is of a type parameter, with a format of its own that names `_0` under a trait
        # other than Debug, while the enum-level format names `_0` under Debug: both bounds are needed on the parameter
        gv = rng.choice(gcand)
        t0 = TYPES[gv["fs"][0]["t"]]
        tr0 = rng.choice([t for t in t0[2] if t not in ("Debug", "Pointer")])
        l0 = LETTER[tr0]
        gv["own"] = (rng.choice(["text: {_0%s}", "{_0%s}!", "{_0%s}"]) % (":" + l0 if l0 else ""), [], {"pointer_named": []})
        generic = t0[0]
        gv["fs"][0]["ty_override"] = "G"
    elif cand and rng.random() < 0.35:
        gv = rng.choice(cand)
        generic = TYPES[gv["fs"][0]["t"]][0]
        gv["fs"][0]["ty_override"] = "G"
    en = "En::<%s>" % generic if generic else "En"
    # if there is a non-wrapping default and a multi-field variant has no own attr it uses the default: fine
    decl_vs = []
    for v in variants:
        pre = ""
        if v["own"]:
            lit, args, _ = v["own"]
            pre = "#[%s(%s)] " % (attr_name, ", ".join([F.rust_lit(lit)] + [("%s = " % a if a else "") + e for (a, e, _) in args]))
        decl_vs.append(pre + v["name"] + (fields_decl(v["kind"], v["fs"]) if v["kind"] != "unit" else ""))
    top = ""
    if shared_lit is not None:
        top += "#[%s(%s)] " % (attr_name, ", ".join([F.rust_lit(shared_lit)] + shared_args))
    if rename:
        top += "#[%s(rename_all = \"%s\")] " % (attr_name, rename)
    c.decl = "#[derive(derive_more::%s)] %s pub enum En%s { %s }" % (derive_trait, top, "<G>" if generic else "", ", ".join(decl_vs))
    c.meta = {"mode": mode, "generic": generic, "variants": [(v["name"], v["kind"], len(v["fs"]), v["own"][0] if v["own"] else None) for v in variants],
              "rename": rename}
    c.values = []
    dl = LETTER[derive_trait]
    from .fmtcheck import rename as do_rename
    for v in variants:
        val = value_expr(en + "::" + v["name"], v["kind"], v["fs"], rng) if v["kind"] != "unit" else en + "::" + v["name"]
        kind, fs = v["kind"], v["fs"]
        # the text the variant would print by itself (documented rule)
        if v["own"]:
            lit, args, info = v["own"]
            vt = ref_format(lit, args, kind, fs, info["pointer_named"])
        elif derive_trait == "Debug":
            # what std's derive prints (compact form): `Name`, `Name(f0, f1)`, `Name { a: f0, b: f1 }`
            nm = F.unraw(v["name"])
            if not fs:
                vt = "String::from(%s)" % F.rust_lit(nm)
            elif kind == "named":
                vt = "format!(%s, %s)" % (F.rust_lit(nm + " {{ " + ", ".join("%s: {:?}" % F.unraw(f["name"]) for f in fs) + " }}"),
                                         ", ".join("__v_%d" % i for i in range(len(fs))))
            else:
                vt = "format!(%s, %s)" % (F.rust_lit(nm + "(" + ", ".join("{:?}" for _ in fs) + ")"),
                                         ", ".join("__v_%d" % i for i in range(len(fs))))
        elif len(fs) == 1:
            vt = "format!(\"{%s}\", __f0)" % (":" + dl if dl else "")
        elif len(fs) == 0:
            nm = F.unraw(v["name"])
            vt = "String::from(%s)" % F.rust_lit(do_rename(nm, rename) if rename else nm)
        else:
            vt = None
        wraps = mode in ("wrap_ph", "wrap_arg", "wrap_twice", "bare_variant", "wrap_field", "wrap_star")
        if wraps:
            if vt is None:
                expected = None          # multi-field without attribute: must be rejected at compile time
            else:
                binds = " ".join("let %s = &__v_%d;" % (ident_of(kind, fs, i), i) for i in range(len(fs)))
                expected = "{ let _variant = %s; %s format!(%s) }" % (
                    vt, binds, ", ".join([F.rust_lit(shared_lit)] + shared_args))
        elif mode == "default":
            expected = vt if v["own"] else "format!(%s)" % F.rust_lit(shared_lit)
        else:
            expected = vt
        flag_obs = []
        if with_flags and expected is not None:
            # C05 on enums: where do the caller's flags go (independent reading of the property text)
            effective = mode
            if mode == "bare_variant" and derive_trait == "Display":
                effective = "none"          # a bare `{_variant}` of the derived trait is no attribute at all
            for sp in rng.sample([x for x in OUTER_SPECS if not any(ch in x for ch in "xXobeE?")], 3 if with_flags is True else int(with_flags)):
                if effective in ("wrap_ph", "wrap_arg", "wrap_twice", "bare_variant", "wrap_field", "wrap_star"):
                    flag_obs.append(("flags-inert:" + sp, sp, expected))
                elif v["own"]:
                    lit, args, info = v["own"]
                    tr_, letter = is_bare_per_text(lit, args, None)
                    if not tr_:
                        flag_obs.append(("flags-inert:" + sp, sp, expected))
                        continue
                    binds = " ".join("let %s = __v_%d;" % (ident_of(kind, fs, i), i) for i in range(len(fs)))
                    if args:
                        inner = "{ %s %s }" % (binds, args[0][2])
                    else:
                        ref = re.fullmatch(r"\{([^\s:{}]*).*\}", lit, re.S).group(1)
                        fi = [i for i in range(len(fs)) if F.unraw(ident_of(kind, fs, i)) == ref]
                        if not fi:
                            continue
                        inner = ("*__v_%d" if letter == "p" else "__v_%d") % fi[0]
                    flag_obs.append(("flags-pass:" + sp, sp, "format!(\"{:%s%s}\", %s)" % (sp, letter, inner)))
                elif effective == "default":
                    flag_obs.append(("flags-inert:" + sp, sp, expected))
                elif len(fs) == 1 and derive_trait != "Debug":
                    # (a format-less Debug variant is std-like output, whose treatment of the caller's flags is C06's)
                    flag_obs.append(("flags-pass:" + sp, sp, "format!(\"{:%s%s}\", __f0)" % (sp, dl)))
        c.values.append({"val": val, "expected": expected, "variant": v, "flag_obs": flag_obs})
    c.meta["must_fail"] = any(x["expected"] is None for x in c.values)
    return c


def render_case(c, derive_trait, is_enum):
    """module source for one case"""
    dl = LETTER[derive_trait]
    lines = ["#[allow(dead_code, unused_variables, non_camel_case_types, clippy::all)]", "pub mod c%d {" % c.k, "    " + c.decl]
    lines.append("    pub fn run() {")
    if not is_enum:
        lines.append("        let __v = %s;" % c.value)
        for i, (tag, d, r) in enumerate(c.obs):
            lines.append("        crate::emit(%d, %s, &%s, &%s);" % (c.k, F.rust_lit(tag), d, r))
    else:
        for j, x in enumerate(c.values):
            v = x["variant"]
            fs, kind = v["fs"], v["kind"]
            lines.append("        {")
            lines.append("            let __v = %s;" % x["val"])
            # expose the fields of this variant as __v_i / __f0
            if fs:
                pat = "En::%s%s" % (v["name"], (" { %s }" % ", ".join("%s: __v_%d" % (f["name"], i) for i, f in enumerate(fs)))
                                    if kind == "named" else "(%s)" % ", ".join("__v_%d" % i for i in range(len(fs))))
                lines.append("            #[allow(irrefutable_let_patterns)] if let %s = &__v {" % pat)
                lines.append("                let __f0 = __v_0;")
                # inside own-attr references fields are reached through __v.<member>: rebind a struct-like view
                exp = x["expected"]
                exp = re.sub(r"&__v\.(r#\w+|\w+)", lambda m: "__v_%d" % member_index(kind, fs, m.group(1)), exp)
                exp = re.sub(r"\(&__v\)\.(r#\w+|\w+)", lambda m: "(*__v_%d)" % member_index(kind, fs, m.group(1)), exp)
                lines.append("                crate::emit(%d, %s, &format!(\"{%s}\", __v), &%s);" % (
                    c.k, F.rust_lit("variant:%d" % j), ":" + dl if dl else "", exp))
                for (tag, sp, fexp) in x.get("flag_obs", []):
                    fexp = re.sub(r"&__v\.(r#\w+|\w+)", lambda m: "__v_%d" % member_index(kind, fs, m.group(1)), fexp)
                    fexp = re.sub(r"\(&__v\)\.(r#\w+|\w+)", lambda m: "(*__v_%d)" % member_index(kind, fs, m.group(1)), fexp)
                    lines.append("                crate::emit(%d, %s, &format!(\"{:%s%s}\", __v), &%s);" % (
                        c.k, F.rust_lit("%s@%d" % (tag, j)), sp, dl, fexp))
                lines.append("            }")
            else:
                lines.append("            crate::emit(%d, %s, &format!(\"{%s}\", __v), &%s);" % (
                    c.k, F.rust_lit("variant:%d" % j), ":" + dl if dl else "", x["expected"]))
                for (tag, sp, fexp) in x.get("flag_obs", []):
                    lines.append("            crate::emit(%d, %s, &format!(\"{:%s%s}\", __v), &%s);" % (
                        c.k, F.rust_lit("%s@%d" % (tag, j)), sp, dl, fexp))
            lines.append("        }")
    lines.append("    }")
    lines.append("}")
    return "\n".join(lines)


def member_index(kind, fs, m):
    if kind == "named":
        return [f["name"] for f in fs].index(m)
    return int(m)


MAIN_PRELUDE = """#![allow(unused, non_camel_case_types)]
use std::io::Write;
pub fn emit(case: u32, tag: &str, derived: &str, reference: &str) {
    let out = std::io::stdout();
    let mut out = out.lock();
    writeln!(out, "{}\\t{}\\t{}\\t{:?}\\t{:?}", case, tag, if derived == reference { "EQ" } else { "NE" }, derived, reference).unwrap();
}
"""


def build_and_run(name, cases, derive_of, is_enum_of, chk):
    """cases: list of Case; returns dict k -> list of (tag, eq, derived, reference); None for the crate failing"""
    mods = [render_case(c, derive_of[c.k], is_enum_of[c.k]) for c in cases]
    main = MAIN_PRELUDE + "\n".join(mods) + "\nfn main() {\n" + "\n".join("    c%d::run();" % c.k for c in cases) + "\n}\n"
    d = common.make_crate(name, main)
    rc, err, out = common.run_crate(d, name)
    if out is None:
        # name the generated cases rustc complains about (line spans of the module of each case)
        starts, line = [], MAIN_PRELUDE.count("\n") + 1
        for c, m in zip(cases, mods):
            starts.append((line, c))
            line += m.count("\n") + 1
        bad = {}
        for mm in re.finditer(r"--> src/main\.rs:(\d+)", err):
            ln = int(mm.group(1))
            owner = None
            for (st, c) in starts:
                if st <= ln:
                    owner = c
                else:
                    break
            if owner is not None:
                bad.setdefault(owner.k, owner.decl)
        first = re.search(r"^error[^\n]*\n(?:[^\n]*\n){0,6}", err, re.M)
        return None, err + "\nFIRST ERROR:\n" + (first.group(0) if first else "?") + \
            "\nFAILING CASES (%d):\n" % len(bad) + "\n".join(list(bad.values())[:12])
    res = {}
    for line in out.splitlines():
        p = line.split("\t")
        if len(p) == 5:
            res.setdefault(int(p[0]), []).append((p[1], p[2] == "EQ", p[3], p[4]))
    return res, err
