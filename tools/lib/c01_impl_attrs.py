"""C01 translator (T-gen): every top-level `impl` template inside a `quote! { ... }` of /repo/impl/src
-> coq/theories/Gen/ImplAttrs.v (attributes carried, whether the body interpolates anything, header text),
plus the shape facts of the two headers whose generics handling the model takes from the source
(try_from.rs: where `#ty_generics` is applied; from_str.rs enum arm: whether generics are printed at all).

Fails closed: an unknown header shape, or a template count that disagrees with an independent regex count over the
comment-stripped text, raises BuildError (reported as a violation without failing input by check.py).
"""
import os
import re

from . import common


# ------------------------------------------------------------------ a small Rust lexer

class Tok:
    __slots__ = ("kind", "text", "line", "sub", "close_line")

    def __init__(self, kind, text, line, sub=None):
        self.kind = kind      # 'id' | 'punct' | 'lit' | 'life' | 'group'
        self.text = text      # for groups: the opening delimiter
        self.line = line
        self.sub = sub        # groups: list of Tok

    def __repr__(self):
        return "%s:%r" % (self.kind, self.text)


OPEN = {"(": ")", "[": "]", "{": "}"}
ID_START = re.compile(r"[A-Za-z_\u0080-\U0010ffff]")
ID_CONT = re.compile(r"[A-Za-z0-9_\u0080-\U0010ffff]")


def lex(src):
    """-> (nested token list, comment-stripped source text)"""
    i = 0
    n = len(src)
    line = 1
    flat = []
    stripped = []

    def emit(kind, text, ln):
        flat.append(Tok(kind, text, ln))
        stripped.append(text)

    while i < n:
        c = src[i]
        if c == "\n":
            line += 1
            stripped.append("\n")
            i += 1
            continue
        if c.isspace():
            stripped.append(c)
            i += 1
            continue
        if src.startswith("//", i):
            j = src.find("\n", i)
            i = n if j < 0 else j
            continue
        if src.startswith("/*", i):
            depth = 1
            i += 2
            while i < n and depth:
                if src.startswith("/*", i):
                    depth += 1
                    i += 2
                elif src.startswith("*/", i):
                    depth -= 1
                    i += 2
                else:
                    if src[i] == "\n":
                        line += 1
                        stripped.append("\n")
                    i += 1
            continue
        # raw strings  r"..."  r#"..."#  br#"..."#
        m = re.match(r"(?:b|c)?r(#*)\"", src[i:i + 40])
        if m:
            hashes = m.group(1)
            end = src.find('"' + hashes, i + len(m.group(0)))
            if end < 0:
                raise common.BuildError("c01 translator: unterminated raw string at line %d" % line)
            text = src[i:end + 1 + len(hashes)]
            emit("lit", text, line)
            line += text.count("\n")
            i = end + 1 + len(hashes)
            continue
        if c == '"' or (c in "bc" and src.startswith('"', i + 1)):
            j = i + (2 if c != '"' else 1)
            while j < n and src[j] != '"':
                if src[j] == "\\":
                    j += 1
                j += 1
            text = src[i:j + 1]
            emit("lit", text, line)
            line += text.count("\n")
            i = j + 1
            continue
        if c == "'":
            # char literal or lifetime
            m = re.match(r"'(\\.[^']*|[^'\\])'", src[i:i + 14])
            if m:
                emit("lit", m.group(0), line)
                i += len(m.group(0))
                continue
            j = i + 1
            while j < n and ID_CONT.match(src[j]):
                j += 1
            emit("life", src[i:j], line)
            i = j
            continue
        if ID_START.match(c):
            j = i + 1
            while j < n and ID_CONT.match(src[j]):
                j += 1
            if src[i:j] == "r" and src.startswith("#", j) and j + 1 < n and ID_START.match(src[j + 1]):
                k = j + 2
                while k < n and ID_CONT.match(src[k]):
                    k += 1
                emit("id", src[i:k], line)
                i = k
                continue
            emit("id", src[i:j], line)
            i = j
            continue
        if c.isdigit():
            j = i + 1
            while j < n and (ID_CONT.match(src[j]) or (src[j] == "." and j + 1 < n and src[j + 1].isdigit())):
                j += 1
            emit("lit", src[i:j], line)
            i = j
            continue
        emit("punct", c, line)
        i += 1

    # nest
    def nest(pos, closer):
        out = []
        while pos < len(flat):
            t = flat[pos]
            if t.kind == "punct" and t.text in OPEN:
                sub, pos2 = nest(pos + 1, OPEN[t.text])
                g = Tok("group", t.text, t.line, sub)
                out.append(g)
                pos = pos2
                continue
            if t.kind == "punct" and t.text in ")]}":
                if t.text != closer:
                    raise common.BuildError("c01 translator: unbalanced %r at line %d" % (t.text, t.line))
                return out, pos + 1
            out.append(t)
            pos += 1
        if closer is not None:
            raise common.BuildError("c01 translator: missing %r at end of file" % closer)
        return out, pos

    toks, _ = nest(0, None)
    return toks, " ".join("".join(stripped).split(" "))


def text_of(toks):
    out = []
    for t in toks:
        if t.kind == "group":
            out.append(t.text)
            out.append(text_of(t.sub))
            out.append(OPEN[t.text])
        else:
            out.append(t.text)
    return " ".join(x for x in out if x)


# ------------------------------------------------------------------ extraction

def quote_bodies(toks, acc):
    """every `quote! {..}` / `quote! (..)` body, outermost first, recursively"""
    i = 0
    while i < len(toks):
        t = toks[i]
        if (t.kind == "id" and t.text in ("quote", "parse_quote") and i + 2 < len(toks)
                and toks[i + 1].kind == "punct" and toks[i + 1].text == "!" and toks[i + 2].kind == "group"):
            acc.append(toks[i + 2])
            quote_bodies(toks[i + 2].sub, acc)
            i += 3
            continue
        if t.kind == "group":
            quote_bodies(t.sub, acc)
        i += 1
    return acc


def is_attr_at(toks, i):
    return (i + 1 < len(toks) and toks[i].kind == "punct" and toks[i].text == "#"
            and toks[i + 1].kind == "group" and toks[i + 1].text == "[")


def has_interp(toks):
    """any `#ident` or `#( ... )` (a quote interpolation), at any depth"""
    for i, t in enumerate(toks):
        if t.kind == "group":
            if has_interp(t.sub):
                return True
        elif t.kind == "punct" and t.text == "#" and i + 1 < len(toks):
            nx = toks[i + 1]
            if nx.kind == "id" or (nx.kind == "group" and nx.text == "("):
                return True
    return False


def attr_flags(attr_groups):
    auto = dep = unreach = False
    for g in attr_groups:
        s = text_of(g.sub).replace(" ", "")
        if s == "automatically_derived":
            auto = True
        m = re.match(r"allow\((.*)\)$", s)
        if m:
            lints = m.group(1).split(",")
            dep = dep or "deprecated" in lints
            unreach = unreach or "unreachable_code" in lints
    return auto, dep, unreach


def preceding_attrs(toks, i):
    """attribute groups immediately before position i (skipping nothing else)"""
    attrs = []
    j = i
    while j >= 2 and is_attr_at(toks, j - 2):
        attrs.append(toks[j - 1])
        j -= 2
    return attrs


def fn_items(body):
    """(attrs, tokens of the fn item) for each depth-0 `fn` of an impl body"""
    out = []
    i = 0
    while i < len(body):
        t = body[i]
        if t.kind == "id" and t.text == "fn":
            # walk back over qualifiers (pub, const, unsafe, ...) to the attributes
            j = i
            while j > 0 and body[j - 1].kind == "id" and body[j - 1].text in ("pub", "const", "unsafe", "async", "extern"):
                j -= 1
            attrs = preceding_attrs(body, j)
            k = i
            while k < len(body) and not (body[k].kind == "group" and body[k].text == "{"):
                k += 1
            out.append((attrs, body[i:k + 1]))
            i = k + 1
            continue
        i += 1
    return out


def templates_of_file(path, rel):
    src = open(path, encoding="utf-8").read()
    toks, stripped = lex(src)
    res = []
    for q in quote_bodies(toks, []):
        body = q.sub
        for i, t in enumerate(body):
            if not (t.kind == "id" and t.text == "impl"):
                continue
            # an item `impl`: at depth 0 of the quote, followed (eventually) by a `{` group at depth 0,
            # and not in type position (`-> impl`, `: impl`, `& impl`, `< impl`)
            if i > 0 and body[i - 1].kind == "punct" and body[i - 1].text in (">", ":", "&", "<", ",", "="):
                continue
            k = i
            while k < len(body) and not (body[k].kind == "group" and body[k].text == "{"):
                k += 1
            if k == len(body):
                continue
            attrs = preceding_attrs(body, i)
            auto, dep, unreach = attr_flags(attrs)
            ibody = body[k].sub
            fns = [(a, f) for (a, f) in fn_items(ibody) if has_interp(f)]
            if not dep and fns and all(attr_flags(a)[1] for a, _ in fns):
                dep = True
            if not unreach and fns and all(attr_flags(a)[2] for a, _ in fns):
                unreach = True
            res.append({"file": rel, "line": t.line, "auto": auto, "dep": dep, "unreach": unreach,
                        "interp": has_interp(ibody), "header": text_of(body[i:k])})
    res.sort(key=lambda r: r["line"])
    for idx, r in enumerate(res):
        r["idx"] = idx
    # independent count: `impl` followed by an interpolation, in the comment-stripped text
    n_regex = len(re.findall(r"\bimpl\s*#\s*\w", stripped))
    return res, n_regex


def coq_string(s):
    return '"' + s.replace('"', '""') + '"'


def generate():
    """Re-extract the facts from the working tree and rewrite Gen/ImplAttrs.v (only when changed).
    Returns the list of template dicts plus the shape facts."""
    root = os.path.join(common.REPO, "impl", "src")
    tpls = []
    n_regex = 0
    files = []
    for d, _, names in os.walk(root):
        for nme in names:
            if nme.endswith(".rs"):
                files.append(os.path.join(d, nme))
    for p in sorted(files):
        rel = os.path.relpath(p, root)
        r, k = templates_of_file(p, rel)
        tpls += r
        n_regex += k
    if len(tpls) != n_regex:
        raise common.BuildError("c01 translator: %d impl templates found by the token walk but %d by the regex count "
                                "(`impl #...` in comment-stripped text); refusing to emit facts" % (len(tpls), n_regex))
    if not tpls:
        raise common.BuildError("c01 translator: no impl template found under %s" % root)

    def only(rel, pred, what):
        c = [t for t in tpls if t["file"] == rel and pred(t)]
        if len(c) != 1:
            raise common.BuildError("c01 translator: expected exactly one %s in %s, found %d" % (what, rel, len(c)))
        return c[0]

    # -- try_from.rs: where is `#ty_generics` applied?
    tf = only("try_from.rs", lambda t: True, "impl template")
    h = tf["header"].replace(" ", "")
    m = re.match(r"impl#impl_generics(?:derive_more::)?core::convert::TryFrom<#repr_ty(#ty_generics)?>"
                 r"for#ident(#ty_generics)?#where_clause$", h)
    if not m:
        raise common.BuildError("c01 translator: unrecognised TryFrom impl header: %s" % tf["header"])
    tf_on_trait, tf_on_self = m.group(1) is not None, m.group(2) is not None
    # -- from_str.rs: the enum arm (the template that is not the struct one)
    fs = [t for t in tpls if t["file"] == "from_str.rs"]
    if len(fs) != 2:
        raise common.BuildError("c01 translator: expected two impl templates in from_str.rs, found %d" % len(fs))
    fe = fs[1]["header"].replace(" ", "")
    if fe == "impl#trait_pathfor#input_type":
        fs_generic = False
    elif re.match(r"impl#impl_generics#trait_pathfor#input_type#ty_generics#where_clause$", fe):
        fs_generic = True
    else:
        raise common.BuildError("c01 translator: unrecognised FromStr (enum) impl header: %s" % fs[1]["header"])

    out = ["(* GENERATED by tools/lib/c01_impl_attrs.py from %s -- do not edit *)" % "impl/src",
           "From Coq Require Import List String.", "Import ListNotations.", "Local Open Scope string_scope.", "",
           "(* one record per top-level `impl` inside a `quote!` template: file, index within the file, line,",
           "   carries #[automatically_derived] / #[allow(deprecated)] / #[allow(unreachable_code)] (on the impl, or on",
           "   every member fn that interpolates), whether the impl body interpolates anything, the header text *)",
           "Record tpl := { t_file : string; t_idx : nat; t_line : nat; t_auto : bool; t_dep : bool;",
           "                t_unreach : bool; t_interp : bool; t_header : string }.", "",
           "Definition impl_templates : list tpl := ["]
    rows = []
    for t in tpls:
        rows.append("  {| t_file := %s; t_idx := %d; t_line := %d; t_auto := %s; t_dep := %s; t_unreach := %s; "
                    "t_interp := %s;\n     t_header := %s |}" %
                    (coq_string(t["file"]), t["idx"], t["line"], str(t["auto"]).lower(), str(t["dep"]).lower(),
                     str(t["unreach"]).lower(), str(t["interp"]).lower(), coq_string(t["header"])))
    out.append(";\n".join(rows))
    out.append("].")
    out.append("")
    out.append("(* try_from.rs: `TryFrom<#repr_ty #ty_generics> for #ident` (on_trait) / `for #ident #ty_generics` (on_self) *)")
    out.append("Definition try_from_tygen_on_trait : bool := %s." % str(tf_on_trait).lower())
    out.append("Definition try_from_tygen_on_self : bool := %s." % str(tf_on_self).lower())
    out.append("(* from_str.rs, enum arm: does the header print the type's generics at all? *)")
    out.append("Definition from_str_enum_generic : bool := %s." % str(fs_generic).lower())
    out.append("")
    text = "\n".join(out)
    path = os.path.join(common.COQ, "theories", "Gen", "ImplAttrs.v")
    old = open(path).read() if os.path.exists(path) else None
    if old != text:
        with open(path, "w") as fh:
            fh.write(text)
    return {"templates": tpls, "try_from_on_trait": tf_on_trait, "try_from_on_self": tf_on_self,
            "from_str_enum_generic": fs_generic, "regex_count": n_regex}
