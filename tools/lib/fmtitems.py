"""Item language for the formatting derives (C02/C04/C05/C07): generation, rendering to Rust source and
to Coq terms of coq/theories/Fmt/Model.v, and canonical forms of real expansion bodies."""
import re

from .common import coq_str, py_str

DISPLAY_TRAITS = ["Display", "Binary", "Octal", "LowerHex", "UpperHex", "LowerExp", "UpperExp", "Pointer"]
ATTR_OF = {"Display": "display", "Binary": "binary", "Octal": "octal", "LowerHex": "lower_hex",
           "UpperHex": "upper_hex", "LowerExp": "lower_exp", "UpperExp": "upper_exp", "Pointer": "pointer",
           "Debug": "debug"}
TR_COQ = {"Display": "TrDisplay", "Debug": "TrDebug", "Octal": "TrOctal", "LowerHex": "TrLowerHex",
          "UpperHex": "TrUpperHex", "Pointer": "TrPointer", "Binary": "TrBinary", "LowerExp": "TrLowerExp",
          "UpperExp": "TrUpperExp"}
TR_PY = {v: k for k, v in TR_COQ.items()}
TYPE_LETTER = {"Display": "", "Debug": "?", "Octal": "o", "LowerHex": "x", "UpperHex": "X", "Pointer": "p",
               "Binary": "b", "LowerExp": "e", "UpperExp": "E"}


CASINGS = ["lowercase", "UPPERCASE", "PascalCase", "camelCase", "snake_case", "SCREAMING_SNAKE_CASE", "kebab-case",
           "SCREAMING-KEBAB-CASE"]


def words(name):
    """split a simple identifier into words: underscores and lower->Upper transitions"""
    out = []
    for part in re.split(r"[_\-\s]+", name):
        if not part:
            continue
        out += re.findall(r"[A-Z]+(?![a-z])|[A-Z]?[a-z0-9]+", part)
    return [w.lower() for w in out]


def rename(name, casing):
    """independent implementation of the eight casings (convert_case itself is not modelled)"""
    w = words(name)
    c = casing.replace("-", "").replace("_", "").lower()
    if c == "lowercase":
        return "".join(w)
    if c == "uppercase":
        return "".join(w).upper()
    if c == "pascalcase":
        return "".join(x.capitalize() for x in w)
    if c == "camelcase":
        return w[0] + "".join(x.capitalize() for x in w[1:]) if w else ""
    if c == "snakecase":
        return "_".join(w)
    if c == "screamingsnakecase":
        return "_".join(w).upper()
    if c == "kebabcase":
        return "-".join(w)
    if c == "screamingkebabcase":
        return "-".join(w).upper()
    raise ValueError(casing)


def decode_name(s):
    """a unit name printed by the model: the symbolic instance of `to_case` (Fmt/Front.v, to_case_marker) leaves a
    private-use marker U+E000+k in front of the unconverted name; the conversion itself is done here"""
    if s and 0xE000 <= ord(s[0]) < 0xE008:
        return rename(s[1:], CASINGS[ord(s[0]) - 0xE000])
    return s


MODEL_DEFAULT_LITERAL = {}   # trait -> literal, read from the Coq model once per run
MODEL_ATTR_NAME = {}         # trait -> attribute name, read from the Coq model once per run


def rust_lit(s):
    out = ['"']
    for c in s:
        o = ord(c)
        if c in '"\\':
            out.append("\\" + c)
        elif 0x20 <= o < 0x7f:
            out.append(c)
        else:
            out.append("\\u{%x}" % o)
    out.append('"')
    return "".join(out)


# ------------------------------------------------------------------ types
# a type is (rust_source, coq_term)

def t_ident(name):
    return (name, "TyPath None [Seg %s PNone]" % coq_str(name))


def t_path(segs, qself=None):
    """segs: list of (name, None | ('angle', [type|None]) | ('paren', [types], out|None))"""
    src = []
    coq = []
    for (name, a) in segs:
        if a is None:
            src.append(name)
            coq.append("Seg %s PNone" % coq_str(name))
        elif a[0] == "angle":
            parts = []
            cparts = []
            for g in a[1]:
                if g is None:
                    parts.append("'static")
                    cparts.append("None")
                elif isinstance(g, tuple) and len(g) == 3 and g[0] == "assoc":
                    # associated-type binding `Out = Ty` (syn::GenericArgument::AssocType)
                    parts.append("Out = " + g[1][0])
                    cparts.append("Some (%s)" % g[1][1])
                else:
                    parts.append(g[0])
                    cparts.append("Some (%s)" % g[1])
            src.append("%s<%s>" % (name, ", ".join(parts)))
            coq.append("Seg %s (PAngle [%s])" % (coq_str(name), "; ".join(cparts)))
        else:
            ins = a[1]
            out = a[2]
            src.append("%s(%s)%s" % (name, ", ".join(i[0] for i in ins), "" if out is None else " -> " + out[0]))
            coq.append("Seg %s (PParen [%s] %s)" % (coq_str(name), "; ".join(i[1] for i in ins),
                                                    "None" if out is None else "(Some (%s))" % out[1]))
    s = "::".join(src)
    q = "None"
    if qself is not None:
        # <Q as Tr>::Assoc : first segment(s) belong to the trait
        s = "<%s as %s>::%s" % (qself[0], "::".join(src[:-1]), src[-1])
        q = "(Some (%s))" % qself[1]
    return (s, "TyPath %s [%s]" % (q, "; ".join(coq)))


def t_elem(kind, t):
    src = {"ref": "&'static %s", "ptr": "*const %s", "slice": "&'static [%s]", "array": "[%s; 2]", "paren": "(%s)"}[kind] % t[0]
    coq = "TyElem (%s)" % t[1]
    if kind == "slice":
        coq = "TyElem (TyElem (%s))" % t[1]
    return (src, coq)


def t_tuple(ts):
    if len(ts) == 1:
        return ("(%s,)" % ts[0][0], "TyTuple [%s]" % ts[0][1])
    return ("(%s)" % ", ".join(t[0] for t in ts), "TyTuple [%s]" % "; ".join(t[1] for t in ts))


def t_fn(ins, out):
    return ("fn(%s)%s" % (", ".join(i[0] for i in ins), "" if out is None else " -> " + out[0]),
            "TyBareFn [%s] %s" % ("; ".join(i[1] for i in ins), "None" if out is None else "(Some (%s))" % out[1]))


def t_dyn(segs_list):
    """Box<dyn Tr<..> + 'static>"""
    srcs = []
    coqs = []
    for segs in segs_list:
        if segs is None:
            srcs.append("'static")
            coqs.append("None")
        else:
            p = t_path(segs)
            srcs.append(p[0])
            inner = p[1][len("TyPath None "):]
            coqs.append("Some %s" % inner)
    dyn = ("dyn " + " + ".join(srcs), "TyTraitObject [%s]" % "; ".join(coqs))
    return t_path([("Box", ("angle", [dyn]))])


def gen_type(rng, params, depth=2):
    """a random type tree mentioning (or not) some of the type parameters"""
    leaves = [t_ident(n) for n in ["i32", "u8", "String", "bool"]] + [t_ident(p) for p in params] * 3
    if depth == 0 or rng.random() < 0.35:
        return rng.choice(leaves)
    k = rng.randrange(12)
    sub = lambda: gen_type(rng, params, depth - 1)
    if k == 11:
        k = 8
    if k == 0:
        return t_elem(rng.choice(["ref", "ptr", "slice", "array", "paren"]), sub())
    if k == 1:
        return t_tuple([sub() for _ in range(rng.randrange(1, 4))])
    if k == 2:
        return t_path([(rng.choice(["Vec", "Option", "Box"]), ("angle", [sub()]))])
    if k == 3:
        return t_path([("std", None), ("collections", None), ("HashMap", ("angle", [sub(), sub()]))])
    if k == 4:
        return t_fn([sub() for _ in range(rng.randrange(0, 3))], sub() if rng.random() < 0.5 else None)
    if k == 5 and params:
        return t_path([(rng.choice(params), None), ("Assoc", None)])
    if k == 6:
        if rng.random() < 0.5:
            return t_dyn([[("Tr", ("angle", [("assoc", sub(), None)]))], None])
        return t_dyn([[("Tr", ("angle", [sub()]))], None])
    if k == 7:
        return t_path([("Wrap", ("angle", [None, sub()]))])
    if k == 8:
        # qualified path: the parameter may sit in the self type, or only in the trait's / last segment's arguments
        qs = t_ident(rng.choice(params)) if params and rng.random() < 0.4 else rng.choice([t_ident("Holder"), sub()])
        last = ("Assoc", None) if rng.random() < 0.6 else ("Of", ("angle", [sub()]))
        return t_path([("Tr", ("angle", [sub()])), last], qself=qs)
    if k == 9:
        return t_dyn([[("Fn", ("paren", [sub()], sub()))]])
    return rng.choice(leaves)


# ------------------------------------------------------------------ attributes

def mk_attr(lit, args=()):
    """args: list of (alias|None, expr_source). ident-ness is decided syntactically."""
    out = []
    for (al, e) in args:
        out.append({"alias": al, "expr": e, "ident": re.fullmatch(r"(r#)?[A-Za-z_][A-Za-z0-9_]*", e) is not None and e != "_"})
    return {"lit": lit, "args": out}


def attr_src(a):
    parts = [rust_lit(a["lit"])]
    for x in a["args"]:
        parts.append(("%s = " % x["alias"] if x["alias"] else "") + x["expr"])
    return ", ".join(parts)


class ExprTable:
    """opaque ids for non-identifier argument expressions"""

    def __init__(self):
        self.ids = {}
        self.rev = {}

    def id(self, src):
        key = re.sub(r"\s+", "", src)
        if key not in self.ids:
            self.ids[key] = len(self.ids) + 1
            self.rev[self.ids[key]] = src
        return self.ids[key]


def attr_coq(a, et):
    args = []
    for x in a["args"]:
        e = "EIdent %s" % coq_str(x["expr"]) if x["ident"] else "EOther %d" % et.id(x["expr"])
        al = "None" if x["alias"] is None else "(Some %s)" % coq_str(x["alias"])
        args.append("{| alias := %s; aexpr := %s |}" % (al, e))
    return "{| lit := %s; args := [%s] |}" % (coq_str(a["lit"]), "; ".join(args))


def opt_attr_coq(a, et):
    return "None" if a is None else "(Some %s)" % attr_coq(a, et)


# ------------------------------------------------------------------ raw attributes (Fmt/Front.v: raw_attr)
# {"name": attribute name, "kind": fmt|bound|rename_all|skip|legacy_fmt|legacy_bound|other, ...}

def raw_of_summary(an, fmt=None, bounds=(), rename_all=None):
    """the attribute list of an item described by its summary keys, in the order item_src has always rendered them"""
    out = []
    if fmt is not None:
        out.append({"name": an, "kind": "fmt", "attr": fmt})
    for b in bounds or ():
        out.append({"name": an, "kind": "bound", "kw": b[0], "src": b[1]})
    if rename_all:
        out.append({"name": an, "kind": "rename_all", "value": rename_all})
    return out


def container_raw(c, an):
    if c.get("raw") is not None:
        return c["raw"]
    return raw_of_summary(an, c.get("fmt"), c.get("bounds"), c.get("rename_all"))


def variant_raw(v, an):
    if v.get("raw") is not None:
        return v["raw"]
    return raw_of_summary(an, v.get("fmt"), v.get("bounds"), v.get("rename_all"))


def field_raw(f, an):
    if f.get("raw") is not None:
        return f["raw"]
    a = f.get("attr")
    if a is None:
        return []
    if a in ("skip", "ignore"):
        return [{"name": an, "kind": "skip", "kw": a}]
    return [{"name": an, "kind": "fmt", "attr": a}]


def raw_src(r):
    k = r["kind"]
    if k == "fmt":
        inner = attr_src(r["attr"])
    elif k == "bound":
        inner = "%s(%s)" % (r["kw"], r["src"])
    elif k == "rename_all":
        inner = "rename_all = %s" % rust_lit(r["value"])
    elif k == "skip":
        inner = r["kw"]
    else:
        inner = r["src"]
    if inner is None:
        return "#[%s]" % r["name"]
    return "#[%s(%s)]" % (r["name"], inner)


def split_top(src):
    out, depth, cur = [], 0, ""
    for ch in src:
        if ch in "<([":
            depth += 1
        elif ch in ">)]":
            depth -= 1
        if ch == "," and depth == 0:
            out.append(cur)
            cur = ""
        else:
            cur += ch
    if cur.strip():
        out.append(cur)
    return out


def raw_coq(r, et, preds):
    k = r["kind"]
    if k == "fmt":
        c = "RCFmt %s" % attr_coq(r["attr"], et)
    elif k == "bound":
        ids = [str(preds.setdefault(nows(p), len(preds) + 1)) for p in split_top(r["src"])]
        c = "RCBound [%s]" % "; ".join(ids)
    elif k == "rename_all":
        c = "RCRenameAll %s" % coq_str(r["value"])
    elif k == "skip":
        c = "RCSkip"
    elif k == "legacy_fmt":
        c = "RCLegacyFmt"
    elif k == "legacy_bound":
        c = "RCLegacyBound"
    else:
        c = "RCOther"
    return "{| ra_name := %s; ra_content := %s |}" % (coq_str(r["name"]), c)


def raws_coq(rs, et, preds):
    return "[%s]" % "; ".join(raw_coq(r, et, preds) for r in rs)


def rfields_coq(fs, an, et, tids, preds):
    fl = []
    for f in fs["list"]:
        tid = tids.setdefault(re.sub(r"\s+", "", f["ty"][0]), len(tids) + 1)
        fl.append("{| rf_name := %s; rf_ty := %s; rf_tid := %d; rf_attrs := %s |}" % (
            "None" if f.get("name") is None else "(Some %s)" % coq_str(f["name"]), f["ty"][1], tid,
            raws_coq(field_raw(f, an), et, preds)))
    return "{| rfk := %s; rfl := [%s] |}" % ({"unit": "Unit", "unnamed": "Unnamed", "named": "Named"}[fs["kind"]],
                                              "; ".join(fl))


def ritem_coq(it, et, tids, preds):
    """the derive input as a Coq `ritem` (Fmt/Front.v)"""
    an = ATTR_OF[it["trait"]]
    params = "[%s]" % "; ".join(coq_str(p) for p in it["params"])
    if it["kind"] == "union":
        data = "RUnion %s" % rfields_coq(it["fields"], an, et, tids, preds)
    elif it["kind"] == "struct":
        data = "RStruct %s" % rfields_coq(it["fields"], an, et, tids, preds)
    else:
        vs = []
        for v in it["variants"]:
            vs.append("{| rv_attrs := %s; rv_ident := %s; rv_fields := %s |}" % (
                raws_coq(variant_raw(v, an), et, preds), coq_str(v["name"]), rfields_coq(v["fields"], an, et, tids, preds)))
        data = "REnum [%s]" % "; ".join(vs)
    wh = "[%s]" % "; ".join(str(preds.setdefault(nows(p), len(preds) + 1)) for p in it.get("where", []))
    return "{| ri_attrs := %s; ri_ident := %s; ri_params := %s; ri_where := %s; ri_data := (%s) |}" % (
        raws_coq(container_raw(it["container"], an), et, preds), coq_str(it["name"]), params, wh, data)


# ------------------------------------------------------------------ fields / items

def fields_src(fs, attr_name="debug"):
    def fa(f):
        return "".join(raw_src(r) + " " for r in field_raw(f, attr_name))
    if fs["kind"] == "unit":
        return ""
    if fs["kind"] == "unnamed":
        return "(" + ", ".join(fa(f) + f["ty"][0] for f in fs["list"]) + ")"
    return " { " + ", ".join(fa(f) + "%s: %s" % (f["name"], f["ty"][0]) for f in fs["list"]) + " }"


def fields_coq(fs, et, tids):
    fl = []
    for f in fs["list"]:
        a = f.get("attr")
        fa = "FNone" if a is None else ("FSkip" if a in ("skip", "ignore") else "(FFmt %s)" % attr_coq(a, et))
        tid = tids.setdefault(re.sub(r"\s+", "", f["ty"][0]), len(tids) + 1)
        fl.append("{| fname := %s; fty := %s; ftid := %d; fattr := %s |}" % (
            "None" if f.get("name") is None else "(Some %s)" % coq_str(f["name"]), f["ty"][1], tid, fa))
    return "{| fk := %s; fl := [%s] |}" % ({"unit": "Unit", "unnamed": "Unnamed", "named": "Named"}[fs["kind"]],
                                            "; ".join(fl))


def generics_src(params, inline=None):
    """`inline`: {param: bound source} written inside the angle brackets (`<T: Clone, U>`)"""
    inline = inline or {}
    return ("<" + ", ".join(p + (": " + inline[p] if p in inline else "") for p in params) + ">") if params else ""


def where_src(it):
    return (" where " + ", ".join(it["where"])) if it.get("where") else ""


def item_src(it):
    """Rust source of the derive input (without the #[derive] line: the in-process harness takes the derive by name)"""
    an = ATTR_OF[it["trait"]]
    lines = []
    c = it["container"]
    for r in container_raw(c, an):
        lines.append(raw_src(r))
    g = generics_src(it["params"], it.get("inline"))
    w = where_src(it)
    if it["kind"] == "union":
        lines.append("union %s%s%s%s" % (it["name"], g, w, fields_src(it["fields"], an)))
    elif it["kind"] == "struct":
        fs = it["fields"]
        body = fields_src(fs, an)
        # the where clause of a named struct precedes the braces, that of a tuple / unit struct follows the fields
        if fs["kind"] == "named":
            lines.append("struct %s%s%s%s" % (it["name"], g, w, body))
        else:
            lines.append("struct %s%s%s%s;" % (it["name"], g, body, w))
    else:
        vs = []
        for v in it["variants"]:
            pre = "".join(raw_src(r) + " " for r in variant_raw(v, an))
            vs.append(pre + v["name"] + fields_src(v["fields"], an))
        lines.append("enum %s%s%s { %s }" % (it["name"], g, w, ", ".join(vs)))
    return "\n".join(lines)


def unraw(s):
    return s[2:] if s.startswith("r#") else s


# ------------------------------------------------------------------ canonical bodies

def nows(s):
    return re.sub(r"\s+", "", s)


def canon_real(b):
    """canonical form of a body summary from harness `fmt_bodies`"""
    if b is None:
        return None
    k = b.get("k")
    if k == "block":
        return canon_real(b["tail"])
    if k == "delegate":
        return ("delegate", b["trait"], nows(b["expr"]))
    if k == "write":
        return ("write", b.get("lit"), tuple((x["alias"], nows(x["expr"])) for x in b.get("args", [])))
    if k == "write_str":
        return ("write_str", b["s"], b.get("form"))
    if k == "match":
        if len(b["arms"]) == 1 and b["arms"][0]["pat"] == "_variant":
            return ("match_variant", canon_vexpr(b["on"]), canon_real(b["arms"][0]["body"]))
        return ("match", nows(b["on_tokens"]), tuple((nows(a["pat"]), canon_real(a["body"])) for a in b["arms"]))
    if k == "call":
        return ("call", b["f"], tuple(canon_real(a) for a in b["args"]))
    if k == "ref":
        return ("ref", b["mut"], canon_real(b["e"]))
    if k == "format_args":
        return ("format_args", b.get("lit"), tuple((x["alias"], nows(x["expr"])) for x in b.get("args", [])))
    if k == "str":
        return ("str", b["s"])
    if k == "path":
        return ("path", nows(b["p"]))
    return ("other", nows(b.get("tokens", str(b))))


def canon_vexpr(v):
    if v.get("k") == "ref":
        e = v["e"]
        if e.get("k") == "format_args":
            return ("format_args", e.get("lit"), tuple((x["alias"], nows(x["expr"])) for x in e.get("args", [])))
    if v.get("k") == "str":
        return ("name", v["s"])
    return ("other", str(v))


def c_opt(t):
    if t == "None":
        return None
    return t[1]


def model_attr(t, et):
    """Coq fmt_attr record -> (lit, args as ((alias, exprsrc_nows), ...))"""
    args = []
    for x in t["args"]:
        al = c_opt(x["alias"])
        e = x["aexpr"]
        src = py_str(e[1]) if e[0] == "EIdent" else et.rev[e[1]]
        args.append((None if al is None else py_str(al), nows(src)))
    return py_str(t["lit"]), tuple(args)


def model_texpr(t, et):
    if t[0] == "TField":
        return nows(py_str(t[1]))
    e = t[1]
    src = py_str(e[1]) if e[0] == "EIdent" else et.rev[e[1]]
    return nows("&(" + src + ")")


def deref_args(l):
    return tuple((py_str(d), nows("*" + py_str(d))) for d in l)


def canon_model_body(t, et):
    """canonical form of a Coq `body` term (Display-like)"""
    if t == "BEmpty":
        return None
    h = t[0]
    if h == "BDelegate":
        return ("delegate", TR_PY[t[1]], model_texpr(t[2], et))
    if h == "BWrite":
        lit, args = model_attr(t[1], et)
        return ("write", lit, args + deref_args(t[2]))
    if h == "BWriteStr":
        return ("write_str", decode_name(py_str(t[1])), "method")
    if h == "BMatchVariant":
        v = t[1]
        if v[0] == "VFormatArgs":
            lit, args = model_attr(v[1], et)
            cv = ("format_args", lit, args + deref_args(v[2]))
        elif v[0] == "VName":
            cv = ("name", decode_name(py_str(v[1])))
        else:
            # the literal comes from the model's table (Fmt/Front.v default_placeholder_literal) when it has been
            # loaded by fmtcheck.load_model_tables, else from this module's own letter table
            tr = TR_PY[v[1]]
            dl = MODEL_DEFAULT_LITERAL.get(tr, "{" + (":" + TYPE_LETTER[tr] if TYPE_LETTER[tr] else "") + "}")
            cv = ("format_args", dl, ((None, nows(py_str(v[2]))),))
        return ("match_variant", cv, canon_model_body(t[2], et))
    raise ValueError(t)


def canon_model_bounds(t, tids_rev, user_rev):
    out = []
    for b in t:
        if b[0] == "BTy":
            out.append(nows("%s: derive_more::core::fmt::%s" % (tids_rev[b[1]], TR_PY[b[2]])))
        else:
            out.append(nows(user_rev[b[1]]))
    return out
