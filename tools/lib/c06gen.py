"""C06 helpers: item/value language, generators, renderers to Rust and to Coq (Verif.C06.Model)."""
import re

from lib.common import coq_str

# ------------------------------------------------------------------ format specs

def mkspec(alt=False, dhex=None, width=None, fill=" ", align=None, prec=None, sign=None, zero=False):
    return {"alt": alt, "dhex": dhex, "width": width, "fill": fill, "align": align, "prec": prec,
            "sign": sign, "zero": zero}


def spec_rust(s, trait):
    """the text between ':' and '}' of a placeholder"""
    out = ""
    if s["align"] is not None:
        out += ("" if s["fill"] == " " else s["fill"]) + {"left": "<", "right": ">", "center": "^"}[s["align"]]
    if s["sign"] is not None:
        out += {"plus": "+", "minus": "-"}[s["sign"]]
    if s["alt"]:
        out += "#"
    if s["zero"]:
        out += "0"
    if s["width"] is not None:
        out += str(s["width"])
    if s["prec"] is not None:
        out += "." + str(s["prec"])
    if trait == "Debug":
        out += (s["dhex"] or "") + "?"
    elif trait == "LowerHex":
        out += "x"
    return out


def spec_coq(s):
    def o(x, f=str):
        return "None" if x is None else "(Some %s)" % f(x)
    return ("(mkcfg %s %s %s %d %s %s %s %s)" % (
        "true" if s["alt"] else "false",
        o(s["dhex"], lambda h: {"x": "DhLower", "X": "DhUpper"}[h]),
        o(s["width"]), ord(s["fill"]),
        o(s["align"], lambda a: {"left": "AlLeft", "right": "AlRight", "center": "AlCenter"}[a]),
        o(s["prec"]),
        o(s["sign"], lambda a: {"plus": "SgPlus", "minus": "SgMinus"}[a]),
        "true" if s["zero"] else "false"))


# the 11 top-level configurations of the property text: {:?} {:#?} {:x?} {:X?} {:#x?} {:#X?} {:5?} {:<#12?} {:+.2?} {:#010?} {:^#9.1?}
TOP = [mkspec(), mkspec(alt=True), mkspec(dhex="x"), mkspec(dhex="X"), mkspec(alt=True, dhex="x"),
       mkspec(alt=True, dhex="X"), mkspec(width=5), mkspec(alt=True, width=12, align="left"),
       mkspec(sign="plus", prec=2), mkspec(alt=True, zero=True, width=10),
       mkspec(alt=True, width=9, prec=1, align="center")]
TOP_TXT = ["{:?}", "{:#?}", "{:x?}", "{:X?}", "{:#x?}", "{:#X?}", "{:5?}", "{:<#12?}", "{:+.2?}", "{:#010?}", "{:^#9.1?}"]
assert ["{:" + spec_rust(s, "Debug") + "}" for s in TOP] == TOP_TXT

# placeholders of field-level formats: (spec, trait)
ARGSPECS = [(mkspec(), "Display"), (mkspec(width=4, align="right"), "Display"), (mkspec(sign="plus"), "Display"),
            (mkspec(alt=True), "LowerHex"), (mkspec(zero=True, width=4), "LowerHex"),
            (mkspec(), "Debug"), (mkspec(alt=True), "Debug"), (mkspec(alt=True, dhex="x"), "Debug"),
            (mkspec(dhex="x"), "Debug"), (mkspec(width=6), "Debug"), (mkspec(alt=True, zero=True, width=6), "Debug"),
            (mkspec(), "LowerHex"), (mkspec(prec=1), "Display"), (mkspec(dhex="X"), "Debug"), (mkspec(sign="plus", prec=2), "Debug")]
BARE_DEBUG = 5          # index of the plain `{:?}` placeholder

# every configuration a leaf can meet, per trait: index -> spec
CFGS = {"Debug": [], "Display": [], "LowerHex": []}
for _s in TOP:
    CFGS["Debug"].append(_s)
for _s, _t in ARGSPECS:
    if _s not in CFGS[_t]:
        CFGS[_t].append(_s)


def cfg_name(trait, k):
    return "C%s%d" % (trait[0:2], k)


# ------------------------------------------------------------------ leaves

# (rust type, [expressions], traits beyond Debug, fails)
LEAF_TYPES = {
    "i32": ("i32", ["255i32", "-16i32", "0i32", "1234567i32"], ["Display", "LowerHex"]),
    "u8": ("u8", ["7u8", "200u8"], ["Display", "LowerHex"]),
    "i64": ("i64", ["-9000000000i64", "42i64"], ["Display", "LowerHex"]),
    "f64": ("f64", ["1.5f64", "-0.25f64", "1e10f64", "3.14159f64"], ["Display"]),
    "f32": ("f32", ["2.5f32"], ["Display"]),
    "bool": ("bool", ["true", "false"], ["Display"]),
    "char": ("char", ["'x'", "'\\n'"], ["Display"]),
    "str": ("&'static str", ['"hi"', '"a\\nb"', '"q\\"z"', '""', '"é🦀"'], ["Display"]),
    "String": ("String", ['String::from("s t")'], ["Display"]),
    "unit": ("()", ["()"], []),
    "ML": ("crate::ML", ["crate::ML"], []),
    "Pad": ("crate::Pad", ['crate::Pad("xy")'], []),
    "AltAware": ("crate::AltAware", ["crate::AltAware"], []),
    "Chunky": ("crate::Chunky", ["crate::Chunky"], []),
    "WF": ("crate::WF", ["crate::WF(7)"], []),
    "Fail": ("crate::Fail", ["crate::Fail"], []),
    "Edge": ("crate::Edge", ['crate::Edge("x\\n")', 'crate::Edge("\\ny")', 'crate::Edge("")', 'crate::Edge("\\n")',
                            'crate::Edge("a\\r\\nb")', 'crate::Edge("\\n\\n")', 'crate::Edge("é🦀\\n  z")'], []),
}
COMMON_LEAVES = ["i32", "i32", "i32", "u8", "f64", "str", "bool", "char", "String", "i64", "f32", "unit"]
ODD_LEAVES = ["ML", "Pad", "AltAware", "Chunky", "WF", "Edge", "Edge"]

LEAF_RS = r'''
#[derive(Clone, Default, PartialEq)] pub struct ML;
impl core::fmt::Debug for ML { fn fmt(&self, f: &mut core::fmt::Formatter<'_>) -> core::fmt::Result { f.write_str("l1\nl2") } }
#[derive(Clone, Default, PartialEq)] pub struct Pad(pub &'static str);
impl core::fmt::Debug for Pad { fn fmt(&self, f: &mut core::fmt::Formatter<'_>) -> core::fmt::Result { f.pad(self.0) } }
#[derive(Clone, Default, PartialEq)] pub struct AltAware;
impl core::fmt::Debug for AltAware { fn fmt(&self, f: &mut core::fmt::Formatter<'_>) -> core::fmt::Result {
    if f.alternate() { f.write_str("ALT\n  x")?; if f.width().is_some() { f.write_str("+w")?; } Ok(()) } else { f.write_str("cmp") } } }
#[derive(Clone, Default, PartialEq)] pub struct Chunky;
impl core::fmt::Debug for Chunky { fn fmt(&self, f: &mut core::fmt::Formatter<'_>) -> core::fmt::Result {
    use core::fmt::Write as _;
    f.write_str("a")?; f.write_char('\n')?; f.write_str("b\n")?; f.write_str("")?; f.write_char('c')?; f.write_str("\n\nd") } }
#[derive(Clone, Default, PartialEq)] pub struct WF(pub i32);
impl core::fmt::Debug for WF { fn fmt(&self, f: &mut core::fmt::Formatter<'_>) -> core::fmt::Result {
    write!(f, "<{:>3}|{}>", self.0, "z") } }
#[derive(Clone, Default, PartialEq)] pub struct Edge(pub &'static str);
impl core::fmt::Debug for Edge { fn fmt(&self, f: &mut core::fmt::Formatter<'_>) -> core::fmt::Result { f.write_str(self.0) } }
pub struct Heap;
pub trait Storage<T> { type Of; }
impl<T> Storage<T> for Heap { type Of = Vec<T>; }
pub trait Family { type Of<B>; }
impl Family for Heap { type Of<B> = Option<B>; }
pub trait Plain { type Out; }
impl<T> Plain for Vec<T> { type Out = (T, u8); }
pub trait HasAssoc { type Assoc; }
impl HasAssoc for i32 { type Assoc = u8; }
impl HasAssoc for String { type Assoc = bool; }
#[derive(Clone, Default, PartialEq)] pub struct Fail;
impl core::fmt::Debug for Fail { fn fmt(&self, f: &mut core::fmt::Formatter<'_>) -> core::fmt::Result {
    f.write_str("F")?; Err(core::fmt::Error) } }
'''


class Leaves:
    """global table of leaf values: id -> (leaf type key, rust expr)"""

    def __init__(self):
        self.items = []
        self.index = {}

    def get(self, key, expr):
        k = (key, expr)
        if k not in self.index:
            self.index[k] = len(self.items)
            self.items.append(k)
        return self.index[k]


# ------------------------------------------------------------------ identifiers / types / values -> Rust

RAW_NAMES = ["struct", "fn", "type", "enum", "match", "loop", "mod", "trait"]


def id_rs(i):
    return ("r#" if i["raw"] else "") + i["n"]


def id_coq(i):
    return "(mkid %s %s)" % ("true" if i["raw"] else "false", coq_str(i["n"]))


# kind -> (rust text with {P} for the parameter / concrete type, underlying type as a function of the argument)
QPATHS = {
    "trait-arg": ("<crate::Heap as crate::Storage<{P}>>::Of", lambda a: ["vec", a]),        # parameter only in the trait's arguments
    "gat-arg": ("<crate::Heap as crate::Family>::Of<{P}>", lambda a: ["opt", a]),           # only in the associated type's arguments
    "self-ty": ("<Vec<{P}> as crate::Plain>::Out", lambda a: ["tup", [a, ["leaf", "u8"]]]), # only in the self type
}
ASSOC_OF = {"i32": "u8", "String": "bool"}       # impl HasAssoc for ...


def qpath_underlying(t):
    return QPATHS[t[1]][1](t[2])


def ty_rs(case, t):
    k = t[0]
    if k == "qpath":
        return QPATHS[t[1]][0].replace("{P}", ty_rs(case, t[2]))
    if k == "assoc":
        return "%s::Assoc" % t[1]
    if k == "leaf":
        return LEAF_TYPES[t[1]][0]
    if k == "opt":
        return "Option<%s>" % ty_rs(case, t[1])
    if k == "vec":
        return "Vec<%s>" % ty_rs(case, t[1])
    if k == "box":
        return "Box<%s>" % ty_rs(case, t[1])
    if k == "ref":
        return "&'static %s" % ty_rs(case, t[1])
    if k == "arr":
        return "[%s; %d]" % (ty_rs(case, t[1]), t[2])
    if k == "tup":
        return "(" + "".join(ty_rs(case, x) + ", " for x in t[1]) + ")"
    if k == "param":
        return t[1]
    if k == "lref":
        return "&%s %s" % (t[1], ty_rs(case, t[2]))
    if k == "carr":
        return "[%s; %s]" % (ty_rs(case, t[1]), t[2])
    if k == "adt":
        it = case["items"][t[1]]
        g = it.get("generics") or {}
        args = ["'static" for _ in g.get("lts", [])] + [ty_rs(case, x) for x in t[2]] + [str(v) for (_, v) in g.get("consts", [])]
        return id_rs(it["name"]) + ("<" + ", ".join(args) + ">" if args else "")
    raise ValueError(t)


def val_rs(case, leaves, v):
    k = v[0]
    if k == "leaf":
        return leaves.items[v[1]][1]
    if k == "some":
        return "Some(%s)" % val_rs(case, leaves, v[1])
    if k == "none":
        return "None"
    if k == "vec":
        return "vec![" + ", ".join(val_rs(case, leaves, x) for x in v[1]) + "]"
    if k == "arr":
        return "[" + ", ".join(val_rs(case, leaves, x) for x in v[1]) + "]"
    if k == "box":
        return "Box::new(%s)" % val_rs(case, leaves, v[1])
    if k == "ref":
        return "&*Box::leak(Box::new(%s))" % val_rs(case, leaves, v[1])
    if k == "tup":
        return "(" + "".join(val_rs(case, leaves, x) + ", " for x in v[1]) + ")"
    if k == "adt":
        it = case["items"][v[1]]
        if it["kind"] == "struct":
            path, fs = id_rs(it["name"]), it["fields"]
        else:
            var = it["variants"][v[2]]
            path, fs = id_rs(it["name"]) + "::" + id_rs(var["name"]), var["fields"]
        if fs["kind"] == "unit":
            return path
        if fs["kind"] == "tuple":
            return path + "(" + ", ".join(val_rs(case, leaves, x) for x in v[3]) + ")"
        return path + " { " + ", ".join("%s: %s" % (id_rs(f["name"]), val_rs(case, leaves, x))
                                        for f, x in zip(fs["list"], v[3])) + " }"
    raise ValueError(v)


def rust_lit(s):
    out = ['"']
    for c in s:
        o = ord(c)
        if c in '"\\':
            out.append("\\" + c)
        elif c == "\n":
            out.append("\\n")
        elif 0x20 <= o < 0x7f:
            out.append(c)
        else:
            out.append("\\u{%x}" % o)
    out.append('"')
    return "".join(out)


def binding(fs, i):
    """the name generate_body / expand_struct binds field i to"""
    return "_%d" % i if fs["kind"] == "tuple" else id_rs(fs["list"][i]["name"])


def fmt_literal(fs, pieces):
    """(format literal text, [extra argument expressions]) of a field-level attribute.
    placeholder reference kinds: inline `{_0:..}` / `{name:..}`; pos `{:..}` + positional argument;
    index `{0:..}` + positional argument (single-placeholder literals only); named `{v0:..}` + `v0 = field`"""
    lit = ""
    args = []
    named = []
    for (l, k, ref) in pieces["parts"]:
        lit += l.replace("{", "{{").replace("}", "}}")
        sp, tr = ARGSPECS[k]
        st = spec_rust(sp, tr)
        st = ":" + st if st else ""
        b = binding(fs, ref[1])
        kind = ref[0]
        if kind == "inline" and b.startswith("r#"):
            kind = "pos"
        if kind == "inline":
            lit += "{" + b + st + "}"
        elif kind == "named":
            nm = "v%d" % len(named)
            lit += "{" + nm + st + "}"
            named.append("%s = %s" % (nm, b))
        elif kind == "index":
            assert len(pieces["parts"]) == 1
            lit += "{0" + st + "}"
            args.append(b)
        else:
            lit += "{" + st + "}"
            args.append(b)
    lit += pieces["tail"].replace("{", "{{").replace("}", "}}")
    return lit, args + named


def fmt_attr_tokens(fs, pieces):
    lit, args = fmt_literal(fs, pieces)
    return rust_lit(lit) + "".join(", " + a for a in args)


def has_attrs(fs):
    return any(f["attr"] is not None for f in fs["list"])


def item_has_attrs(it):
    if it["kind"] == "struct":
        return has_attrs(it["fields"])
    return any(has_attrs(v["fields"]) for v in it["variants"])


def fields_rs(case, fs, with_attrs, vis=""):
    def attr(f):
        a = f["attr"]
        if not with_attrs or a is None:
            return ""
        if a[0] in ("skip", "ignore"):
            return "#[debug(%s)] " % a[0]
        return "#[debug(%s)] " % fmt_attr_tokens(fs, a[1])
    if fs["kind"] == "unit":
        return ""
    if fs["kind"] == "tuple":
        return "(" + ", ".join(attr(f) + vis + ty_rs(case, f["ty"]) for f in fs["list"]) + ")"
    return " { " + ", ".join(attr(f) + vis + id_rs(f["name"]) + ": " + ty_rs(case, f["ty"]) for f in fs["list"]) + " }"


def generics_rs(it, decl=True, extra_bound=None):
    """`<'a, T: Clone, U, const N: usize>` (declaration) or `<'a, T, U, N>` (use)"""
    g = it.get("generics") or {}
    out = list(g.get("lts", []))
    for p in it["params"]:
        bs = list(g.get("inline", {}).get(p, [])) if decl else []
        if decl and extra_bound:
            bs = [extra_bound] + bs
        out.append(p + (": " + " + ".join(bs) if bs else ""))
    for (n, _) in g.get("consts", []):
        out.append("const %s: usize" % n if decl else n)
    return "<" + ", ".join(out) + ">" if out else ""


def where_rs(it):
    w = (it.get("generics") or {}).get("where", [])
    return " where " + ", ".join(w) if w else ""


def item_rs(case, it, with_attrs, derive=True):
    g = generics_rs(it)
    w = where_rs(it)
    d = "#[derive(Debug)] " if derive else ""
    if it["kind"] == "struct":
        fs = it["fields"]
        body = fields_rs(case, fs, with_attrs, "pub ")
        if fs["kind"] == "named":
            return "%spub struct %s%s%s%s" % (d, id_rs(it["name"]), g, w, body)
        return "%spub struct %s%s%s%s;" % (d, id_rs(it["name"]), g, body, w)
    vs = ", ".join(id_rs(v["name"]) + fields_rs(case, v["fields"], with_attrs) for v in it["variants"])
    return "%spub enum %s%s%s { %s }" % (d, id_rs(it["name"]), g, w, vs)


def handwritten_chain(fs, name_str):
    """std builder code equivalent to what the attributes ask for (the oracle for attribute cases)"""
    if fs["kind"] == "unit":
        return "f.write_str(%s)" % rust_lit(name_str)
    b = "f.debug_tuple(%s)" % rust_lit(name_str) if fs["kind"] == "tuple" else "f.debug_struct(%s)" % rust_lit(name_str)
    skipped = False
    for i, fl in enumerate(fs["list"]):
        a = fl["attr"]
        if a is not None and a[0] in ("skip", "ignore"):
            skipped = True
            continue
        if a is None:
            val = "&" + binding(fs, i)
        else:
            lit, args = fmt_literal(fs, a[1])
            val = "&format_args!(%s%s)" % (rust_lit(lit), "".join(", " + x for x in args))
        if fs["kind"] == "tuple":
            b += ".field(%s)" % val
        else:
            b += ".field(%s, %s)" % (rust_lit(fl["name"]["n"]), val)
    return b + (".finish_non_exhaustive()" if skipped else ".finish()")


def handwritten_impl(case, it):
    g = generics_rs(it, True, "core::fmt::Debug")
    head = "impl%s core::fmt::Debug for %s%s%s { fn fmt(&self, f: &mut core::fmt::Formatter<'_>) -> core::fmt::Result { " % (
        g, id_rs(it["name"]), generics_rs(it, False), where_rs(it))
    if it["kind"] == "struct":
        fs = it["fields"]
        lets = "".join("let %s = &self.%s; " % (binding(fs, i), str(i) if fs["kind"] == "tuple" else id_rs(f["name"]))
                       for i, f in enumerate(fs["list"]))
        return head + lets + handwritten_chain(fs, it["name"]["n"]) + " } }"
    arms = ""
    for v in it["variants"]:
        fs = v["fields"]
        if fs["kind"] == "unit":
            pat = ""
        elif fs["kind"] == "tuple":
            pat = "(" + ", ".join(binding(fs, i) for i in range(len(fs["list"]))) + ")"
        else:
            pat = " { " + ", ".join(binding(fs, i) for i in range(len(fs["list"]))) + " }"
        arms += "Self::%s%s => { %s } " % (id_rs(v["name"]), pat, handwritten_chain(fs, v["name"]["n"]))
    return head + "match self { " + arms + "} } }"


def case_module(case, cid, leaves, flavour):
    """Rust source of `mod c<cid>` for one flavour ('dm' | 'sd')"""
    out = ["pub mod c%d {" % cid, "    #![allow(warnings)]"]
    if flavour == "dm":
        out.append("    use derive_more::Debug;")
    for it in case["items"]:
        if flavour == "sd" and item_has_attrs(it):
            out.append("    " + item_rs(case, it, False, derive=False))
            out.append("    " + handwritten_impl(case, it))
        else:
            out.append("    " + item_rs(case, it, flavour == "dm"))
    out.append("    pub fn run(out: &mut Vec<(String, usize, String)>) {")
    for vi, vv in enumerate(case["values"]):
        out.append("        { let v: %s = %s; crate::obs!(out, \"%s\\t%d\\t%d\", v); }" % (
            ty_rs(case, vv["ty"]), val_rs(case, leaves, vv["v"]), flavour, cid, vi))
    out.append("    }")
    out.append("}")
    return "\n".join(out)


def main_rs(cases, leaves):
    """the whole generated crate"""
    o = ["#![allow(warnings)]", LEAF_RS,
         "pub fn w(a: core::fmt::Arguments<'_>) -> String { let mut s = String::new(); "
         "if core::fmt::write(&mut s, a).is_err() { s.push_str(\"\\u{1}ERR\"); } s }",
         "pub fn esc(s: &str) -> String { let mut o = String::new(); for c in s.chars() { match c { "
         "'\\\\' => o.push_str(\"\\\\\\\\\"), '\\n' => o.push_str(\"\\\\n\"), '\\t' => o.push_str(\"\\\\t\"), "
         "'\\r' => o.push_str(\"\\\\r\"), c => o.push(c) } } o }",
         "#[macro_export] macro_rules! obs { ($out:expr, $tag:expr, $v:expr) => {{"]
    for k, t in enumerate(TOP_TXT):
        o.append("    $out.push((String::from($tag), %d, crate::w(format_args!(\"%s\", $v))));" % (k, t))
    o.append("}} }")
    o.append("pub mod dm {")
    for cid, c in enumerate(cases):
        o.append(case_module(c, cid, leaves, "dm"))
    o.append("}")
    o.append("pub mod sd {")
    for cid, c in enumerate(cases):
        o.append(case_module(c, cid, leaves, "sd"))
    o.append("}")
    o.append("fn main() {")
    o.append("    let mut out: Vec<(String, usize, String)> = Vec::new();")
    for cid in range(len(cases)):
        o.append("    dm::c%d::run(&mut out); sd::c%d::run(&mut out);" % (cid, cid))
    o.append("    for (tag, k, s) in &out { println!(\"V\\t{}\\t{}\\t{}\", tag, k, esc(s)); }")
    o.append("    let mut lv: Vec<(usize, &'static str, usize, String)> = Vec::new();")
    for lid, (key, expr) in enumerate(leaves.items):
        for tr in ["Debug"] + LEAF_TYPES[key][2]:
            for k, sp in enumerate(CFGS[tr]):
                o.append("    lv.push((%d, \"%s\", %d, w(format_args!(\"{:%s}\", %s))));" % (
                    lid, tr, k, spec_rust(sp, tr), expr))
    o.append("    for (l, t, k, s) in &lv { println!(\"L\\t{}\\t{}\\t{}\\t{}\", l, t, k, esc(s)); }")
    o.append("}")
    return "\n".join(o) + "\n"


def unesc(s):
    out = []
    i = 0
    while i < len(s):
        if s[i] == "\\" and i + 1 < len(s):
            out.append({"\\": "\\", "n": "\n", "t": "\t", "r": "\r"}[s[i + 1]])
            i += 2
        else:
            out.append(s[i])
            i += 1
    return "".join(out)


# ------------------------------------------------------------------ -> Coq (Verif.C06.Model)

def clist(xs):
    """a Coq list without the [ ; ] notation (nested list notations elaborate exponentially slowly)"""
    xs = list(xs)
    return "(" + "".join("cons %s (" % x for x in xs) + "nil" + ")" * len(xs) + ")"


def fields_coq(fs):
    def attr(f, counter):
        a = f["attr"]
        if a is None:
            return "ANone"
        if a[0] in ("skip", "ignore"):
            return "ASkip"
        counter[0] += 1
        return "(AFmt %d)" % (counter[0] - 1)
    c = [0]
    if fs["kind"] == "unit":
        return "FUnit"
    if fs["kind"] == "tuple":
        return "(FUnnamed %s)" % clist(attr(f, c) for f in fs["list"])
    return "(FNamed %s)" % clist("(%s, %s)" % (id_coq(f["name"]), attr(f, c)) for f in fs["list"])


def expansion_coq(name, fs):
    return "(mkexp %s %s)" % (id_coq(name), fields_coq(fs))


def leaf_coq(leaves, lid, trait):
    key = leaves.items[lid][0]
    return "(VLeaf (%s LT%d_%s nil))" % ("leaf_table_err" if key == "Fail" else "leaf_table", lid, trait)


def val_coq(case, leaves, v, fl, sites):
    """Coq [val] of value tree v in flavour fl ('dm' with the given name sites | 'sd')"""
    k = v[0]
    rec = lambda x: val_coq(case, leaves, x, fl, sites)
    if k == "leaf":
        return leaf_coq(leaves, v[1], "Debug")
    if k == "some":
        return "(VTuple Std %s %s true)" % (coq_str("Some"), clist([rec(v[1])]))
    if k == "none":
        return "(VUnit %s)" % coq_str("None")
    if k in ("vec", "arr"):
        return "(VList %s)" % clist(rec(x) for x in v[1])
    if k in ("box", "ref"):
        return rec(v[1])
    if k == "tup":
        return "(VTuple Std nil %s true)" % clist(rec(x) for x in v[1])
    assert k == "adt"
    it = case["items"][v[1]]
    if it["kind"] == "struct":
        name, fs = it["name"], it["fields"]
    else:
        name, fs = it["variants"][v[2]]["name"], it["variants"][v[2]]["fields"]
    kids = [rec(x) for x in v[3]]

    def args_val(i):
        a = fs["list"][i]["attr"]
        if a is None or a[0] != "fmt":
            return "(VUnit nil)"
        parts = []
        for (l, kk, ref) in a[1]["parts"]:
            sp, tr = ARGSPECS[kk]
            if tr == "Debug":
                x = kids[ref[1]]
            else:
                fv = v[3][ref[1]]
                assert fv[0] == "leaf"
                x = leaf_coq(leaves, fv[1], tr)
            parts.append("(%s, %s, %s)" % (coq_str(l), spec_coq(sp), x))
        return "(VArgs %s %s)" % (clist(parts), coq_str(a[1]["tail"]))

    if fl == "dm" or not has_attrs(fs):
        body = ("(generate_body %s %s)" % (sites, expansion_coq(name, fs)) if fl == "dm"
                else "(std_derive_body %s)" % expansion_coq(name, fs))
        return "(body_val (nth_val %s) (fun i _ => nth_val %s i) %s)" % (
            clist(kids), clist(args_val(i) for i in range(len(kids))), body)
    # the hand-written std impl (python's own reading of the attributes: the oracle side)
    printed = []
    skipped = False
    for i, f in enumerate(fs["list"]):
        a = f["attr"]
        if a is not None and a[0] in ("skip", "ignore"):
            skipped = True
            continue
        x = kids[i] if a is None else args_val(i)
        printed.append(x if fs["kind"] == "tuple" else "(%s, %s)" % (coq_str(f["name"]["n"]), x))
    if fs["kind"] == "tuple":
        return "(VTuple Std %s %s %s)" % (coq_str(name["n"]), clist(printed), "false" if skipped else "true")
    return "(VNamed %s %s %s)" % (coq_str(name["n"]), clist(printed), "false" if skipped else "true")


def value_has_raw(case, v):
    k = v[0]
    if k in ("leaf", "none"):
        return False
    if k in ("some", "box", "ref"):
        return value_has_raw(case, v[1])
    if k in ("vec", "arr", "tup"):
        return any(value_has_raw(case, x) for x in v[1])
    it = case["items"][v[1]]
    if it["kind"] == "struct":
        name, fs = it["name"], it["fields"]
    else:
        name, fs = it["variants"][v[2]]["name"], it["variants"][v[2]]["fields"]
    if name["raw"] or any(f.get("name") and f["name"]["raw"] for f in fs["list"]):
        return True
    return any(value_has_raw(case, x) for x in v[3])


def value_root_kind(case, v):
    if v[0] != "adt":
        return v[0]
    it = case["items"][v[1]]
    fs = it["fields"] if it["kind"] == "struct" else it["variants"][v[2]]["fields"]
    return fs["kind"]


def value_printed_fields(case, v):
    """number of builder fields printed anywhere in the value (non-trivial iff > 0)"""
    k = v[0]
    if k in ("leaf", "none"):
        return 0
    if k in ("some", "box", "ref"):
        return value_printed_fields(case, v[1])
    if k in ("vec", "arr", "tup"):
        return sum(value_printed_fields(case, x) for x in v[1])
    it = case["items"][v[1]]
    fs = it["fields"] if it["kind"] == "struct" else it["variants"][v[2]]["fields"]
    n = sum(1 for f in fs["list"] if not (f["attr"] and f["attr"][0] in ("skip", "ignore")))
    return n + sum(value_printed_fields(case, x) for x in v[3])


# ------------------------------------------------------------------ generators

def ident(n, raw=False):
    return {"n": n, "raw": raw}


class Gen:
    def __init__(self, rng, leaves):
        self.rng = rng
        self.leaves = leaves

    # ---- types
    def leaf_ty(self, odd=0.15):
        r = self.rng
        return ["leaf", r.choice(ODD_LEAVES) if r.random() < odd else r.choice(COMMON_LEAVES)]

    def ty(self, case, depth, adts, params=(), p_adt=0.5):
        """a random type; adts = indices of items usable here"""
        r = self.rng
        x = r.random()
        if params and x < 0.25:
            return ["param", r.choice(list(params))]
        if adts and x < p_adt:
            i = r.choice(adts)
            it = case["items"][i]
            return ["adt", i, [self.ty(case, 0, [j for j in adts if j < i], (), 0.3) for _ in it["params"]]]
        if depth > 0 and x < 0.8:
            k = r.choice(["opt", "vec", "tup", "arr", "box", "ref", "vec", "opt", "tup"])
            if k == "ref" and params:
                k = "box"       # `&'static T` would need `T: 'static` on the item
            if k == "tup":
                return ["tup", [self.ty(case, depth - 1, adts, params, p_adt) for _ in range(r.randrange(1, 4))]]
            if k == "arr":
                return ["arr", self.ty(case, depth - 1, adts, params, p_adt), r.randrange(0, 3)]
            return [k, self.ty(case, depth - 1, adts, params, p_adt)]
        return self.leaf_ty()

    # ---- values
    def value(self, case, t, env=None):
        r = self.rng
        k = t[0]
        if k == "leaf":
            key = t[1]
            return ["leaf", self.leaves.get(key, r.choice(LEAF_TYPES[key][1]))]
        if k == "param":
            return self.value(case, env[t[1]], None)
        if k == "opt":
            return ["none"] if r.random() < 0.25 else ["some", self.value(case, t[1], env)]
        if k == "vec":
            return ["vec", [self.value(case, t[1], env) for _ in range(r.choice([0, 1, 2, 2, 3]))]]
        if k == "arr":
            return ["arr", [self.value(case, t[1], env) for _ in range(t[2])]]
        if k in ("box", "ref"):
            return [k, self.value(case, t[1], env)]
        if k == "qpath":
            return self.value(case, qpath_underlying(t), env)
        if k == "assoc":
            return self.value(case, ["leaf", ASSOC_OF[env[t[1]][1]]], None)
        if k == "lref":
            return ["ref", self.value(case, t[2], env)]
        if k == "carr":
            return ["arr", [self.value(case, t[1], env) for _ in range(t[3])]]
        if k == "tup":
            return ["tup", [self.value(case, x, env) for x in t[1]]]
        assert k == "adt"
        it = case["items"][t[1]]
        sub = {p: self.subst(a, env) for p, a in zip(it["params"], t[2])}
        if it["kind"] == "struct":
            return ["adt", t[1], -1, [self.value(case, f["ty"], sub) for f in it["fields"]["list"]]]
        vi = r.randrange(len(it["variants"]))
        return ["adt", t[1], vi, [self.value(case, f["ty"], sub) for f in it["variants"][vi]["fields"]["list"]]]

    def subst(self, t, env):
        if not env:
            return t
        k = t[0]
        if k == "param":
            return env[t[1]]
        if k in ("opt", "vec", "box", "ref"):
            return [k, self.subst(t[1], env)]
        if k == "arr":
            return ["arr", self.subst(t[1], env), t[2]]
        if k == "qpath":
            return ["qpath", t[1], self.subst(t[2], env)]
        if k == "assoc":
            return ["leaf", ASSOC_OF[env[t[1]][1]]]
        if k == "lref":
            return ["lref", t[1], self.subst(t[2], env)]
        if k == "carr":
            return ["carr", self.subst(t[1], env), t[2], t[3]]
        if k == "tup":
            return ["tup", [self.subst(x, env) for x in t[1]]]
        if k == "adt":
            return ["adt", t[1], [self.subst(x, env) for x in t[2]]]
        return t

    def all_variant_values(self, case, t):
        """one value per variant of the root enum (or one value for a struct)"""
        it = case["items"][t[1]]
        if it["kind"] == "struct":
            return [self.value(case, t)]
        sub = {p: a for p, a in zip(it["params"], t[2])}
        return [["adt", t[1], vi, [self.value(case, f["ty"], sub) for f in v["fields"]["list"]]]
                for vi, v in enumerate(it["variants"])]

    # ---- fields / items
    def field_names(self, n, raw_p=0.0):
        r = self.rng
        pool = ["a", "b", "c", "d", "long_name", "x1"] + ["g%d" % k for k in range(max(0, n - 6))]
        raws = r.sample(RAW_NAMES, len(RAW_NAMES))
        out = []
        for i in range(n):
            if r.random() < raw_p:
                out.append(ident(raws[i % len(raws)], True) if i < len(raws) else ident(pool[i]))
            else:
                out.append(ident(pool[i]))
        return out

    def fields(self, case, kind, n, adts, params=(), depth=1, raw_p=0.0, p_adt=0.5, must_use=()):
        fl = []
        names = self.field_names(n, raw_p) if kind == "named" else [None] * n
        for i in range(n):
            t = ["param", must_use[i]] if i < len(must_use) else self.ty(case, depth, adts, params, p_adt)
            fl.append({"name": names[i], "ty": t, "attr": None})
        return {"kind": kind, "list": fl}

    def add_attrs(self, fs, p_skip=0.35, p_fmt=0.25):
        """decorate fields with skip/ignore/format attributes (non-generic items only)"""
        r = self.rng
        n = len(fs["list"])
        for i, f in enumerate(fs["list"]):
            x = r.random()
            if x < p_skip:
                f["attr"] = [r.choice(["skip", "ignore"])]
            elif x < p_skip + p_fmt:
                f["attr"] = ["fmt", self.pieces(fs, i)]
        return fs

    def pieces(self, fs, i):
        r = self.rng
        n = len(fs["list"])
        parts = []
        for _ in range(r.randrange(0, 4)):
            j = i if r.random() < 0.5 else r.randrange(n)
            t = fs["list"][j]["ty"]
            ok = [k for k, (sp, tr) in enumerate(ARGSPECS)
                  if tr == "Debug" or (t[0] == "leaf" and tr in LEAF_TYPES[t[1]][2])]
            k = r.choice(ok)
            parts.append([r.choice(["", "<", " = ", "{x}", "l\n"]), k, [r.choice(["inline", "pos", "named"]), j]])
        return {"parts": parts, "tail": r.choice(["", ">", " end", "}"])}

    def arg_specs_for(self, t):
        return [k for k, (sp, tr) in enumerate(ARGSPECS)
                if tr == "Debug" or (t[0] == "leaf" and tr in LEAF_TYPES[t[1]][2])]

    def bare_pieces(self, fs, i, p_plain=0.6):
        """a literal that is exactly one placeholder (no text): `{_0:?}`, `{:?}` + one argument, `{name:?}`,
        `{0:?}`, `{v0:?}` + `v0 = field`; mostly the plain `{:?}`, otherwise any spec/trait the field supports"""
        r = self.rng
        n = len(fs["list"])
        j = i if r.random() < 0.8 else r.randrange(n)
        ok = self.arg_specs_for(fs["list"][j]["ty"])
        k = BARE_DEBUG if r.random() < p_plain else r.choice(ok)
        return {"parts": [["", k, [r.choice(["inline", "pos", "index", "named"]), j]]], "tail": ""}

    def struct(self, case, name, kind, n, adts, params=(), **kw):
        nparams = [p for p in params]
        fs = self.fields(case, kind, n, adts, nparams, must_use=nparams[:n], **kw) if kind != "unit" else {"kind": "unit", "list": []}
        used = nparams if kind != "unit" and n >= len(nparams) else []
        return {"kind": "struct", "name": name, "params": list(used), "fields": fs}

    def enum(self, case, name, shapes, adts, params=(), raw_variants=0.0, **kw):
        r = self.rng
        vs = []
        raws = r.sample(RAW_NAMES, len(RAW_NAMES))
        need = list(params)
        for i, (kind, n) in enumerate(shapes):
            vn = ident(raws[i % len(raws)], True) if r.random() < raw_variants else ident("V%d" % i)
            if kind == "unit":
                fs = {"kind": "unit", "list": []}
            else:
                mu = need[:n]
                need = need[len(mu):]
                fs = self.fields(case, kind, n, adts, params, must_use=mu, **kw)
            vs.append({"name": vn, "fields": fs})
        assert not need
        return {"kind": "enum", "name": name, "params": list(params), "variants": vs}


def canon(case):
    import json
    return json.dumps(case, sort_keys=True)


def value_has_fmt_attr(case, v):
    """does formatting v reach a struct/variant carrying a field-level format attribute?"""
    k = v[0]
    if k in ("leaf", "none"):
        return False
    if k in ("some", "box", "ref"):
        return value_has_fmt_attr(case, v[1])
    if k in ("vec", "arr", "tup"):
        return any(value_has_fmt_attr(case, x) for x in v[1])
    it = case["items"][v[1]]
    fs = it["fields"] if it["kind"] == "struct" else it["variants"][v[2]]["fields"]
    if any(f["attr"] and f["attr"][0] == "fmt" for f in fs["list"]):
        return True
    return any(value_has_fmt_attr(case, x) for x in v[3])


# ------------------------------------------------------------------ programs (Model.dval), bounds

def dval_coq(case, leaves, v):
    """Coq [dval] of a value tree: flavour-independent; Model.dm_val / Model.std_val give the two sides"""
    k = v[0]
    rec = lambda x: dval_coq(case, leaves, x)
    if k == "leaf":
        key = leaves.items[v[1]][0]
        return "(DLeaf (%s LT%d_Debug nil))" % ("leaf_table_err" if key == "Fail" else "leaf_table", v[1])
    if k == "some":
        return "(DStd %s %s)" % (coq_str("Some"), clist([rec(v[1])]))
    if k == "none":
        return "(DName %s)" % coq_str("None")
    if k in ("vec", "arr"):
        return "(DList %s)" % clist(rec(x) for x in v[1])
    if k in ("box", "ref"):
        return rec(v[1])
    if k == "tup":
        return "(DStd nil %s)" % clist(rec(x) for x in v[1])
    assert k == "adt"
    it = case["items"][v[1]]
    if it["kind"] == "struct":
        name, fs = it["name"], it["fields"]
    else:
        name, fs = it["variants"][v[2]]["name"], it["variants"][v[2]]["fields"]
    kids = [rec(x) for x in v[3]]

    def farg(i):
        a = fs["list"][i]["attr"]
        if a is None or a[0] != "fmt":
            return "(DName nil)"
        parts = []
        for (l, kk, ref) in a[1]["parts"]:
            sp, tr = ARGSPECS[kk]
            if tr == "Debug":
                x = kids[ref[1]]
            else:
                fv = v[3][ref[1]]
                assert fv[0] == "leaf"
                x = "(DLeaf (leaf_table LT%d_%s nil))" % (fv[1], tr)
            parts.append("(%s, %s, %s)" % (coq_str(l), spec_coq(sp), x))
        return "(DArgs %s %s)" % (clist(parts), coq_str(a[1]["tail"]))

    return "(DAdt %s %s %s)" % (expansion_coq(name, fs), clist(kids), clist(farg(i) for i in range(len(kids))))


def ty_generic(t):
    """does the type mention a type parameter (what contains_generics decides for these shapes)"""
    k = t[0]
    if k == "param":
        return True
    if k in ("opt", "vec", "box", "ref", "arr", "carr"):
        return ty_generic(t[1])        # a const parameter ([u8; N]) is not a type parameter
    if k == "lref":
        return ty_generic(t[2])        # nor is a lifetime
    if k == "qpath":
        return ty_generic(t[2])        # wherever the parameter sits: trait arguments, GAT arguments, self type
    if k == "assoc":
        return True                    # T::Assoc
    if k == "tup":
        return any(ty_generic(x) for x in t[1])
    if k == "adt":
        return any(ty_generic(x) for x in t[2])
    return False


TRAIT_COQ = {"Debug": "TrDebug", "Display": "TrDisplay", "LowerHex": "TrLowerHex"}


def bounds_coq(name, fs, case=None, params=None):
    """Gallina call of Model.generate_bounds for one struct / variant; [generic j] is Model.contains_generics on the
    field's type (rendered as Model.sty) when the case is given"""
    if case is not None:
        ps = "[%s]" % "; ".join(coq_str(p_) for p_ in (params or []))
        flags = "; ".join("contains_generics %s %s" % (ps, sty_coq(case, f["ty"])) for f in fs["list"])
    else:
        flags = "; ".join("true" if ty_generic(f["ty"]) else "false" for f in fs["list"])
    refs = []
    for f in fs["list"]:
        a = f["attr"]
        if a and a[0] == "fmt":
            refs.append("[" + "; ".join("(%d%%nat, %s)" % (ref[1], TRAIT_COQ[ARGSPECS[k][1]]) for (_, k, ref) in a[1]["parts"]) + "]")
        else:
            refs.append("[]")
    return "generate_bounds (fun j => nth j [%s] false) (fun i _ => nth i [%s] []) %s" % (
        flags, "; ".join(refs), expansion_coq(name, fs))


def item_where_coq(it, case=None):
    """Gallina: the where clause of the impl emitted for the item (user predicates, then the inferred bounds)"""
    units = [(it["name"], it["fields"])] if it["kind"] == "struct" else [(v["name"], v["fields"]) for v in it["variants"]]
    n_user = len((it.get("generics") or {}).get("where", []))
    return "impl_where_clause %d%%nat (enum_bounds %s)" % (n_user, clist("(" + bounds_coq(n, fs, case, it["params"]) + ")" for (n, fs) in units))


# ------------------------------------------------------------------ types as Model.sty (for Model.contains_generics)

def _path_sty(text, args=None):
    segs = text.split("::")
    out = ["(%s, nil)" % coq_str(x) for x in segs[:-1]]
    out.append("(%s, %s)" % (coq_str(segs[-1]), clist(args or [])))
    return "(SPath None %s)" % clist(out)


def sty_coq(case, t):
    k = t[0]
    rec = lambda x: sty_coq(case, x)
    if k == "leaf":
        txt = LEAF_TYPES[t[1]][0]
        if txt == "()":
            return "(STuple nil)"
        if txt.startswith("&'static "):
            return "(SElem %s)" % _path_sty(txt[len("&'static "):])
        return _path_sty(txt)
    if k == "param":
        return _path_sty(t[1])
    if k == "opt":
        return _path_sty("Option", [rec(t[1])])
    if k == "vec":
        return _path_sty("Vec", [rec(t[1])])
    if k == "box":
        return _path_sty("Box", [rec(t[1])])
    if k in ("ref", "arr", "carr"):
        return "(SElem %s)" % rec(t[1])
    if k == "lref":
        return "(SElem %s)" % rec(t[2])
    if k == "tup":
        return "(STuple %s)" % clist(rec(x) for x in t[1])
    if k == "adt":
        return _path_sty(case["items"][t[1]]["name"]["n"], [rec(x) for x in t[2]])
    if k == "assoc":
        return "(SPath None %s)" % clist(["(%s, nil)" % coq_str(t[1]), "(%s, nil)" % coq_str("Assoc")])
    if k == "qpath":
        a = rec(t[2])
        heap = _path_sty("crate::Heap")
        seg = lambda name, args: "(%s, %s)" % (coq_str(name), clist(args))
        if t[1] == "trait-arg":
            return "(SPath (Some %s) %s)" % (heap, clist([seg("crate", []), seg("Storage", [a]), seg("Of", [])]))
        if t[1] == "gat-arg":
            return "(SPath (Some %s) %s)" % (heap, clist([seg("crate", []), seg("Family", []), seg("Of", [a])]))
        return "(SPath (Some %s) %s)" % (_path_sty("Vec", [a]), clist([seg("crate", []), seg("Plain", []), seg("Out", [])]))
    raise ValueError(t)
