"""Decision-level tie for the Display-like derives and Debug: the Coq model of coq/theories/Fmt/Model.v vs the
real expanders (in-process), on generated items.  Shared by C02/C04/C05/C07."""
import re

from . import common
from .common import coq_str, py_str
from . import fmtitems as F

ERR_CODES = [
    (1, "with more than 1 field must have"),
    (2, "implicit formatting of unit enum variant"),
    (3, "shared format `_variant` placeholder cannot contain format specifiers"),
    (4, "attribute is not allowed on enum, place it on its"),
    (5, "attributes are not allowed on fields when"),
    (6, "unions must have"),
    (7, "cannot be derived for unions"),
    (8, "legacy syntax, remove `fmt =`"),
    (9, "legacy syntax, use `bound("),
    (11, "(rename_all=\"...\")]` attributes aren't allowed"),
    (10, "(\"...\", ...)]` attributes aren't allowed"),
    (12, "unexpected casing"),
    (14, "(skip)]`/`#["),
    (16, "only single kind of `#["),
    (15, "(...)]` attribute is allowed here"),
    # syntax-level refusals of one attribute's content by the attribute parsers (all one class in the model)
    (13, "expected one of: string literal, `bounds`, `bound`, `where`, `rename_all`"),
    (13, "unknown attribute argument, expected `bound(...)`"),
    (13, "expected string literal"),
    (13, "expected identifier, found keyword `where`"),
    (13, "expected attribute arguments in parentheses"),
    (13, "expected parentheses: #["),
    (13, "unexpected end of input"),
]


def err_code(msg):
    for c, frag in ERR_CODES:
        if frag in msg:
            return c
    return ("other", msg)


# ------------------------------------------------------------------ rename_all (independent of convert_case)
words, rename, CASINGS = F.words, F.rename, F.CASINGS


# ------------------------------------------------------------------ generators

FIELD_NAMES = ["a", "b", "c", "r#type", "_0", "source", "x1"]
TYPE_NAMES = ["Foo", "FooBar", "PointXy", "r#Struct", "Xml", "OneTwoThree"]
MODS = ["", "", "", ">8", "+", "-", "#", "0", "08", ".3", "<5.2", "^", "<", "é^", "1$", "w$", ".*", ".p$", "5"]


def gen_fields(rng, params, allow_attr=False, min_fields=0):
    kind = rng.choice(["unit", "unnamed", "unnamed", "named", "named"])
    if kind == "unit" and min_fields:
        kind = "unnamed"
    fs = []
    if kind != "unit":
        n = rng.choice([0, 1, 1, 1, 2, 2, 3]) if not min_fields else rng.randrange(min_fields, 4)
        names = rng.sample(FIELD_NAMES, n)
        for i in range(n):
            fs.append({"name": names[i] if kind == "named" else None, "ty": F.gen_type(rng, params)})
    return {"kind": kind, "list": fs}


def field_idents(fs):
    return [f["name"] if f["name"] is not None else "_%d" % i for i, f in enumerate(fs["list"])]


def gen_attr(rng, fs, trait, extra_names=(), p_bare=0.35):
    """a format attribute over the fields `fs`; mostly well-formed"""
    idents = field_idents(fs)
    names = [F.unraw(i) for i in idents] + list(extra_names)
    args = []
    pieces = []
    letters = ["", "", "?", "x", "X", "o", "b", "e", "E", "p", "x?", "X?", F.TYPE_LETTER[trait]]
    n_ph = 1 if rng.random() < p_bare else rng.choice([0, 1, 1, 2, 2, 3])
    bare = rng.random() < p_bare and n_ph == 1
    npos = 0
    for k in range(n_ph):
        if not bare and rng.random() < 0.5:
            pieces.append(rng.choice(["a", " ", "{{", "}}", "é:", "-"]))
        r = rng.random()
        if r < 0.3:
            ref = ""
            npos += 1
        elif r < 0.45:
            ref = str(rng.randrange(0, 3))
        elif names:
            ref = rng.choice(names + ["al", "zz"])
        else:
            ref = ""
            npos += 1
        ws1 = " " if rng.random() < 0.08 else ""
        ty = rng.choice(letters)
        mod = "" if bare and rng.random() < 0.8 else rng.choice(MODS)
        if mod == ".*":
            npos += 1
        spec = (":" + mod + ty) if (mod or ty or rng.random() < 0.1) else ""
        pieces.append("{" + ref + ws1 + spec + ("" if rng.random() > 0.05 else " ") + "}")
        if not bare and rng.random() < 0.3:
            pieces.append(rng.choice(["z", " ", "{{", "}}"]))
    lit = "".join(pieces)
    # a placeholder naming a field that an explicit argument of the same name re-binds to a non-identifier expression
    shadow = None
    plain = [i for i in idents if not i.startswith("r#")]
    if plain and rng.random() < 0.12:
        f = rng.choice(plain)
        lit += "{%s}" % f
        shadow = (f, rng.choice(["1 + 1", "\"s\"", "%s.clone()" % rng.choice(idents), "f(a, b)"]))
    # arguments
    n_args = rng.choice([npos, npos, npos, 0, 1, 2]) if rng.random() < 0.8 else rng.randrange(0, 3)
    exprs = idents + ["%s.clone()" % i for i in idents[:1]] + ["1 + 1", "\"s\"", "self", "*self", "f(a, b)", "_variant"]
    # expressions that START with an identifier followed by `==` / `>=` / `=>`-free comparison: not `alias = value`
    exprs += ["%s == %s" % (i, rng.choice(idents)) for i in idents[:2]] + ["%s >= 1" % i for i in idents[:1]] + ["x == y"]
    for k in range(n_args):
        al = None
        if rng.random() < 0.3:
            al = rng.choice(["al", "w", "p", "zz"] + idents[:2])
            if al.startswith("r#"):
                al = "al"
        args.append((al, rng.choice(exprs if exprs else ["1"])))
    if shadow is not None:
        args.append(shadow)
    # named args must follow positional ones for format_args!, the macro itself does not care; keep both orders
    return F.mk_attr(lit, args)


def gen_wrap_field_enum(rng, idx):
    """an enum whose wrapping enum-level format names a field itself, the variants' own formats naming the same
    (generic) field under other traits: each (type, trait) pair needs its own bound"""
    trait = rng.choice(F.DISPLAY_TRAITS)
    params = rng.choice([["T"], ["T", "U"]])
    named = rng.random() < 0.4
    fld = "a" if named else "_0"
    letters = ["", "?", "x", "X", "o", "b", "e", "E"]
    lx = rng.choice(letters)
    shared = rng.choice([F.mk_attr("{_variant} (raw: {%s%s})" % (fld, ":" + lx if lx else "")),
                         F.mk_attr("{%s%s}={_variant}" % (fld, ":" + lx if lx else "")),
                         F.mk_attr("{1%s}|{0}" % (":" + lx if lx else ""), [(None, "_variant"), (None, fld)]),
                         F.mk_attr("{_variant}/{f%s}" % (":" + lx if lx else ""), [("f", fld)])])
    vs = []
    for k in range(rng.randrange(1, 4)):
        p = rng.choice(params)
        ty = rng.choice([F.t_ident(p), F.t_path([("Vec", ("angle", [F.t_ident(p)]))]), F.t_ident("i32"), F.gen_type(rng, params)])
        fl = [{"name": fld if named else None, "ty": ty}]
        if rng.random() < 0.3:
            fl.append({"name": "b" if named else None, "ty": F.gen_type(rng, params)})
        v = {"name": ["A", "Bee", "r#Cee"][k], "fields": {"kind": "named" if named else "unnamed", "list": fl}}
        if rng.random() < 0.75:
            ly = rng.choice(letters)
            v["fmt"] = rng.choice([F.mk_attr("text: {%s%s}" % (fld, ":" + ly if ly else "")),
                                   F.mk_attr("{%s}" % (":" + ly if ly else ""), [(None, fld)]),
                                   F.mk_attr("code")])
        vs.append(v)
    return {"trait": trait, "params": params, "name": rng.choice(TYPE_NAMES), "container": {"fmt": shared}, "idx": idx,
            "kind": "enum", "variants": vs}


def gen_item(rng, idx, debug=False):
    if not debug and rng.random() < 0.04:
        return gen_wrap_field_enum(rng, idx)
    trait = "Debug" if debug else (rng.choice(F.DISPLAY_TRAITS) if rng.random() < 0.5 else "Display")
    params = rng.choice([[], ["T"], ["T"], ["T", "U"]])
    name = rng.choice(TYPE_NAMES)
    it = {"trait": trait, "params": params, "name": name, "container": {}, "idx": idx}
    if rng.random() < 0.25:
        it["container"]["bounds"] = [(rng.choice(["bound", "bounds"]),
                                      rng.choice(["T: Clone", "U: core::fmt::Debug, T: Copy", "Vec<T>: Sized"]))]
        if rng.random() < 0.4:
            # a second (third) bound attribute on the same item: all of them are merged
            for extra in rng.sample(["T: Send", "U: Sync", "Option<T>: Clone", "T: core::fmt::Octal, U: Copy"], rng.choice([1, 1, 2])):
                it["container"]["bounds"].append((rng.choice(["bound", "bounds"]), extra))
    if not debug and rng.random() < 0.2:
        it["container"]["rename_all"] = rng.choice(CASINGS)
    if rng.random() < 0.04:
        it["kind"] = "union"
        fs = gen_fields(rng, params, min_fields=1)
        fs["kind"] = "named"
        for i, f in enumerate(fs["list"]):
            f["name"] = f["name"] or ["a", "b", "c"][i]
        it["fields"] = fs
        it["container"].pop("rename_all", None)
        if rng.random() < 0.7:
            it["container"]["fmt"] = gen_attr(rng, {"kind": "unit", "list": []}, trait)
    elif rng.random() < 0.5:
        it["kind"] = "struct"
        it["fields"] = gen_fields(rng, params)
        if rng.random() < (0.75 if len(it["fields"]["list"]) != 1 else 0.5):
            it["container"]["fmt"] = gen_attr(rng, it["fields"], trait)
        if debug:
            for f in it["fields"]["list"]:
                r = rng.random()
                if r < 0.2:
                    f["attr"] = rng.choice(["skip", "ignore"])
                elif r < 0.4:
                    f["attr"] = gen_attr(rng, it["fields"], "Debug", p_bare=0.1)
    else:
        it["kind"] = "enum"
        vs = []
        for k in range(rng.randrange(0, 4)):
            fs = gen_fields(rng, params)
            v = {"name": ["A", "Bee", "r#Cee", "DeltaEcho"][k], "fields": fs}
            if rng.random() < 0.45:
                v["fmt"] = gen_attr(rng, fs, trait)
            if debug:
                for f in fs["list"]:
                    r = rng.random()
                    if r < 0.2:
                        f["attr"] = rng.choice(["skip", "ignore"])
                    elif r < 0.35:
                        f["attr"] = gen_attr(rng, fs, "Debug", p_bare=0.1)
            if not debug and rng.random() < 0.15:
                v["bounds"] = [("bound", "T: Clone")]
            if not debug and rng.random() < 0.12:
                v["rename_all"] = rng.choice(CASINGS)
            vs.append(v)
        it["variants"] = vs
        if rng.random() < 0.55:
            # shared attribute: placeholders over `_variant` and field names common to the variants
            shared_fields = vs[0]["fields"] if vs and rng.random() < 0.5 else {"kind": "unit", "list": []}
            a = gen_attr(rng, shared_fields, trait, extra_names=["_variant"] * 3, p_bare=0.3)
            if rng.random() < 0.65:
                l = F.TYPE_LETTER[trait]
                own = "{_variant:%s}" % l if l else "{_variant}"
                a = rng.choice([
                    F.mk_attr("{_variant}"), F.mk_attr("<{_variant}>"), F.mk_attr("{_variant}: {}", [(None, "1 + 1")]),
                    F.mk_attr("[{}]", [(None, "_variant")]), F.mk_attr("dflt"), F.mk_attr("{_variant:?}"),
                    F.mk_attr("{_variant:>5}"), F.mk_attr("{0}", [(None, "_variant")]), F.mk_attr("{x}", [("x", "_variant")]),
                    F.mk_attr("{x} {x:?}", [("x", "_variant")]), F.mk_attr(own), F.mk_attr("{}", [(None, "_variant")]),
                    F.mk_attr("{_variant }"), F.mk_attr("{_variant}{_variant}"), F.mk_attr("{}", [(None, "1")]),
                    F.mk_attr("{_variant}", [("_variant", "1")]), F.mk_attr("{0} {_variant}", [(None, "_variant")]),
                    F.mk_attr("{}", [(None, "_variant.len()")]), F.mk_attr("{_variant:}"), F.mk_attr("{_variant:.*}", [(None, "2")]),
                    # wrapping AND naming a field itself, under a trait the variants' own formats need not use for it
                    F.mk_attr("{_variant} (raw: {_0:?})"), F.mk_attr("{a:?}={_variant}"), F.mk_attr("{_variant}/{_0:x}"),
                    F.mk_attr("{1:e}|{0}", [(None, "_variant"), (None, "_0")]), F.mk_attr("{_variant} {f:?}", [("f", "a")]),
                    F.mk_attr("{_variant} (raw: {_0:?})"), F.mk_attr("{a:?}={_variant}"),
                ])
            it["container"]["fmt"] = a
    if params and rng.random() < 0.25:
        # the type's own where clause (kept in front of everything the derive adds) and / or inline bounds
        pool = ["T: Clone", "T: Copy + Send", "Vec<T>: Sized", "T: core::fmt::Debug", "Option<T>: PartialEq"]
        if "U" in params:
            pool += ["U: PartialEq", "U: core::fmt::Display, T: Sync", "(T, U): Clone"]
        if rng.random() < 0.8:
            it["where"] = []
            for src in rng.sample(pool, rng.choice([1, 1, 2])):
                it["where"] += [p.strip() for p in F.split_top(src)]
        if rng.random() < 0.3:
            it["inline"] = {rng.choice(params): rng.choice(["Clone", "core::fmt::Debug + Send", "'static"])}
    if rng.random() < 0.22:
        exoticize(rng, it)
    return it


# ------------------------------------------------------------------ several attributes on one item (Fmt/Front.v)

ODD_CASINGS = ["Snake_Case", "SCREAMING-snake_CASE", "kebabCase", "Lower-Case", "camel_case", "PASCAL-CASE", "UPPER_CASE",
               "screaming--kebab__case"]
BAD_CASINGS = ["foo", "", "lower case", "snake", "Title Case", "snakecases"]


def _noise_content(rng, name):
    """an attribute with arbitrary content under the given name"""
    k = rng.randrange(7)
    if k == 0:
        return {"name": name, "kind": "fmt", "attr": F.mk_attr(rng.choice(["zz", "zz{}", "{_variant}", "{0:?}"]),
                                                              [(None, "1")] if rng.random() < 0.3 else [])}
    if k == 1:
        return {"name": name, "kind": "bound", "kw": rng.choice(["bound", "bounds"]), "src": rng.choice(["T: Ord", "U: Eq, T: Ord"])}
    if k == 2:
        return {"name": name, "kind": "rename_all", "value": rng.choice(CASINGS + BAD_CASINGS)}
    if k == 3:
        return {"name": name, "kind": "skip", "kw": rng.choice(["skip", "ignore"])}
    if k == 4:
        return {"name": name, "kind": "legacy_fmt", "src": rng.choice(['fmt = "x {}", a', 'fmt = "lit"', 'fmt = "{} {}", a, "b"'])}
    if k == 5:
        return {"name": name, "kind": "legacy_bound", "src": 'bound = "T: Clone"'}
    return {"name": name, "kind": "other", "src": rng.choice(["foo", "where(T: Clone)", "", None, "fmt = 1", "forward"])}


def mutate_raws(rng, raws, an, level, debug):
    """`raws`: the attribute list of a container / variant / field; returns a changed list"""
    raws = list(raws)
    others = [n for n in F.ATTR_OF.values() if n != an]

    def put(r):
        raws.insert(rng.randrange(len(raws) + 1), r)

    menu = ["shuffle", "foreign", "foreign", "dup_fmt", "bound", "bound", "rename", "rename", "odd_casing", "bad_casing",
            "dup_rename", "legacy_fmt", "legacy_bound", "other", "skip", "own_noise"]
    if level == "field":
        # Debug's field attribute is Either<Skip, FmtAttribute>: two skips, two formats, one of each, foreign content
        menu = ["skip", "skip", "skip", "dup_fmt", "dup_fmt", "dup_fmt", "foreign", "bound", "legacy_fmt", "other", "own_noise",
                "rename", "shuffle"]
    for _ in range(rng.choice([1, 1, 2, 3] if level != "field" else [1, 2, 2])):
        m = rng.choice(menu)
        if m == "shuffle":
            rng.shuffle(raws)
        elif m == "foreign":
            put(_noise_content(rng, rng.choice(others)))
        elif m == "own_noise":
            put(_noise_content(rng, an))
        elif m == "dup_fmt":
            put({"name": an, "kind": "fmt", "attr": F.mk_attr(rng.choice(["dup", "{}"]), [])})
        elif m == "bound":
            put({"name": an, "kind": "bound", "kw": rng.choice(["bound", "bounds"]),
                 "src": rng.choice(["T: Send", "U: Sync", "Option<T>: Clone", "T: core::fmt::Octal, U: Copy", "T: Clone"])})
        elif m in ("rename", "dup_rename"):
            put({"name": an, "kind": "rename_all", "value": rng.choice(CASINGS)})
            if m == "dup_rename":
                put({"name": an, "kind": "rename_all", "value": rng.choice(CASINGS)})
        elif m == "odd_casing":
            put({"name": an, "kind": "rename_all", "value": rng.choice(ODD_CASINGS)})
        elif m == "bad_casing":
            put({"name": an, "kind": "rename_all", "value": rng.choice(BAD_CASINGS)})
        elif m == "legacy_fmt":
            put({"name": an, "kind": "legacy_fmt", "src": rng.choice(['fmt = "x {}", a', 'fmt = "lit"', 'fmt = "{}", "s"'])})
        elif m == "legacy_bound":
            put({"name": an, "kind": "legacy_bound", "src": 'bound = "T: Clone"'})
        elif m == "skip":
            put({"name": an, "kind": "skip", "kw": rng.choice(["skip", "ignore"])})
        else:
            put({"name": an, "kind": "other", "src": rng.choice(["foo", "where(T: Clone)", "", None, "fmt = 1"])})
    return raws


def _first_fmt(raws, an):
    for r in raws:
        if r["name"] == an and r["kind"] == "fmt":
            return r["attr"]
    return None


def exoticize(rng, it):
    """rewrites some attribute lists of `it` into explicit raw lists: several attributes in any order, attributes of
    other derives in between, duplicates, legacy spellings, unknown content.  The summary key `fmt` (read by the
    text oracles) is kept equal to the format attribute the derive sees when the expansion succeeds."""
    an = F.ATTR_OF[it["trait"]]
    debug = it["trait"] == "Debug"
    c = it["container"]
    if rng.random() < 0.6:
        c["raw"] = mutate_raws(rng, F.container_raw(c, an), an, "container", debug)
        c["fmt"] = _first_fmt(c["raw"], an)
        if c["fmt"] is None:
            c.pop("fmt")
    units = [it] if it["kind"] != "enum" else it["variants"]
    for u in units:
        if it["kind"] == "enum" and rng.random() < 0.4:
            u["raw"] = mutate_raws(rng, F.variant_raw(u, an), an, "variant", debug)
            u["fmt"] = _first_fmt(u["raw"], an)
            if u["fmt"] is None:
                u.pop("fmt")
        if debug:
            for f in u["fields"]["list"]:
                if rng.random() < 0.5:
                    f["raw"] = mutate_raws(rng, F.field_raw(f, an), an, "field", debug)
                    fm = _first_fmt(f["raw"], an)
                    f["attr"] = fm if fm is not None else ("skip" if any(r["name"] == an and r["kind"] == "skip" for r in f["raw"]) else None)
    it["exotic"] = True
    return it


# ------------------------------------------------------------------ model evaluation

def load_model_tables():
    """the two lookup tables of the model (Fmt/Front.v), read once per run: they are used to render the model's
    predictions, so a wrong row shows up as a disagreement with the real expansion"""
    if F.MODEL_DEFAULT_LITERAL:
        return
    trs = list(F.TR_COQ)
    t = common.coq_eval(["Verif.Fmt.Front"], ["map default_placeholder_literal [%s]" % "; ".join(F.TR_COQ[x] for x in trs),
                                               "map attr_name_of [%s]" % "; ".join(F.TR_COQ[x] for x in trs)], tag="fmttab")
    for x, l, n in zip(trs, t[0], t[1]):
        F.MODEL_DEFAULT_LITERAL[x] = py_str(l)
        F.MODEL_ATTR_NAME[x] = py_str(n)


def display_model_exprs(it, et, tids, preds):
    """one Gallina expression per item: the whole derive input goes through the model's front end
    (attribute selection by name, parsing classes, merging, rename_all, struct / enum / union)"""
    return ["let it := %s in let r := d_expand_item unicode_cc to_case_marker %s it in (r, item_frame it, d_where_of it r)" % (
        F.ritem_coq(it, et, tids, preds), F.TR_COQ[it["trait"]])]


def canon_model_frame(t):
    """Coq `frame` (Fmt/Front.v): how the fields become bindings"""
    if t == "FrEmptyEnum":
        return ("empty_enum",)
    if t == "FrUnion":
        return ("union",)
    if t[0] == "FrStruct":
        out = []
        for (i, m) in t[1]:
            out.append((F.nows(py_str(i)), "&self." + (F.nows(py_str(m[1])) if m[0] == "MNamed" else str(m[1]))))
        return ("struct", tuple(out))
    pats = []
    for m in t[1]:
        v = F.nows(py_str(m[1]))
        if m[0] == "PUnit":
            pats.append("Self::" + v)
        elif m[0] == "PNamed":
            pats.append("Self::%s{%s}" % (v, ",".join(F.nows(py_str(x)) for x in m[2])))
        else:
            pats.append("Self::%s(%s)" % (v, ",".join(F.nows(py_str(x)) for x in m[2])))
    return ("enum", tuple(pats))


def canon_real_frame(it, body):
    """the same from the harness summary of a real expansion"""
    if body is None:
        return None
    if it["kind"] == "union":
        return ("union",) if body.get("k") != "block" else ("other", str(body.get("lets")))
    if it["kind"] == "struct":
        lets = body.get("lets", []) if body.get("k") == "block" else []
        return ("struct", tuple((F.nows(l["pat"]), F.nows(l["init"])) for l in lets))
    if body.get("k") != "match":
        return ("other", str(body)[:200])
    on = F.nows(body.get("on_tokens", ""))
    if not body["arms"]:
        return ("empty_enum",) if on == "*self" else ("other", on)
    if on != "self" or any(a.get("guard") for a in body["arms"]):
        return ("other", on)
    return ("enum", tuple(F.nows(a["pat"]) for a in body["arms"]))


split_top = F.split_top


def real_display(resp):
    """(status, per-arm canonical bodies, where predicates) from a harness response"""
    if "err" in resp:
        return ("err", err_code(resp["err"]), None)
    if "panic" in resp or "crash" in resp:
        return ("panic", resp.get("panic", resp.get("crash")), None)
    if "ok" not in resp:
        return ("bad", resp, None)
    items = resp["items"]
    where = [F.nows(w) for w in items[0]["where"]] if items and isinstance(items, list) and items[0].get("kind") == "impl" else None
    fb = resp.get("fmt_bodies")
    if fb is not None and not isinstance(fb, list):
        # the harness could not read the expansion back as Rust (e.g. `write!(f, "..", a = = b)`)
        return ("unparsable", fb, None)
    return ("ok", fb[0] if fb else None, where)


def compare_display(chk, items, tier):
    """runs model and code on the Display-like items; returns list of per-item dicts with both sides (already diffed)"""
    inproc = common.build_inproc()
    et = F.ExprTable()
    reqs = [{"cmd": "expand", "derive": it["trait"], "item": F.item_src(it), "fmt_bodies": True} for it in items]
    resps = common.run_jsonl(inproc, reqs)
    exprs = []
    index = []
    ctxs = []
    for it in items:
        tids, preds = {}, {}
        es = display_model_exprs(it, et, tids, preds)
        index.append((len(exprs), len(es)))
        exprs += es
        ctxs.append((tids, preds))
    load_model_tables()
    terms = common.coq_eval(["Verif.Fmt.Front", "Verif.Gen.XidTable"], exprs, batch=200, tag="fmt")
    out = []
    for it, resp, (start, n), (tids, preds) in zip(items, resps, index, ctxs):
        tids_rev = {v: k for k, v in tids.items()}
        preds_rev = {v: k for k, v in preds.items()}
        t, fr, wh = terms[start]
        m_frame = canon_model_frame(fr)
        m_err = None
        m_bodies, m_bounds = [], []
        if t[0] == "RErr":
            m_err = t[1]
        else:
            arms, allb = t[1]
            for (b, _) in arms:
                m_bodies.append(F.canon_model_body(b, et) if b != "BEmpty" else None)
            # the whole where clause of the impl as the model assembles it: the type's own predicates, then the bounds
            m_bounds += F.canon_model_bounds(wh, tids_rev, preds_rev)
        ms = t
        out.append({"item": it, "src": F.item_src(it), "resp": resp, "model_terms": ms, "m_err": m_err,
                    "m_bodies": m_bodies, "m_bounds": m_bounds, "m_frame": m_frame, "et": et})
    return out


def real_arm_bodies(it, body):
    """canonical per-struct / per-variant bodies of a real expansion"""
    c = F.canon_real(body)
    if it["kind"] in ("struct", "union"):
        return [c]
    if c and c[0] == "match":
        return [b for (_, b) in c[2]]
    return [c]


# ------------------------------------------------------------------ Debug

def debug_model_exprs(it, et, tids, preds):
    return ["let it := %s in let r := g_expand_item unicode_cc it in (r, item_frame it, g_where_of it r)" % F.ritem_coq(it, et, tids, preds)]


def canon_real_debug(b):
    """canonical form of a real Debug body"""
    if b is None:
        return None
    if b.get("k") == "block":
        return canon_real_debug(b["tail"])
    k = b.get("k")
    if k in ("delegate", "write"):
        return F.canon_real(b)
    if k == "write_str":
        return ("unit", b["s"], b.get("form"))
    if k == "match":
        return ("match", F.nows(b["on_tokens"]), tuple((F.nows(a["pat"]), canon_real_debug(a["body"])) for a in b["arms"]))
    if k == "call":
        f = b["f"]
        fin = {"derive_more::__private::DebugTuple::finish": ("tuple", True),
               "derive_more::__private::DebugTuple::finish_non_exhaustive": ("tuple", False),
               "derive_more::core::fmt::DebugStruct::finish": ("struct", True),
               "derive_more::core::fmt::DebugStruct::finish_non_exhaustive": ("struct", False)}.get(f)
        if fin is None:
            return ("other", str(b))
        shape, ex = fin
        cur = b["args"][0]
        fields = []
        while True:
            if cur.get("k") == "call" and cur["f"] in ("derive_more::__private::DebugTuple::field",
                                                       "derive_more::core::fmt::DebugStruct::field"):
                a = cur["args"]
                if cur["f"].endswith("DebugStruct::field"):
                    nm, val = a[1].get("s"), a[2]
                else:
                    nm, val = None, a[1]
                inner = val.get("e", {}) if val.get("k") == "ref" else val
                if inner.get("k") == "format_args":
                    fields.append(("format", nm, inner.get("lit"), tuple((x["alias"], F.nows(x["expr"])) for x in inner.get("args", []))))
                elif inner.get("k") == "path":
                    fields.append(("value", nm, F.nows(inner["p"])))
                else:
                    fields.append(("other", nm, str(inner)))
                cur = a[0]
                continue
            break
        base = cur.get("e", {}) if cur.get("k") == "ref" else cur
        name = None
        if base.get("k") == "call" and base["f"] in ("derive_more::__private::debug_tuple",
                                                     "derive_more::core::fmt::Formatter::debug_struct"):
            name = base["args"][1].get("s")
            okshape = "tuple" if base["f"].endswith("debug_tuple") else "struct"
            if okshape != shape:
                return ("other", "builder/finish mismatch")
        return (shape, name, tuple(reversed(fields)), ex)
    return ("other", str(b))


def canon_model_debug(t, et):
    h = t[0]
    if h == "GDelegate":
        return ("delegate", F.TR_PY[t[1]], F.model_texpr(t[2], et))
    if h == "GWrite":
        lit, args = F.model_attr(t[1], et)
        return ("write", lit, args + F.deref_args(t[2]))
    if h == "GUnit":
        return ("unit", py_str(t[1]), "path")
    shape = "tuple" if h == "GTuple" else "struct"
    fields = []
    for f in t[2]:
        nm = F.c_opt(f[1])
        nm = None if nm is None else py_str(nm)
        if f[0] == "GValue":
            fields.append(("value", nm, F.nows(py_str(f[2]))))
        else:
            lit, args = F.model_attr(f[2], et)
            fields.append(("format", nm, lit, args + F.deref_args(f[3])))
    return (shape, py_str(t[1]), tuple(fields), t[3] == "true")


def compare_debug(chk, items, tier):
    inproc = common.build_inproc()
    et = F.ExprTable()
    reqs = [{"cmd": "expand", "derive": "Debug", "item": F.item_src(it), "fmt_bodies": True} for it in items]
    resps = common.run_jsonl(inproc, reqs)
    exprs, ctxs = [], []
    for it in items:
        tids, preds = {}, {}
        exprs += debug_model_exprs(it, et, tids, preds)
        ctxs.append((tids, preds))
    terms = common.coq_eval(["Verif.Fmt.Front", "Verif.Gen.XidTable"], exprs, batch=200, tag="dbg")
    out = []
    for it, resp, (t, fr, wh), (tids, preds) in zip(items, resps, terms, ctxs):
        tids_rev = {v: k for k, v in tids.items()}
        preds_rev = {v: k for k, v in preds.items()}
        m_err, m_bodies, m_bounds = None, [], []
        if t[0] == "RErr":
            m_err = t[1]
        else:
            for (b, bs) in t[1]:
                m_bodies.append(canon_model_debug(b, et))
            m_bounds += F.canon_model_bounds(wh, tids_rev, preds_rev)
        out.append({"item": it, "src": F.item_src(it), "resp": resp, "m_err": m_err, "m_bodies": m_bodies,
                    "m_bounds": m_bounds, "m_frame": canon_model_frame(fr), "et": et})
    return out


def real_debug_arm_bodies(it, body):
    c = canon_real_debug(body)
    if it["kind"] == "struct":
        return [c]
    if c and c[0] == "match":
        return [b for (_, b) in c[2]]
    return [c]


# ------------------------------------------------------------------ shared driver for the C02/C04/C05/C07 checks

def decision_tie(chk, n_display, n_debug, focus=None):
    """model vs real expander on generated items; reports `tie-fmt-model` violations; returns the result lists"""
    rng = chk.rng
    items = [gen_item(rng, i) for i in range(n_display)]
    if focus == "enum":
        items = [it for it in items if it["kind"] == "enum"] + [gen_item(rng, 10 ** 6 + i) for i in range(n_display // 2)]
        items = [it for it in items if it["kind"] == "enum"]
    res = compare_display(chk, items, chk.tier)
    n_ok = 0
    for r in res:
        it = r["item"]
        real = real_display(r["resp"])
        key = ("display", r["src"])
        shapes = set()
        if it.get("exotic"):
            chk.bump("display:several-or-foreign-attributes")
        if real[0] == "err":
            chk.count(key, True)
            chk.bump("display:rejected")
            chk.bump("display:diagnostic:%s" % (real[1] if not isinstance(real[1], tuple) else "other"))
            if r["m_err"] != real[1]:
                chk.violation("tie-fmt-model", {"item": r["src"], "derive": it["trait"], "real": str(real[1]), "model": str(r["m_err"])},
                              "Display-like model and code disagree on the diagnostic for: %s" % r["src"])
            continue
        if real[0] == "unparsable":
            chk.violation("expansion-not-parsable", {"item": r["src"], "derive": it["trait"], "detail": str(real[1])[:600]},
                          "the expansion of this item is not parsable Rust: %s" % r["src"])
            continue
        if real[0] != "ok":
            chk.violation("expander-internal-failure", {"item": r["src"], "derive": it["trait"], "real": str(real[1])},
                          "the real expander failed internally on: %s" % r["src"])
            continue
        rb = real_arm_bodies(it, real[1])
        for b in rb:
            if b:
                shapes.add(b[0])
        for sname in shapes:
            chk.bump("display:body:" + sname)
        chk.count(key, bool(shapes - {"write_str"}))
        if r["m_err"] is not None or rb != r["m_bodies"]:
            chk.violation("tie-fmt-model", {"item": r["src"], "derive": it["trait"], "real": str(rb), "model": str((r["m_err"], r["m_bodies"]))},
                          "Display-like model and code disagree on the body for: %s" % r["src"])
            continue
        rf = canon_real_frame(it, real[1])
        if rf != r["m_frame"]:
            chk.violation("tie-fmt-model-bindings", {"item": r["src"], "derive": it["trait"], "real": str(rf), "model": str(r["m_frame"])},
                          "Display-like model and code disagree on how the fields are bound for: %s" % r["src"])
            continue
        if real[2] != r["m_bounds"]:
            chk.violation("tie-fmt-model-bounds", {"item": r["src"], "derive": it["trait"], "real": real[2], "model": r["m_bounds"]},
                          "Display-like model and code disagree on the inferred bounds for: %s" % r["src"])
            continue
        n_ok += 1
    ditems = [gen_item(rng, i, debug=True) for i in range(n_debug)]
    dres = compare_debug(chk, ditems, chk.tier)
    for r in dres:
        it = r["item"]
        real = real_display(r["resp"])
        key = ("debug", r["src"])
        if real[0] == "err":
            chk.count(key, True)
            chk.bump("debug:rejected")
            chk.bump("debug:diagnostic:%s" % (real[1] if not isinstance(real[1], tuple) else "other"))
            if r["m_err"] != real[1]:
                chk.violation("tie-fmt-model", {"item": r["src"], "derive": "Debug", "real": str(real[1]), "model": str(r["m_err"])},
                              "Debug model and code disagree on the diagnostic for: %s" % r["src"])
            continue
        if real[0] == "unparsable":
            chk.violation("expansion-not-parsable", {"item": r["src"], "derive": "Debug", "detail": str(real[1])[:600]},
                          "the expansion of this item is not parsable Rust: %s" % r["src"])
            continue
        if real[0] != "ok":
            chk.violation("expander-internal-failure", {"item": r["src"], "derive": "Debug", "real": str(real[1])},
                          "the real expander failed internally on: %s" % r["src"])
            continue
        rb = real_debug_arm_bodies(it, real[1])
        for b in rb:
            if b:
                chk.bump("debug:body:" + b[0])
        chk.count(key, True)
        if r["m_err"] is not None or rb != r["m_bodies"]:
            chk.violation("tie-fmt-model", {"item": r["src"], "derive": "Debug", "real": str(rb), "model": str((r["m_err"], r["m_bodies"]))},
                          "Debug model and code disagree on the body for: %s" % r["src"])
            continue
        rf = canon_real_frame(it, real[1])
        if rf != r["m_frame"]:
            chk.violation("tie-fmt-model-bindings", {"item": r["src"], "derive": "Debug", "real": str(rf), "model": str(r["m_frame"])},
                          "Debug model and code disagree on how the fields are bound for: %s" % r["src"])
            continue
        if real[2] != r["m_bounds"]:
            chk.violation("tie-fmt-model-bounds", {"item": r["src"], "derive": "Debug", "real": real[2], "model": r["m_bounds"]},
                          "Debug model and code disagree on the inferred bounds for: %s" % r["src"])
            continue
        n_ok += 1
    chk.cov["traces_validated_against_impl"] += len(res) + len(dres)
    return res, dres


def finish_with_proofs(chk, st, rule, trusted, extra=None):
    if getattr(chk, "proof_broken", False) and not chk.violations:
        chk.violation("proof-broken", chk.proof_failure, "a proof obligation of %s no longer checks: %s" %
                      (chk.pid, chk.proof_failure["failed"]), no_input=True)
    elif getattr(chk, "proof_broken", False):
        chk.notes.append("proof obligation broken at %s; failing inputs found by the differential run" % chk.proof_failure["failed"])
    return chk.finish(proof=st, rule=rule, trusted=trusted, extra=extra)


FMT_TRUSTED = [
    "Coq 8.16.1 kernel + vm_compute (full .vo build); no axioms (Print Assumptions: closed)",
    "hand-written Gallina models coq/theories/Fmt/{Model,Front}.v + C03/{DmParse,StdParse}.v, tied to impl/src/fmt/*.rs (and the "
    "attribute merging of impl/src/utils.rs) by differential runs: the whole derive input goes through the model's front end "
    "(cases.v + vm_compute vs the in-process harness: bodies, field bindings, bounds, unit names, diagnostics); the model's "
    "trait->attribute-name and trait->default-placeholder tables are read from Coq on every run and used to render its predictions",
    "Layer-2 semantics of emitted Rust (Trait::fmt(x, f) hands the caller's Formatter on; write!/format_args! ignore it; &T formats "
    "like T except for Pointer): assumed in Coq, exercised against rustc-compiled real expansions on every run",
    "tools/lib/{fmtitems,fmtcheck,fmtrt}.py generators/canonicalisers; harness/inproc (syn-based body summary); rustc 1.95",
]
