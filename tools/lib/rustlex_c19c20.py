"""A small Rust lexer + token-tree builder for the source translators of C19 / C20.

Handles: line/block (nested) comments, doc comments (dropped), string / byte / C / raw string literals,
char literals vs lifetimes, raw identifiers, numbers, multi-char punctuation is NOT glued (every
punctuation character is its own token; `::` is recognised by the consumers as two `:`).

Tokens are `Tok(kind, text, line)` with kind in
  'ident' | 'lifetime' | 'punct' | 'str' | 'char' | 'num' | 'open' | 'close'
For 'str' the `text` is the *source* text and `.value` the (approximately) unescaped contents.
Unknown input is an error (LexError), never skipped.
"""
import re


class LexError(Exception):
    pass


class Tok:
    __slots__ = ("kind", "text", "line", "value")

    def __init__(self, kind, text, line, value=None):
        self.kind = kind
        self.text = text
        self.line = line
        self.value = value

    def __repr__(self):
        return "%s:%r@%d" % (self.kind, self.text, self.line)


_IDENT_START = re.compile(r"[A-Za-z_\u0080-\U0010ffff]")
_IDENT = re.compile(r"[A-Za-z_\u0080-\U0010ffff][A-Za-z0-9_\u0080-\U0010ffff]*")
_NUM = re.compile(r"[0-9][0-9A-Za-z_]*(?:\.[0-9][0-9A-Za-z_]*)?")
OPEN = "([{"
CLOSE = ")]}"
PUNCT = set("!#$%&*+,-./:;<=>?@^|~")


def _unescape(s):
    out = []
    i = 0
    while i < len(s):
        c = s[i]
        if c != "\\":
            out.append(c)
            i += 1
            continue
        i += 1
        if i >= len(s):
            break
        e = s[i]
        i += 1
        if e == "n":
            out.append("\n")
        elif e == "t":
            out.append("\t")
        elif e == "r":
            out.append("\r")
        elif e == "0":
            out.append("\0")
        elif e == "x":
            out.append(chr(int(s[i:i + 2], 16)))
            i += 2
        elif e == "u":
            j = s.index("}", i)
            out.append(chr(int(s[i + 1:j].replace("_", ""), 16)))
            i = j + 1
        elif e == "\n":
            while i < len(s) and s[i] in " \t\n\r":
                i += 1
        else:
            out.append(e)
    return "".join(out)


def lex(src, fname="<src>"):
    toks = []
    i = 0
    n = len(src)
    line = 1
    while i < n:
        c = src[i]
        if c == "\n":
            line += 1
            i += 1
            continue
        if c in " \t\r":
            i += 1
            continue
        if src.startswith("//", i):
            j = src.find("\n", i)
            i = n if j < 0 else j
            continue
        if src.startswith("/*", i):
            depth = 1
            j = i + 2
            while j < n and depth:
                if src.startswith("/*", j):
                    depth += 1
                    j += 2
                elif src.startswith("*/", j):
                    depth -= 1
                    j += 2
                else:
                    if src[j] == "\n":
                        line += 1
                    j += 1
            if depth:
                raise LexError("%s:%d: unterminated block comment" % (fname, line))
            i = j
            continue
        # raw strings / byte strings / C strings / raw identifiers
        m = re.match(r"(?:b|c)?r(#*)\"", src[i:i + 40])
        if m and (i == 0 or not _IDENT.fullmatch(src[i - 1])):
            hashes = m.group(1)
            start = i + m.end()
            end = src.find('"' + hashes, start)
            if end < 0:
                raise LexError("%s:%d: unterminated raw string" % (fname, line))
            text = src[i:end + 1 + len(hashes)]
            toks.append(Tok("str", text, line, src[start:end]))
            line += text.count("\n")
            i = end + 1 + len(hashes)
            continue
        if c == '"' or (c in "bc" and i + 1 < n and src[i + 1] == '"'):
            start = i + (1 if c == '"' else 2)
            j = start
            while j < n and src[j] != '"':
                if src[j] == "\\":
                    j += 1
                j += 1
            if j >= n:
                raise LexError("%s:%d: unterminated string" % (fname, line))
            text = src[i:j + 1]
            toks.append(Tok("str", text, line, _unescape(src[start:j])))
            line += text.count("\n")
            i = j + 1
            continue
        if c == "b" and i + 1 < n and src[i + 1] == "'":
            m = re.match(r"b'(?:\\.[^']*|[^'\\])'", src[i:i + 16])
            if not m:
                raise LexError("%s:%d: bad byte literal" % (fname, line))
            toks.append(Tok("char", m.group(0), line))
            i += m.end()
            continue
        if c == "'":
            # char literal or lifetime
            m = re.match(r"'(?:\\(?:[nrt0\\'\"]|x[0-9a-fA-F]{2}|u\{[0-9a-fA-F_]+\})|[^'\\\n])'", src[i:i + 16])
            if m:
                toks.append(Tok("char", m.group(0), line))
                i += m.end()
                continue
            m = _IDENT.match(src, i + 1)
            if m:
                toks.append(Tok("lifetime", "'" + m.group(0), line))
                i = m.end()
                continue
            raise LexError("%s:%d: stray quote" % (fname, line))
        if src.startswith("r#", i) and i + 2 < n and _IDENT_START.match(src[i + 2]):
            m = _IDENT.match(src, i + 2)
            toks.append(Tok("ident", "r#" + m.group(0), line))
            i = m.end()
            continue
        m = _IDENT.match(src, i)
        if m:
            toks.append(Tok("ident", m.group(0), line))
            i = m.end()
            continue
        m = _NUM.match(src, i)
        if m:
            toks.append(Tok("num", m.group(0), line))
            i = m.end()
            continue
        if c in OPEN:
            toks.append(Tok("open", c, line))
            i += 1
            continue
        if c in CLOSE:
            toks.append(Tok("close", c, line))
            i += 1
            continue
        if c in PUNCT:
            toks.append(Tok("punct", c, line))
            i += 1
            continue
        raise LexError("%s:%d: unexpected character %r" % (fname, line, c))
    return toks


class Group:
    """A delimited group: .delim in '([{', .items = list of Tok | Group, .line (of the opener), .end_line."""
    __slots__ = ("delim", "items", "line", "end_line")
    kind = "group"

    def __init__(self, delim, line):
        self.delim = delim
        self.items = []
        self.line = line
        self.end_line = line

    @property
    def text(self):
        return self.delim

    def __repr__(self):
        return "G%s%r" % (self.delim, self.items)


def tree(toks, fname="<src>"):
    """flat tokens -> list of Tok | Group (checked nesting)"""
    root = Group("", 0)
    stack = [root]
    for t in toks:
        if t.kind == "open":
            g = Group(t.text, t.line)
            stack[-1].items.append(g)
            stack.append(g)
        elif t.kind == "close":
            g = stack.pop()
            if not stack or OPEN.index(g.delim) != CLOSE.index(t.text):
                raise LexError("%s:%d: unbalanced %r" % (fname, t.line, t.text))
            g.end_line = t.line
        else:
            stack[-1].items.append(t)
    if len(stack) != 1:
        raise LexError("%s: unclosed %r opened at line %d" % (fname, stack[-1].delim, stack[-1].line))
    return root.items


def is_p(t, ch):
    return isinstance(t, Tok) and t.kind == "punct" and t.text == ch


def is_id(t, name=None):
    return isinstance(t, Tok) and t.kind == "ident" and (name is None or t.text == name)


def flat(items):
    """token tree -> flat token list again (groups re-expanded with open/close tokens)"""
    out = []
    for t in items:
        if isinstance(t, Group):
            out.append(Tok("open", t.delim, t.line))
            out.extend(flat(t.items))
            out.append(Tok("close", CLOSE[OPEN.index(t.delim)], t.end_line))
        else:
            out.append(t)
    return out


def text_of(items):
    return " ".join(t.text for t in flat(items))
