"""Hostile-scope corpus for C15: every derive x each expansion path, written WITHOUT any prelude name.

A case is a module body (types + `pub fn obs() -> crate::h::Str`) that uses only absolute paths (`::core::..`,
`::std::..`, `crate::h::..`), primitives and `derive_more::..`; so the *user's own tokens* resolve in any scope and
every resolution failure under a hostile scope is caused by the tokens the derive emits.

Scopes (one module per case and scope):
  pl  plain module (normal prelude)                         - the non-hostile twin
  np  `#[no_implicit_prelude] mod .. { use ::derive_more; .. }`
  sh  module that defines its own Result/Ok/Err/Option/Some/None/String/Vec/Box/traits/macros ..
"""

# impl/src files whose templates an expansion of the derive can come from (utils.rs is shared by the State-based ones)
FILES = {
    "add_like": ["add_like.rs", "add_helpers.rs", "utils.rs"],
    "add_assign_like": ["add_assign_like.rs", "add_helpers.rs", "utils.rs"],
    "mul_like": ["mul_like.rs", "mul_helpers.rs", "add_like.rs", "add_helpers.rs", "utils.rs"],
    "mul_assign_like": ["mul_assign_like.rs", "mul_helpers.rs", "add_assign_like.rs", "add_helpers.rs", "utils.rs"],
    "not_like": ["not_like.rs", "utils.rs"],
    "sum_like": ["sum_like.rs", "utils.rs"],
    "as": ["as/mod.rs", "as/ref.rs", "as/mut.rs", "utils.rs"],
    "constructor": ["constructor.rs", "utils.rs"],
    "debug": ["fmt/debug.rs", "fmt/mod.rs", "utils.rs"],
    "display": ["fmt/display.rs", "fmt/mod.rs", "utils.rs"],
    "deref": ["deref.rs", "utils.rs"],
    "deref_mut": ["deref_mut.rs", "utils.rs"],
    "error": ["error.rs", "utils.rs"],
    "from": ["from.rs", "utils.rs"],
    "from_str": ["from_str.rs", "utils.rs"],
    "index": ["index.rs", "utils.rs"],
    "index_mut": ["index_mut.rs", "utils.rs"],
    "into": ["into.rs", "utils.rs"],
    "into_iterator": ["into_iterator.rs", "utils.rs"],
    "is_variant": ["is_variant.rs", "utils.rs"],
    "try_from": ["try_from.rs", "utils.rs"],
    "try_into": ["try_into.rs", "utils.rs"],
    "try_unwrap": ["try_unwrap.rs", "utils.rs"],
    "unwrap": ["unwrap.rs", "utils.rs"],
}

# the 50 derives of impl/src/lib.rs -> family
DERIVES = {
    "Add": "add_like", "Sub": "add_like", "BitAnd": "add_like", "BitOr": "add_like", "BitXor": "add_like",
    "AddAssign": "add_assign_like", "SubAssign": "add_assign_like", "BitAndAssign": "add_assign_like",
    "BitOrAssign": "add_assign_like", "BitXorAssign": "add_assign_like",
    "AsMut": "as", "AsRef": "as", "Constructor": "constructor", "Debug": "debug", "Deref": "deref",
    "DerefMut": "deref_mut", "Display": "display", "Binary": "display", "Octal": "display", "LowerHex": "display",
    "UpperHex": "display", "LowerExp": "display", "UpperExp": "display", "Pointer": "display", "Error": "error",
    "From": "from", "FromStr": "from_str", "Index": "index", "IndexMut": "index_mut", "Into": "into",
    "IntoIterator": "into_iterator", "IsVariant": "is_variant", "Mul": "mul_like", "Div": "mul_like",
    "Rem": "mul_like", "Shr": "mul_like", "Shl": "mul_like", "MulAssign": "mul_assign_like",
    "DivAssign": "mul_assign_like", "RemAssign": "mul_assign_like", "ShrAssign": "mul_assign_like",
    "ShlAssign": "mul_assign_like", "Not": "not_like", "Neg": "not_like", "Sum": "sum_like", "Product": "sum_like",
    "TryFrom": "try_from", "TryInto": "try_into", "TryUnwrap": "try_unwrap", "Unwrap": "unwrap",
}

OK = "::core::result::Result::Ok"
ERR = "::core::result::Result::Err"
SOME = "::core::option::Option::Some"
NONE = "::core::option::Option::None"

CASES = []


def case(cid, derives, src, obs, tier="quick", expect=None):
    """derives: derive names under test (first one decides the family); obs: Rust expression (Debug-printable)"""
    for d in derives:
        assert d in DERIVES, d
    CASES.append({"id": cid, "derives": list(derives), "src": src.strip("\n"), "obs": obs.strip(), "tier": tier, "expect": expect})


def D(*names):
    return "#[derive(%s)]" % ", ".join("derive_more::" + n for n in names)


# ------------------------------------------------------------------ Add-like
ADD = [("Add", "+", 6, 3), ("Sub", "-", 6, 3), ("BitAnd", "&", 6, 3), ("BitOr", "|", 6, 3), ("BitXor", "^", 6, 3)]
for tr, op, a, b in ADD:
    case("%s_tuple" % tr, [tr], D(tr) + " pub struct T(pub i32, pub u8);",
         "{ let r = T(%d, 5) %s T(%d, 1); (r.0, r.1) }" % (a, op, b))
    case("%s_named" % tr, [tr], D(tr) + " pub struct N { pub a: i32, pub b: i64 }",
         "{ let r = N { a: %d, b: 9 } %s N { a: %d, b: 2 }; (r.a, r.b) }" % (a, op, b))
    case("%s_generic" % tr, [tr], D(tr) + " pub struct G<T>(pub T);", "(G(%di32) %s G(%d)).0" % (a, op, b))
    case("%s_enum" % tr, [tr], D(tr) + " pub enum E { A(i32), B { x: u8, y: u8 }, U }",
         """{
    let f = |r: ::core::result::Result<E, derive_more::BinaryError>| match r {
        %s(E::A(v)) => ::std::format!("A{}", v),
        %s(E::B { x, y }) => ::std::format!("B{}:{}", x, y),
        %s(E::U) => ::std::format!("U"),
        %s(e) => ::std::format!("err {}", e),
    };
    (f(E::A(%d) %s E::A(%d)), f(E::B { x: 6, y: 7 } %s E::B { x: 2, y: 1 }), f(E::U %s E::U), f(E::A(1) %s E::U))
}""" % (OK, OK, OK, ERR, a, op, b, op, op, op))
    case("%s_enum_nounit" % tr, [tr], D(tr) + " pub enum E { A(i32), B(u8) }",
         "match E::A(%d) %s E::A(%d) { %s(E::A(v)) => v, _ => -1 }" % (a, op, b, OK))

ADDA = [("AddAssign", "+="), ("SubAssign", "-="), ("BitAndAssign", "&="), ("BitOrAssign", "|="), ("BitXorAssign", "^=")]
for tr, op in ADDA:
    case("%s_tuple" % tr, [tr], D(tr) + " pub struct T(pub i32, pub u8);",
         "{ let mut r = T(6, 5); r %s T(3, 1); (r.0, r.1) }" % op)
    case("%s_named" % tr, [tr], D(tr) + " pub struct N { pub a: i32, pub b: i64 }",
         "{ let mut r = N { a: 6, b: 9 }; r %s N { a: 3, b: 2 }; (r.a, r.b) }" % op)
    case("%s_generic" % tr, [tr], D(tr) + " pub struct G<T>(pub T);", "{ let mut r = G(6i32); r %s G(3); r.0 }" % op)

# ------------------------------------------------------------------ Mul-like
MUL = [("Mul", "*"), ("Div", "/"), ("Rem", "%"), ("Shr", ">>"), ("Shl", "<<")]
for tr, op in MUL:
    low = {"Mul": "mul", "Div": "div", "Rem": "rem", "Shr": "shr", "Shl": "shl"}[tr]
    case("%s_newtype" % tr, [tr], D(tr) + " pub struct M(pub i32);", "(M(12) %s 2).0" % op)
    case("%s_multi" % tr, [tr], D(tr) + " pub struct M(pub i32, pub i32);", "{ let r = M(12, 8) %s 2; (r.0, r.1) }" % op)
    case("%s_named" % tr, [tr], D(tr) + " pub struct M { pub a: i32, pub b: i32 }",
         "{ let r = M { a: 12, b: 8 } %s 2; (r.a, r.b) }" % op)
    case("%s_forward" % tr, [tr], D(tr) + " #[%s(forward)] pub struct M(pub i32);" % low, "(M(12) %s M(2)).0" % op)
    case("%s_generic" % tr, [tr], D(tr) + " pub struct M<T>(pub T);", "(M(12i32) %s 2).0" % op)
MULA = [("MulAssign", "*="), ("DivAssign", "/="), ("RemAssign", "%="), ("ShrAssign", ">>="), ("ShlAssign", "<<=")]
for tr, op in MULA:
    low = {"MulAssign": "mul_assign", "DivAssign": "div_assign", "RemAssign": "rem_assign", "ShrAssign": "shr_assign",
           "ShlAssign": "shl_assign"}[tr]
    case("%s_newtype" % tr, [tr], D(tr) + " pub struct M(pub i32);", "{ let mut r = M(12); r %s 2; r.0 }" % op)
    case("%s_multi" % tr, [tr], D(tr) + " pub struct M(pub i32, pub i32);",
         "{ let mut r = M(12, 8); r %s 2; (r.0, r.1) }" % op)
    case("%s_forward" % tr, [tr], D(tr) + " #[%s(forward)] pub struct M(pub i32);" % low,
         "{ let mut r = M(12); r %s M(2); r.0 }" % op)

# ------------------------------------------------------------------ Not-like
for tr, op in [("Not", "!"), ("Neg", "-")]:
    case("%s_tuple" % tr, [tr], D(tr) + " pub struct T(pub i32, pub i8);", "{ let r = %sT(5, 2); (r.0, r.1) }" % op)
    case("%s_named" % tr, [tr], D(tr) + " pub struct N { pub a: i32 }", "(%sN { a: 5 }).a" % op)
    case("%s_enum" % tr, [tr], D(tr) + " pub enum E { A(i32), B { x: i8 } }",
         "(match %sE::A(5) { E::A(v) => v, _ => 0 }, match %s(E::B { x: 2 }) { E::B { x } => x, _ => 0 })" % (op, op))
    case("%s_enum_unit" % tr, [tr], D(tr) + " pub enum E { A(i32), U }",
         "(match %sE::A(5) { %s(E::A(v)) => v, _ => 0 }, match %sE::U { %s(e) => ::std::format!(\"{}\", e), _ => ::std::format!(\"ok\") })"
         % (op, OK, op, ERR))

# ------------------------------------------------------------------ Sum-like
case("Sum_tuple", ["Sum", "Add"], D("Add", "Sum") + " pub struct S(pub i32);",
     "<S as ::core::iter::Sum>::sum(::core::iter::IntoIterator::into_iter([S(1), S(2), S(4)])).0")
case("Sum_named", ["Sum", "Add"], D("Add", "Sum") + " pub struct S { pub a: i32, pub b: u8 }",
     "{ let r = <S as ::core::iter::Sum>::sum(::core::iter::IntoIterator::into_iter([S { a: 1, b: 2 }, S { a: 3, b: 4 }])); (r.a, r.b) }")
case("Product_tuple", ["Product", "Mul"], D("Mul", "Product") + " #[mul(forward)] pub struct P(pub i32);",
     "<P as ::core::iter::Product>::product(::core::iter::IntoIterator::into_iter([P(2), P(3), P(4)])).0")
case("Product_named", ["Product", "Mul"], D("Mul", "Product") + " #[mul(forward)] pub struct P { pub a: i32, pub b: i64 }",
     "{ let r = <P as ::core::iter::Product>::product(::core::iter::IntoIterator::into_iter([P { a: 2, b: 3 }, P { a: 5, b: 7 }])); (r.a, r.b) }")

# ------------------------------------------------------------------ AsRef / AsMut
for tr, m, mt, r in [("AsRef", "as_ref", "", "&"), ("AsMut", "as_mut", "mut ", "&mut ")]:
    low = m
    case("%s_newtype" % tr, [tr], D(tr) + " pub struct A(pub i32);",
         "{ let %sa = A(3); *<A as ::core::convert::%s<i32>>::%s(%sa) }" % (mt, tr, m, r))
    case("%s_forward" % tr, [tr], D(tr) + " #[%s(forward)] pub struct A(pub [u8; 2]);" % low,
         "{ let %sa = A([1, 2]); <A as ::core::convert::%s<[u8]>>::%s(%sa).len() }" % (mt, tr, m, r))
    case("%s_fields" % tr, [tr], D(tr) + " pub struct A { #[%s] pub a: i32, pub b: u8, #[%s] pub c: i64 }" % (low, low),
         "{ let %sa = A { a: 1, b: 2, c: 3 }; (*<A as ::core::convert::%s<i32>>::%s(%sa), *<A as ::core::convert::%s<i64>>::%s(%sa), a.b) }"
         % (mt, tr, m, r, tr, m, r))
    case("%s_field_forward" % tr, [tr], D(tr) + " pub struct A { #[%s(forward)] pub a: [u8; 3], pub b: u8 }" % low,
         "{ let %sa = A { a: [1, 2, 3], b: 2 }; (<A as ::core::convert::%s<[u8]>>::%s(%sa).len(), a.b) }" % (mt, tr, m, r))
    case("%s_types" % tr, [tr], D(tr) + " #[%s([u8], [u8; 2])] pub struct A(pub [u8; 2]);" % low,
         "{ let %sa = A([1, 2]); (<A as ::core::convert::%s<[u8]>>::%s(%sa).len(), <A as ::core::convert::%s<[u8; 2]>>::%s(%sa)[1]) }"
         % (mt, tr, m, r, tr, m, r))
    case("%s_types_generic" % tr, [tr], D(tr) + " #[%s([u8])] pub struct A<T>(pub T); " % low + D(tr) + " #[%s(T)] pub struct B<T>(pub T);" % low,
         "{ let %sa = A([7u8, 1]); let %sb = B(3i8); (<A<[u8; 2]> as ::core::convert::%s<[u8]>>::%s(%sa).len(), *<B<i8> as ::core::convert::%s<i8>>::%s(%sb)) }"
         % (mt, mt, tr, m, r, tr, m, r))
    case("%s_generic_forward" % tr, [tr], D(tr) + " #[%s(forward)] pub struct A<T>(pub T);" % low,
         "{ let %sa = A([1u8, 2]); <A<[u8; 2]> as ::core::convert::%s<[u8]>>::%s(%sa).len() }" % (mt, tr, m, r))
    case("%s_skip" % tr, [tr], D(tr) + " pub struct A { pub a: i32, #[%s(skip)] pub b: u8 }" % low,
         "{ let %sa = A { a: 1, b: 2 }; (*<A as ::core::convert::%s<i32>>::%s(%sa), a.b) }" % (mt, tr, m, r))

# ------------------------------------------------------------------ Constructor
case("Constructor_tuple", ["Constructor"], D("Constructor") + " pub struct C(pub i32, pub u8);", "{ let c = C::new(1, 2); (c.0, c.1) }")
case("Constructor_named", ["Constructor"], D("Constructor") + " pub struct C { pub a: i32, pub b: u8 }", "{ let c = C::new(1, 2); (c.a, c.b) }")
case("Constructor_unit", ["Constructor"], D("Constructor") + " pub struct C;", "{ let _c = C::new(); 0 }")
case("Constructor_generic", ["Constructor"], D("Constructor") + " pub struct C<T> { pub a: T }", "C::new(5u8).a")

# ------------------------------------------------------------------ Debug
case("Debug_named", ["Debug"], D("Debug") + " pub struct S { pub a: i32, pub b: &'static str }",
     "(crate::h::dbg(&S { a: 1, b: \"x\" }), crate::h::dbgp(&S { a: 1, b: \"x\" }))")
case("Debug_tuple", ["Debug"], D("Debug") + " pub struct S(pub i32, pub &'static str);", "(crate::h::dbg(&S(1, \"x\")), crate::h::dbgp(&S(1, \"x\")))")
case("Debug_unit", ["Debug"], D("Debug") + " pub struct S;", "crate::h::dbg(&S)")
case("Debug_enum", ["Debug"], D("Debug") + " pub enum E { A, B(i32, u8), C { x: i32 } }",
     "(crate::h::dbg(&E::A), crate::h::dbg(&E::B(1, 2)), crate::h::dbgp(&E::C { x: 3 }))")
case("Debug_never", ["Debug"], D("Debug") + " pub enum E {}", "0")
case("Debug_struct_fmt", ["Debug"], D("Debug") + " #[debug(\"S<{a}|{}>\", b + 1)] pub struct S { pub a: i32, pub b: u8 }",
     "crate::h::dbg(&S { a: 1, b: 2 })")
case("Debug_field_fmt", ["Debug"], D("Debug") + " pub struct S { #[debug(\"{a:#x}\")] pub a: i32, #[debug(\"{}\", b * 2)] pub b: u8 }",
     "(crate::h::dbg(&S { a: 255, b: 2 }), crate::h::dbgp(&S { a: 255, b: 2 }))")
case("Debug_tuple_field_fmt", ["Debug"], D("Debug") + " pub struct S(#[debug(\"{_0:03}\")] pub i32, #[debug(\"{}\", _1 * 2)] pub u8);",
     "(crate::h::dbg(&S(5, 2)), crate::h::dbgp(&S(5, 2)))")
case("Debug_skip", ["Debug"], D("Debug") + " pub struct S { pub a: i32, #[debug(skip)] pub b: u8 } " + D("Debug") +
     " pub struct T(pub i32, #[debug(ignore)] pub u8);",
     "(crate::h::dbg(&S { a: 1, b: 2 }), crate::h::dbg(&T(1, 2)), { let s = S { a: 1, b: 2 }; s.b })")
case("Debug_enum_fmt", ["Debug"], D("Debug") + " pub enum E { #[debug(\"A!\")] A, #[debug(\"B({_0})\")] B(i32), C { #[debug(\"<{x}>\")] x: i32, #[debug(skip)] y: i32 } }",
     "(crate::h::dbg(&E::A), crate::h::dbg(&E::B(1)), crate::h::dbg(&E::C { x: 3, y: 4 }))")
case("Debug_transparent", ["Debug"], D("Debug") + " #[debug(\"{_0:?}\")] pub struct S(pub i32); " + D("Debug") +
     " #[debug(\"{a:x}\")] pub struct T { pub a: i32 }",
     "(crate::h::dbg(&S(7)), ::std::format!(\"{:5?}|{:#?}\", S(7), T { a: 255 }))")
case("Debug_generic", ["Debug"], D("Debug") + " pub struct S<T> { pub a: T, pub b: ::core::marker::PhantomData<T> } " +
     D("Debug") + " pub enum E<A, B> { L(A), R { b: B } }",
     "(crate::h::dbg(&S { a: 1u8, b: ::core::marker::PhantomData }), crate::h::dbg(&E::<u8, i8>::L(1)), crate::h::dbg(&E::<u8, i8>::R { b: -1 }))")
case("Debug_generic_fmt", ["Debug"], D("Debug") + " pub struct S<T, U> { #[debug(\"{a}\")] pub a: T, #[debug(\"{b:x?}\")] pub b: U }",
     "crate::h::dbg(&S { a: 1u8, b: 255u8 })")
case("Debug_bound", ["Debug"], D("Debug") + " #[debug(bound(T: ::core::fmt::Display))] pub struct S<T> { #[debug(\"{}\", crate::h::disp(a))] pub a: T }",
     "crate::h::dbg(&S { a: 1u8 })")
case("Debug_ref_generic", ["Debug"], D("Debug") + " pub struct S<'a, T: ?::core::marker::Sized> { pub a: &'a T }", "crate::h::dbg(&S { a: \"q\" })")

# ------------------------------------------------------------------ Display family
case("Display_struct_fmt", ["Display"], D("Display") + " #[display(\"a={a} b={}\", b)] pub struct S { pub a: i32, pub b: u8 }",
     "crate::h::disp(&S { a: 1, b: 2 })")
case("Display_tuple_fmt", ["Display"], D("Display") + " #[display(\"{_0}-{_1:>3}-{}\", _0 + 1)] pub struct S(pub i32, pub u8);",
     "crate::h::disp(&S(1, 2))")
case("Display_newtype", ["Display"], D("Display") + " pub struct S(pub i32); " + D("Display") + " pub struct N { pub a: u8 }",
     "(crate::h::disp(&S(7)), ::std::format!(\"{:>4}|{:<3}|\", S(7), N { a: 1 }))")
case("Display_unit", ["Display"], D("Display") + " pub struct Unit; " + D("Display") + " pub struct Tu(); " + D("Display") + " pub struct Br {}",
     "(crate::h::disp(&Unit), crate::h::disp(&Tu()), crate::h::disp(&Br {}), ::std::format!(\"{:>6}\", Unit))")
case("Display_enum", ["Display"], D("Display") +
     " pub enum E { A, #[display(\"bee\")] B, C(i32), #[display(\"d={x}/{}\", y)] D { x: i32, y: u8 }, #[display(\"{_0}+{_1}\")] F(i32, i32) }",
     "(crate::h::disp(&E::A), crate::h::disp(&E::B), crate::h::disp(&E::C(3)), crate::h::disp(&E::D { x: 1, y: 2 }), crate::h::disp(&E::F(4, 5)), ::std::format!(\"{:>4}\", E::A))")
case("Display_enum_shared", ["Display"], D("Display") +
     " #[display(\"<{_variant}>\")] pub enum E { A, #[display(\"b{_0}\")] B(i32), C { x: u8 } }",
     "(crate::h::disp(&E::A), crate::h::disp(&E::B(3)), crate::h::disp(&E::C { x: 1 }))")
case("Display_enum_shared_noplaceholder", ["Display"], D("Display") + " #[display(\"same {}\", 1 + 1)] pub enum E { A, B(i32) }",
     "(crate::h::disp(&E::A), crate::h::disp(&E::B(3)))")
case("Display_never", ["Display"], D("Display") + " pub enum E {}", "0")
case("Display_transparent", ["Display"], D("Display") + " #[display(\"{_0}\")] pub struct S(pub f64); " + D("Display") +
     " #[display(\"{a:e}\")] pub struct T { pub a: f64 }",
     "(::std::format!(\"{:8.2}|\", S(1.5)), ::std::format!(\"{:10.1}|\", T { a: 1500.0 }))")
case("Display_expr_args", ["Display"], D("Display") + " #[display(\"{}:{n}\", self.a * 2, n = self.b + 1)] pub struct S { pub a: i32, pub b: u8 }",
     "crate::h::disp(&S { a: 2, b: 3 })")
case("Display_generic", ["Display"], D("Display") + " #[display(\"{a}/{b:?}\")] pub struct S<A, B> { pub a: A, pub b: B } " +
     D("Display") + " pub struct W<T>(pub T);",
     "(crate::h::disp(&S { a: 1u8, b: \"x\" }), crate::h::disp(&W(2i64)))")
case("Display_bound", ["Display"], D("Display") + " #[display(bound(T: ::core::fmt::Debug))] #[display(\"{}\", crate::h::dbg(_0))] pub struct S<T>(pub T);",
     "crate::h::disp(&S(\"q\"))")
case("Display_union", ["Display"], D("Display") + " #[display(\"un\")] pub union U { pub a: i32, pub b: u32 } " + D("Display") +
     " #[display(\"{}\", unsafe { self.a })] pub union V { pub a: i32, pub b: u32 }",
     "(crate::h::disp(&U { a: 1 }), crate::h::disp(&V { a: 5 }))")
case("Display_ref_unsized", ["Display"], D("Display") + " pub struct S<'a, T: ?::core::marker::Sized>(pub &'a T);", "crate::h::disp(&S(\"q\"))")
for tr, spec, val, ty in [("Binary", "b", "5u8", "u8"), ("Octal", "o", "9u8", "u8"), ("LowerHex", "x", "255u8", "u8"),
                          ("UpperHex", "X", "255u8", "u8"), ("LowerExp", "e", "1500.0f64", "f64"), ("UpperExp", "E", "1500.0f64", "f64")]:
    low = {"Binary": "binary", "Octal": "octal", "LowerHex": "lower_hex", "UpperHex": "upper_hex", "LowerExp": "lower_exp",
           "UpperExp": "upper_exp"}[tr]
    case("%s_newtype" % tr, [tr], D(tr) + " pub struct S(pub %s);" % ty, "::std::format!(\"{:%s}|{:#%s}\", S(%s), S(%s))" % (spec, spec, val, val))
    case("%s_fmt" % tr, [tr], D(tr) + " #[%s(\"<{_0:%s}|{}>\", _1)] pub struct S(pub %s, pub u8);" % (low, spec, ty),
         "::std::format!(\"{:%s}\", S(%s, 1))" % (spec, val))
    case("%s_enum" % tr, [tr], D(tr) + " pub enum E { A(%s), #[%s(\"b{x:%s}\")] B { x: %s } }" % (ty, low, spec, ty),
         "(::std::format!(\"{:%s}\", E::A(%s)), ::std::format!(\"{:%s}\", E::B { x: %s }))" % (spec, val, spec, val))
case("Pointer_newtype", ["Pointer"], D("Pointer") + " pub struct S<'a>(pub &'a i32);",
     "{ let v = 5; let r = &v; ::std::format!(\"{:p}\", S(r)) == ::std::format!(\"{:p}\", r) }")
case("Pointer_fmt", ["Pointer"], D("Pointer") + " #[pointer(\"<{_0:p}>\")] pub struct S<'a>(pub &'a i32);",
     "{ let v = 5; let r = &v; ::std::format!(\"{:p}\", S(r)) == ::std::format!(\"<{:p}>\", r) }")

# ------------------------------------------------------------------ Deref / DerefMut
case("Deref_newtype", ["Deref"], D("Deref") + " pub struct W(pub i32);", "*W(5)")
case("Deref_forward", ["Deref"], D("Deref") + " #[deref(forward)] pub struct W(pub &'static i32);", "*W(&5)")
case("Deref_field", ["Deref"], D("Deref") + " pub struct W { #[deref] pub a: i32, pub b: u8 }", "*W { a: 5, b: 1 }")
case("Deref_field_forward", ["Deref"], D("Deref") + " pub struct W { #[deref(forward)] pub a: &'static i32, pub b: u8 }", "*W { a: &5, b: 1 }")
case("Deref_generic", ["Deref"], D("Deref") + " pub struct W<T>(pub T);", "*W(5u8)")
case("DerefMut_newtype", ["DerefMut", "Deref"], D("Deref", "DerefMut") + " pub struct W(pub i32);", "{ let mut w = W(5); *w += 1; *w }")
case("DerefMut_forward", ["DerefMut", "Deref"], D("Deref", "DerefMut") + " #[deref(forward)] #[deref_mut(forward)] pub struct W<'a>(pub &'a mut i32);",
     "{ let mut v = 5; { let mut w = W(&mut v); *w += 1; } v }")
case("DerefMut_field", ["DerefMut", "Deref"], D("Deref", "DerefMut") + " pub struct W { #[deref] #[deref_mut] pub a: i32, pub b: u8 }",
     "{ let mut w = W { a: 5, b: 1 }; *w += 1; *w }")
case("DerefMut_generic", ["DerefMut", "Deref"], D("Deref", "DerefMut") + " pub struct W<T>(pub T);", "{ let mut w = W(5u8); *w += 1; *w }")

# ------------------------------------------------------------------ Error
ERRD = D("Debug", "Display", "Error")
SRC = "::std::error::Error::source"
case("Error_unit", ["Error"], ERRD + " pub struct E1;", "%s(&E1).is_none()" % SRC)
case("Error_named_source", ["Error"], ERRD + " pub struct E1; " + ERRD + " #[display(\"e2\")] pub struct E2 { pub source: E1 }",
     "%s(&E2 { source: E1 }).map(|e| crate::h::disp(e))" % SRC)
case("Error_tuple_source", ["Error"], ERRD + " pub struct E1; " + ERRD + " #[display(\"e3\")] pub struct E3(pub E1);",
     "%s(&E3(E1)).map(|e| crate::h::disp(e))" % SRC)
case("Error_not_source", ["Error"], ERRD + " #[display(\"e4\")] pub struct E4(#[error(not(source))] pub i32);", "%s(&E4(1)).is_none()" % SRC)
case("Error_explicit_source", ["Error"], ERRD + " pub struct E1; " + ERRD + " #[display(\"e5\")] pub struct E5 { #[error(source)] pub inner: E1, pub x: i32 }",
     "%s(&E5 { inner: E1, x: 1 }).map(|e| crate::h::disp(e))" % SRC)
case("Error_tuple_explicit_source", ["Error"], ERRD + " pub struct E1; " + ERRD + " #[display(\"e5\")] pub struct E5(pub i32, #[error(source)] pub E1);",
     "%s(&E5(1, E1)).map(|e| crate::h::disp(e))" % SRC)
case("Error_no_fields_source", ["Error"], ERRD + " #[display(\"e\")] pub struct E { pub a: i32, pub b: u8 }", "%s(&E { a: 1, b: 2 }).is_none()" % SRC)
case("Error_ignore", ["Error"], ERRD + " pub struct E1; " + ERRD + " #[display(\"e\")] pub struct E { #[error(ignore)] pub source: E1 }",
     "%s(&E { source: E1 }).is_none()" % SRC)
case("Error_enum", ["Error"], ERRD + " pub struct E1; " + ERRD +
     " pub enum E6 { #[display(\"a\")] A { source: E1 }, #[display(\"b\")] B(E1), #[display(\"c\")] C(#[error(not(source))] i32), D, "
     "#[display(\"f\")] F { #[error(source)] inner: E1, x: u8 } }",
     "(%s(&E6::A { source: E1 }).is_some(), %s(&E6::B(E1)).is_some(), %s(&E6::C(1)).is_some(), %s(&E6::D).is_some(), %s(&E6::F { inner: E1, x: 1 }).is_some())"
     % (SRC, SRC, SRC, SRC, SRC))
case("Error_enum_all_sources", ["Error"], ERRD + " pub struct E1; " + ERRD + " pub enum E { #[display(\"a\")] A(E1), #[display(\"b\")] B { source: E1 } }",
     "(%s(&E::A(E1)).is_some(), %s(&E::B { source: E1 }).is_some())" % (SRC, SRC))
case("Error_enum_tuple_only", ["Error"], ERRD + " pub struct E1; " + ERRD + " pub enum E { #[display(\"a\")] A(E1), #[display(\"b\")] B(i32, #[error(source)] E1), #[display(\"c\")] C }",
     "(%s(&E::A(E1)).is_some(), %s(&E::B(1, E1)).is_some(), %s(&E::C).is_some())" % (SRC, SRC, SRC))
case("Error_enum_no_source", ["Error"], ERRD + " pub enum E { A, #[display(\"b\")] B { x: i32, y: i32 } }", "%s(&E::A).is_none()" % SRC)
case("Error_generic", ["Error"], ERRD + " pub struct E1; " + ERRD + " #[display(\"g\")] pub struct G<T> { pub source: T }",
     "%s(&G { source: E1 }).is_some()" % SRC)
case("Error_generic_nosource", ["Error"], ERRD + " #[display(\"g\")] pub struct G<T> { #[error(not(source))] pub x: T }",
     "%s(&G { x: 1u8 }).is_none()" % SRC)
case("Error_generic_enum", ["Error"], ERRD + " pub struct E1; " + ERRD + " pub enum G<T, U> { #[display(\"a\")] A(T), #[display(\"b\")] B { source: U }, C }",
     "(%s(&G::<E1, E1>::A(E1)).is_some(), %s(&G::<E1, E1>::C).is_some())" % (SRC, SRC))
case("Error_boxed_source", ["Error"], ERRD + " pub struct E1; " + ERRD +
     " #[display(\"bx\")] pub struct E { pub source: ::std::boxed::Box<dyn ::std::error::Error + ::core::marker::Send + 'static> }",
     "%s(&E { source: ::std::boxed::Box::new(E1) }).is_some()" % SRC)

# ------------------------------------------------------------------ From
FROM = "::core::convert::From::from"
case("From_newtype", ["From"], D("From") + " pub struct F(pub i32);", "{ let f: F = %s(5); f.0 }" % FROM)
case("From_named_single", ["From"], D("From") + " pub struct F { pub a: i32 }", "{ let f: F = %s(5); f.a }" % FROM)
case("From_tuple", ["From"], D("From") + " pub struct F(pub i32, pub u8);", "{ let f: F = %s((5, 1)); (f.0, f.1) }" % FROM)
case("From_named", ["From"], D("From") + " pub struct F { pub a: i32, pub b: u8 }", "{ let f: F = %s((5, 1)); (f.a, f.b) }" % FROM)
case("From_unit", ["From"], D("From") + " pub struct F;", "{ let _f: F = %s(()); 0 }" % FROM)
case("From_forward", ["From"], D("From") + " #[from(forward)] pub struct F(pub i64);", "{ let f: F = %s(5i32); f.0 }" % FROM)
case("From_forward_multi", ["From"], D("From") + " #[from(forward)] pub struct F { pub a: i64, pub b: u16 }",
     "{ let f: F = %s((5i32, 1u8)); (f.a, f.b) }" % FROM)
case("From_types", ["From"], D("From") + " #[from(i8, i16, i64)] pub struct F(pub i64);",
     "{ let a: F = %s(5i8); let b: F = %s(6i64); (a.0, b.0) }" % (FROM, FROM))
case("From_types_tuple", ["From"], D("From") + " #[from((i8, u8), (i64, u16))] pub struct F(pub i64, pub u16);",
     "{ let a: F = %s((5i8, 1u8)); (a.0, a.1) }" % FROM)
case("From_enum", ["From"], D("From") + " pub enum E { A(i32), B { x: u8 }, C(i8, i16), U }",
     "{ let a: E = %s(5i32); let b: E = %s(1u8); let c: E = %s((1i8, 2i16)); (match a { E::A(v) => v, _ => 0 }, match b { E::B { x } => x, _ => 0 }, match c { E::C(p, q) => (p, q), _ => (0, 0) }) }"
     % (FROM, FROM, FROM))
case("From_enum_attrs", ["From"], D("From") + " pub enum E { #[from] A(i32), B(i32), #[from(u8, u16)] D(u16) } " + D("From") + " pub enum F { #[from(forward)] C(i64), #[from(skip)] X(i8) }",
     "{ let a: E = %s(5i32); let c: F = %s(6i32); let d: E = %s(1u8); (match a { E::A(v) => v, _ => 0 }, match c { F::C(v) => v, _ => 0 }, match d { E::D(v) => v, _ => 0 }) }"
     % (FROM, FROM, FROM))
case("From_enum_skip", ["From"], D("From") + " pub enum E { A(i32), #[from(skip)] B(i32), U }", "{ let a: E = %s(5i32); match a { E::A(v) => v, _ => 0 } }" % FROM)
case("From_generic", ["From"], D("From") + " pub struct F<T>(pub T); " + D("From") + " pub struct G<A, B> { pub a: A, pub b: B } " + D("From") + " pub enum H<A> { L(A), #[from(skip)] R { n: u8 } }",
     "{ let f: F<u8> = %s(5u8); let g: G<i8, i16> = %s((3i8, 1i16)); let h: H<u8> = %s(4u8); (f.0, g.a, g.b, match h { H::L(v) => v, _ => 0 }) }" % (FROM, FROM, FROM))

# ------------------------------------------------------------------ FromStr
FS = "::core::str::FromStr"
case("FromStr_newtype", ["FromStr"], D("FromStr") + " pub struct N(pub i32);",
     "(<N as %s>::from_str(\"5\").map(|n| n.0).ok(), <N as %s>::from_str(\"x\").is_err())" % (FS, FS))
case("FromStr_named", ["FromStr"], D("FromStr") + " pub struct N { pub v: u8 }", "<N as %s>::from_str(\"5\").map(|n| n.v).ok()" % FS)
case("FromStr_generic", ["FromStr"], D("FromStr") + " pub struct N<T>(pub T);", "<N<i64> as %s>::from_str(\"-5\").map(|n| n.0).ok()" % FS)
case("FromStr_enum", ["FromStr"], D("FromStr") + " pub enum C { Red, Green, Blue }",
     "(<C as %s>::from_str(\"red\").is_ok(), <C as %s>::from_str(\"GREEN\").map(|c| match c { C::Green => 1, _ => 0 }).ok(), <C as %s>::from_str(\"x\").err().map(|e| crate::h::disp(&e)))"
     % (FS, FS, FS))
case("FromStr_enum_case", ["FromStr"], D("FromStr") + " pub enum C { Foo, FOO, Bar }",
     "(<C as %s>::from_str(\"Foo\").is_ok(), <C as %s>::from_str(\"foo\").is_ok(), <C as %s>::from_str(\"BAR\").is_ok())" % (FS, FS, FS))

# ------------------------------------------------------------------ Index / IndexMut
case("Index_newtype", ["Index"], D("Index") + " pub struct I(pub [i32; 3]);", "I([1, 2, 3])[1]")
case("Index_field", ["Index"], D("Index") + " pub struct I { #[index] pub v: [i32; 3], pub n: u8 }", "{ let i = I { v: [1, 2, 3], n: 1 }; (i[2], i[0..2].len(), i.n) }")
case("Index_generic", ["Index"], D("Index") + " pub struct I<T>(pub T);", "I([1u8, 2, 3])[1usize]")
case("IndexMut_newtype", ["IndexMut", "Index"], D("Index", "IndexMut") + " pub struct I(pub [i32; 3]);", "{ let mut i = I([1, 2, 3]); i[1] = 7; i[1] }")
case("IndexMut_field", ["IndexMut", "Index"], D("Index", "IndexMut") + " pub struct I { #[index] #[index_mut] pub v: [i32; 3], pub n: u8 }",
     "{ let mut i = I { v: [1, 2, 3], n: 1 }; i[1] = 7; (i[1], i.n) }")
case("IndexMut_generic", ["IndexMut", "Index"], D("Index", "IndexMut") + " pub struct I<T>(pub T);", "{ let mut i = I([1u8, 2, 3]); i[1usize] = 7; i[1usize] }")

# ------------------------------------------------------------------ Into
INTO = "::core::convert::Into::into"
case("Into_newtype", ["Into"], D("Into") + " pub struct W(pub i32);", "{ let v: i32 = %s(W(3)); v }" % INTO)
case("Into_tuple", ["Into"], D("Into") + " pub struct W(pub i32, pub u8);", "{ let v: (i32, u8) = %s(W(3, 1)); v }" % INTO)
case("Into_named", ["Into"], D("Into") + " pub struct W { pub a: i32, pub b: u8 }", "{ let v: (i32, u8) = %s(W { a: 3, b: 1 }); v }" % INTO)
case("Into_unit", ["Into"], D("Into") + " pub struct W;", "{ let _v: () = %s(W); 0 }" % INTO)
case("Into_refs", ["Into"], D("Into") + " #[into(owned, ref, ref_mut)] pub struct W(pub i32, pub u8);",
     "{ let mut w = W(3, 1); let a: (&i32, &u8) = %s(&w); let a = (*a.0, *a.1); { let b: (&mut i32, &mut u8) = %s(&mut w); *b.0 += 1; } let c: (i32, u8) = %s(w); (a, c) }"
     % (INTO, INTO, INTO))
case("Into_types", ["Into"], D("Into") + " #[into(i64, i128)] pub struct W(pub i32);", "{ let v: i64 = %s(W(3)); let u: i128 = %s(W(4)); (v, u) }" % (INTO, INTO))
case("Into_types_refs", ["Into"], D("Into") + " #[into(owned(i64), ref(i32), ref_mut)] pub struct W(pub i32);",
     "{ let mut w = W(3); let a: &i32 = %s(&w); let a = *a; { let b: &mut i32 = %s(&mut w); *b += 1; } let c: i64 = %s(w); (a, c) }" % (INTO, INTO, INTO))
case("Into_skip", ["Into"], D("Into") + " pub struct W { pub a: i32, #[into(skip)] pub b: u8, pub c: i8 }", "{ let v: (i32, i8) = %s(W { a: 3, b: 1, c: 2 }); v }" % INTO)
case("Into_field", ["Into"], D("Into") + " pub struct W { #[into] pub a: i32, pub b: u8, #[into(i64)] pub c: i8 }",
     "{ let v: i32 = %s(W { a: 3, b: 1, c: 2 }); let u: i64 = %s(W { a: 3, b: 1, c: 2 }); (v, u) }" % (INTO, INTO))
case("Into_generic", ["Into"], D("Into") + " pub struct W<T>(pub T, pub u8);", "{ let v: (i16, u8) = %s(W(3i16, 1)); v }" % INTO)
case("Into_generic_ref", ["Into"], D("Into") + " #[into(ref)] pub struct W<'a>(pub &'a i16);", "{ let x = 3i16; let w = W(&x); let v: &&i16 = %s(&w); **v }" % INTO)

# ------------------------------------------------------------------ IntoIterator
case("IntoIterator_owned", ["IntoIterator"], D("IntoIterator") + " pub struct It(pub [i32; 3]);", "{ let mut s = 0; for x in It([1, 2, 4]) { s += x; } s }")
case("IntoIterator_refs", ["IntoIterator"], D("IntoIterator") + " #[into_iterator(owned, ref, ref_mut)] pub struct It(pub [i32; 3]);",
     "{ let mut it = It([1, 2, 4]); let mut s = 0; for x in &it { s += *x; } for x in &mut it { *x += 1; } for x in it { s += x; } s }")
case("IntoIterator_field", ["IntoIterator"], D("IntoIterator") + " pub struct It { #[into_iterator(owned, ref)] pub v: [i32; 2], pub n: u8 }",
     "{ let it = It { v: [1, 2], n: 0 }; let mut s = 0; for x in &it { s += *x; } for x in it { s += x; } s }")
case("IntoIterator_generic", ["IntoIterator"], D("IntoIterator") + " #[into_iterator(owned, ref)] pub struct It<T>(pub T);",
     "{ let it = It([1u8, 2]); let mut s = 0; for x in &it { s += *x; } for x in it { s += x; } s }")

# ------------------------------------------------------------------ IsVariant
case("IsVariant_enum", ["IsVariant"], D("IsVariant") + " pub enum E { A, B(i32), C { x: u8 }, LongName }",
     "(E::A.is_a(), E::B(1).is_a(), E::B(1).is_b(), E::C { x: 1 }.is_c(), E::LongName.is_long_name())")
case("IsVariant_generic", ["IsVariant"], D("IsVariant") + " pub enum E<T> { A(T), B }", "(E::A(1u8).is_a(), E::<u8>::B.is_a())")
case("IsVariant_ignore", ["IsVariant"], D("IsVariant") + " pub enum E { A, #[is_variant(ignore)] B }", "{ let _b = E::B; E::A.is_a() }")

# ------------------------------------------------------------------ TryFrom
TF = "::core::convert::TryFrom"
case("TryFrom_repr", ["TryFrom"], D("TryFrom") + " #[try_from(repr)] #[repr(u8)] pub enum R { A = 1, B, C = 7 }",
     "(<R as %s<u8>>::try_from(2).is_ok(), <R as %s<u8>>::try_from(7).map(|r| match r { R::C => 1, _ => 0 }).ok(), <R as %s<u8>>::try_from(3).err().map(|e| crate::h::disp(&e)))"
     % (TF, TF, TF))
case("TryFrom_default_repr", ["TryFrom"], D("TryFrom") + " #[try_from(repr)] pub enum R { A, B = 5, C }",
     "(<R as %s<isize>>::try_from(6).is_ok(), <R as %s<isize>>::try_from(2).is_ok())" % (TF, TF))
case("TryFrom_repr_i16", ["TryFrom"], D("TryFrom") + " #[try_from(repr)] #[repr(i16)] pub enum R { A = -1, B }",
     "(<R as %s<i16>>::try_from(-1).is_ok(), <R as %s<i16>>::try_from(0).is_ok(), <R as %s<i16>>::try_from(1).is_ok())" % (TF, TF, TF))

# ------------------------------------------------------------------ TryInto
case("TryInto_owned", ["TryInto"], D("TryInto") + " pub enum V { I(i32), U(u8), P(i32, u8), N { a: i64 }, Unit }",
     "(<i32 as %s<V>>::try_from(V::I(3)).ok(), <i32 as %s<V>>::try_from(V::U(3)).err().map(|e| crate::h::disp(&e)), <(i32, u8) as %s<V>>::try_from(V::P(1, 2)).ok(), <i64 as %s<V>>::try_from(V::N { a: 9 }).ok(), <() as %s<V>>::try_from(V::Unit).is_ok())"
     % (TF, TF, TF, TF, TF))
case("TryInto_refs", ["TryInto"], D("TryInto") + " #[try_into(owned, ref, ref_mut)] pub enum V { I(i32), U(u8) }",
     "{ let mut v = V::I(3); let a = <&i32 as %s<&V>>::try_from(&v).ok().map(|x| *x); { let b = <&mut i32 as %s<&mut V>>::try_from(&mut v); if let %s(b) = b { *b += 1; } } (a, <i32 as %s<V>>::try_from(v).ok(), <&u8 as %s<&V>>::try_from(&V::I(1)).is_err()) }"
     % (TF, TF, OK, TF, TF))
case("TryInto_same_type", ["TryInto"], D("TryInto") + " pub enum V { A(i32), B(i32), C(u8) }",
     "(<i32 as %s<V>>::try_from(V::A(3)).ok(), <i32 as %s<V>>::try_from(V::B(4)).ok(), <i32 as %s<V>>::try_from(V::C(4)).is_err())" % (TF, TF, TF))
case("TryInto_ignore", ["TryInto"], D("TryInto") + " pub enum V { A(i32), #[try_into(ignore)] B(u8) }", "{ let _b = V::B(1); <i32 as %s<V>>::try_from(V::A(3)).ok() }" % TF)
case("TryInto_generic", ["TryInto"], D("TryInto") + " #[try_into(owned, ref)] pub enum V<'a> { A(&'a i32), B(u8) }",
     "(<&i32 as %s<V>>::try_from(V::A(&3)).ok().map(|x| *x), <&u8 as %s<&V>>::try_from(&V::B(4)).ok().map(|x| *x))" % (TF, TF))

# ------------------------------------------------------------------ Unwrap / TryUnwrap
case("Unwrap_owned", ["Unwrap"], D("Unwrap") + " pub enum M { A(i32), B(i32, u8), N }", "(M::A(3).unwrap_a(), M::B(1, 2).unwrap_b(), M::N.unwrap_n())")
case("Unwrap_refs", ["Unwrap"], D("Unwrap") + " #[unwrap(owned, ref, ref_mut)] pub enum M { A(i32), B(i32, u8), N }",
     "{ let mut m = M::A(3); let a = *m.unwrap_a_ref(); *m.unwrap_a_mut() += 1; let mut b = M::B(1, 2); let (p, q) = b.unwrap_b_mut(); *p += *q as i32; (a, m.unwrap_a(), b.unwrap_b(), M::N.unwrap_n_ref() == ()) }")
case("Unwrap_ignore", ["Unwrap"], D("Unwrap") + " pub enum M { A(i32), #[unwrap(ignore)] B(u8) }", "{ let _b = M::B(1); M::A(3).unwrap_a() }")
case("Unwrap_generic", ["Unwrap"], D("Unwrap") + " #[unwrap(ref)] pub enum M<T> { A(T), N }", "(*M::A(3u8).unwrap_a_ref(), M::<u8>::N.unwrap_n_ref() == ())")
case("Unwrap_single", ["Unwrap"], D("Unwrap") + " pub enum M { A(i32) }", "M::A(3).unwrap_a()")
case("TryUnwrap_owned", ["TryUnwrap"], D("TryUnwrap") + " pub enum M { A(i32), B(i32, u8), N }",
     "(M::A(3).try_unwrap_a().ok(), M::B(1, 2).try_unwrap_b().ok(), M::N.try_unwrap_n().is_ok(), M::N.try_unwrap_a().err().map(|e| crate::h::disp(&e)))")
case("TryUnwrap_refs", ["TryUnwrap"], D("TryUnwrap") + " #[try_unwrap(owned, ref, ref_mut)] pub enum M { A(i32), B(i32, u8), N }",
     "{ let mut m = M::A(3); let a = m.try_unwrap_a_ref().ok().map(|x| *x); if let %s(x) = m.try_unwrap_a_mut() { *x += 1; } (a, m.try_unwrap_b_ref().err().map(|e| crate::h::disp(&e)), m.try_unwrap_a().ok()) }" % OK)
case("TryUnwrap_ignore", ["TryUnwrap"], D("TryUnwrap") + " pub enum M { A(i32), #[try_unwrap(ignore)] B(u8) }", "{ let _b = M::B(1); M::A(3).try_unwrap_a().ok() }")
case("TryUnwrap_generic", ["TryUnwrap"], D("TryUnwrap") + " #[try_unwrap(ref)] pub enum M<T> { A(T), N }",
     "(M::A(3u8).try_unwrap_a_ref().ok().map(|x| *x), M::<u8>::N.try_unwrap_a_ref().is_err())")
case("TryUnwrap_single", ["TryUnwrap"], D("TryUnwrap") + " pub enum M { A(i32) }", "M::A(3).try_unwrap_a().ok()")


# ------------------------------------------------------------------ user generic parameters named like the macro's own (without `__`)
case("Sum_param_I", ["Sum", "Add"], D("Add", "Sum") + " pub struct S<I>(pub I);",
     "<S<i32> as ::core::iter::Sum>::sum(::core::iter::IntoIterator::into_iter([S(1), S(2)])).0")
case("Product_param_I", ["Product", "Mul"], D("Mul", "Product") + " #[mul(forward)] pub struct P<I>(pub I);",
     "<P<i32> as ::core::iter::Product>::product(::core::iter::IntoIterator::into_iter([P(2), P(3)])).0")
case("Mul_param_RhsT", ["Mul"], D("Mul") + " pub struct M<RhsT>(pub RhsT);", "(M(12i32) * 2).0")
case("MulAssign_param_RhsT", ["MulAssign"], D("MulAssign") + " pub struct M<RhsT>(pub RhsT);", "{ let mut r = M(12i32); r *= 2; r.0 }")
case("AsRef_param_AsT", ["AsRef"], D("AsRef") + " #[as_ref(forward)] pub struct A<AsT>(pub AsT);",
     "{ let a = A([1u8, 2]); <A<[u8; 2]> as ::core::convert::AsRef<[u8]>>::as_ref(&a).len() }")
case("Index_param_IdxT", ["Index"], D("Index") + " pub struct I<IdxT>(pub IdxT);", "I([1u8, 2, 3])[1usize]")
case("From_param_FromT0", ["From"], D("From") + " #[from(forward)] pub struct F<FromT0>(pub i64, pub ::core::marker::PhantomData<FromT0>);",
     "{ let f: F<u8> = ::core::convert::From::from((5i32, ::core::marker::PhantomData::<u8>)); f.0 }")
case("Into_lifetime_named", ["Into"], D("Into") + " #[into(ref)] pub struct W<'derive_more_into>(pub &'derive_more_into i16);",
     "{ let x = 3i16; let w = W(&x); let v: &&i16 = ::core::convert::Into::into(&w); **v }")
case("TryInto_lifetime_named", ["TryInto"], D("TryInto") + " #[try_into(ref)] pub enum V<'deriveMoreLifetime> { A(&'deriveMoreLifetime i32), B(u8) }",
     "<&u8 as ::core::convert::TryFrom<&V>>::try_from(&V::B(4)).ok().map(|x| *x)")

# ------------------------------------------------------------------ field / target types with inherent namesakes (crate::h::Px)
PX = "crate::h::Px"
for tr, op, a, b in ADD:
    exp = {"+": 9, "-": 3, "&": 2, "|": 7, "^": 5}[op]
    case("%s_px" % tr, [tr], D(tr) + " pub struct T(pub %s, pub %s); " % (PX, PX) + D(tr) + " pub struct N { pub a: %s }" % PX,
         "{ let r = T(%s(6), %s(6)) %s T(%s(3), %s(3)); let n = N { a: %s(6) } %s N { a: %s(3) }; (r.0 .0, r.1 .0, n.a.0) }" % (PX, PX, op, PX, PX, PX, op, PX),
         expect="(%d, %d, %d)" % (exp, exp, exp))
    case("%s_px_enum" % tr, [tr], D(tr) + " pub enum E { A(%s), B { x: %s } }" % (PX, PX),
         "(match E::A(%s(6)) %s E::A(%s(3)) { %s(E::A(v)) => v.0, _ => -1 }, match (E::B { x: %s(6) }) %s (E::B { x: %s(3) }) { %s(E::B { x }) => x.0, _ => -1 })"
         % (PX, op, PX, OK, PX, op, PX, OK), expect="(%d, %d)" % (exp, exp))
for tr, op in ADDA:
    exp = {"+=": 9, "-=": 3, "&=": 2, "|=": 7, "^=": 5}[op]
    case("%s_px" % tr, [tr], D(tr) + " pub struct T(pub %s); " % PX + D(tr) + " pub struct N { pub a: %s }" % PX,
         "{ let mut r = T(%s(6)); r %s T(%s(3)); let mut n = N { a: %s(6) }; n %s N { a: %s(3) }; (r.0 .0, n.a.0) }" % (PX, op, PX, PX, op, PX),
         expect="(%d, %d)" % (exp, exp))
for tr, op in MUL:
    exp = {"*": 24, "/": 6, "%": 0, ">>": 3, "<<": 48}[op]
    case("%s_px" % tr, [tr], D(tr) + " pub struct M(pub %s); " % PX + D(tr) + " pub struct M2 { pub a: %s, pub b: %s }" % (PX, PX),
         "{ let r = M(%s(12)) %s 2; let s = M2 { a: %s(12), b: %s(12) } %s 2; (r.0 .0, s.a.0, s.b.0) }" % (PX, op, PX, PX, op), expect="(%d, %d, %d)" % (exp, exp, exp))
for tr, op in MULA:
    exp = {"*=": 24, "/=": 6, "%=": 0, ">>=": 3, "<<=": 48}[op]
    case("%s_px" % tr, [tr], D(tr) + " pub struct M(pub %s); " % PX + D(tr) + " pub struct M2(pub %s, pub %s);" % (PX, PX),
         "{ let mut r = M(%s(12)); r %s 2; let mut s = M2(%s(12), %s(12)); s %s 2; (r.0 .0, s.0 .0, s.1 .0) }" % (PX, op, PX, PX, op), expect="(%d, %d, %d)" % (exp, exp, exp))
case("Not_px", ["Not"], D("Not") + " pub struct T(pub %s); " % PX + D("Not") + " pub enum E { A(%s), B { x: %s } }" % (PX, PX),
     "((!T(%s(5))).0 .0, match !E::A(%s(5)) { E::A(v) => v.0, _ => 0 }, match !(E::B { x: %s(5) }) { E::B { x } => x.0, _ => 0 })" % (PX, PX, PX), expect="(-6, -6, -6)")
case("Neg_px", ["Neg"], D("Neg") + " pub struct T { pub a: %s } " % PX + D("Neg") + " pub enum E { A(%s), U }" % PX,
     "((-T { a: %s(5) }).a.0, match -E::A(%s(5)) { %s(E::A(v)) => v.0, _ => 0 })" % (PX, PX, OK), expect="(-5, -5)")
case("Sum_px", ["Sum", "Add"], D("Add", "Sum") + " pub struct S(pub %s);" % PX,
     "<S as ::core::iter::Sum>::sum(::core::iter::IntoIterator::into_iter([S(%s(1)), S(%s(2)), S(%s(4))])).0 .0" % (PX, PX, PX), expect="7")
case("From_px_forward", ["From"], D("From") + " #[from(forward)] pub struct F(pub %s); " % PX + D("From") + " #[from(forward)] pub struct G { pub a: %s, pub b: i64 }" % PX,
     "{ let f: F = ::core::convert::From::from(5i32); let g: G = ::core::convert::From::from((6i32, 7i32)); (f.0 .0, g.a.0, g.b) }", expect="(5, 6, 7)")
case("Into_px_types", ["Into"], D("Into") + " #[into(%s)] pub struct W(pub i32); " % PX + D("Into") + " #[into((%s, i64))] pub struct V(pub i32, pub i32);" % PX,
     "{ let p: %s = ::core::convert::Into::into(W(3)); let q: (%s, i64) = ::core::convert::Into::into(V(4, 5)); (p.0, q.0 .0, q.1) }" % (PX, PX), expect="(3, 4, 5)")
case("Into_px_field", ["Into"], D("Into") + " pub struct W(pub %s); " % PX + D("Into") + " #[into(owned, ref)] pub struct V { pub a: %s, pub b: u8 }" % PX,
     "{ let p: %s = ::core::convert::Into::into(W(%s(3))); let v = V { a: %s(4), b: 1 }; let r: (&%s, &u8) = ::core::convert::Into::into(&v); (p.0, r.0 .0, *r.1) }" % (PX, PX, PX, PX),
     expect="(3, 4, 1)")
case("FromStr_px", ["FromStr"], D("FromStr") + " pub struct N(pub %s);" % PX, "<N as ::core::str::FromStr>::from_str(\"5\").map(|n| n.0 .0).ok()", expect="Some(5)")
case("Deref_px_forward", ["Deref", "DerefMut"], D("Deref", "DerefMut") + " #[deref(forward)] #[deref_mut(forward)] pub struct W(pub %s);" % PX,
     "{ let mut w = W(%s(5)); *w += 1; *w }" % PX, expect="6")
case("Index_px", ["Index", "IndexMut"], D("Index", "IndexMut") + " pub struct I(pub %s);" % PX, "{ let mut i = I(%s(5)); i[0usize] += 1; i[0usize] }" % PX, expect="6")
case("IntoIterator_px", ["IntoIterator"], D("IntoIterator") + " pub struct It(pub %s);" % PX, "{ let mut s = 0; for x in It(%s(5)) { s += x; } s }" % PX, expect="5")
case("AsRef_px_forward", ["AsRef", "AsMut"], D("AsRef", "AsMut") + " #[as_ref(forward)] #[as_mut(forward)] pub struct A(pub %s);" % PX,
     "{ let mut a = A(%s(5)); *<A as ::core::convert::AsMut<i32>>::as_mut(&mut a) += 1; *<A as ::core::convert::AsRef<i32>>::as_ref(&a) }" % PX, expect="6")
case("AsRef_px_types", ["AsRef"], D("AsRef") + " #[as_ref(i32, %s)] pub struct A(pub %s);" % (PX, PX),
     "{ let a = A(%s(5)); (*<A as ::core::convert::AsRef<i32>>::as_ref(&a), <A as ::core::convert::AsRef<%s>>::as_ref(&a).0) }" % (PX, PX), expect="(5, 5)")
case("Display_px", ["Display", "Debug"], D("Display", "Debug") + " pub struct S(pub %s); " % PX + D("Display", "Debug") +
     " pub enum E { A(%s), #[display(\"b={x}\")] #[debug(\"b={x:?}\")] B { x: %s } }" % (PX, PX),
     "(crate::h::disp(&S(%s(6))), crate::h::dbg(&S(%s(6))), crate::h::disp(&E::A(%s(7))), crate::h::disp(&E::B { x: %s(8) }), crate::h::dbg(&E::B { x: %s(8) }))" % (PX, PX, PX, PX, PX),
     expect='("px6", "S(Px(6))", "px7", "b=px8", "b=Px(8)")')
case("Mul_px_forward", ["Mul", "MulAssign"], D("Mul", "MulAssign") + " #[mul(forward)] #[mul_assign(forward)] pub struct M(pub i32); " + D("Sum", "Add", "Product", "Mul") +
     " #[mul(forward)] pub struct Q(pub i32);",
     "{ let mut m = M(6) * M(2); m *= M(2); (m.0, <Q as ::core::iter::Product>::product(::core::iter::IntoIterator::into_iter([Q(2), Q(3)])).0) }", expect="(24, 6)")

# ------------------------------------------------------------------ Error::provide (nightly: error_generic_member_access)
NIGHTLY_CASES = []


def ncase(cid, src, obs):
    NIGHTLY_CASES.append({"id": cid, "derives": ["Error"], "src": src.strip("\n"), "obs": obs.strip(), "tier": "thorough"})


BT = "::std::backtrace::Backtrace"
REQ = "::core::error::request_ref::<%s>" % BT
ncase("Error_bt_named", ERRD + " #[display(\"e\")] pub struct E { pub backtrace: %s }" % BT,
      "%s(&E { backtrace: %s::force_capture() }).is_some()" % (REQ, BT))
ncase("Error_bt_tuple", ERRD + " pub struct E1; " + ERRD + " #[display(\"e\")] pub struct E(pub E1, pub %s);" % BT,
      "{ let e = E(E1, %s::force_capture()); (%s(&e).is_some(), %s(&e).is_some()) }" % (BT, REQ, SRC))
ncase("Error_bt_source_named", ERRD + " pub struct E1; " + ERRD + " #[display(\"e\")] pub struct E { pub source: E1, pub backtrace: %s }" % BT,
      "{ let e = E { source: E1, backtrace: %s::force_capture() }; (%s(&e).is_some(), %s(&e).is_some()) }" % (BT, REQ, SRC))
ncase("Error_bt_is_source", ERRD + " #[display(\"i\")] pub struct I { pub backtrace: %s } " % BT + ERRD +
      " #[display(\"e\")] pub struct E { #[error(backtrace)] pub source: I }",
      "{ let e = E { source: I { backtrace: %s::force_capture() } }; (%s(&e).is_some(), %s(&e).is_some()) }" % (BT, REQ, SRC))
ncase("Error_bt_explicit", ERRD + " #[display(\"e\")] pub struct E { #[error(backtrace)] pub bt: %s, pub x: i32 }" % BT,
      "%s(&E { bt: %s::force_capture(), x: 1 }).is_some()" % (REQ, BT))
ncase("Error_bt_enum", ERRD + " #[display(\"i\")] pub struct I { pub backtrace: %s } " % BT + ERRD + " pub struct E1; " + ERRD +
      " pub enum E { #[display(\"a\")] A { backtrace: %s }, #[display(\"b\")] B { source: E1, backtrace: %s }, "
      "#[display(\"c\")] C { #[error(backtrace)] source: I }, #[display(\"d\")] D(E1, %s), F }" % (BT, BT, BT),
      "(%s(&E::A { backtrace: %s::force_capture() }).is_some(), %s(&E::B { source: E1, backtrace: %s::force_capture() }).is_some(), "
      "%s(&E::C { source: I { backtrace: %s::force_capture() } }).is_some(), %s(&E::D(E1, %s::force_capture())).is_some(), %s(&E::F).is_some())"
      % (REQ, BT, REQ, BT, REQ, BT, REQ, BT, REQ))

NIGHTLY_INFO_CASES = [{"id": "Error_bt_user_request_lifetime", "derives": ["Error"], "tier": "thorough",
                       "src": ERRD + " #[display(\"e\")] pub struct E<'_request> { pub backtrace: %s, pub r: &'_request i32 }" % BT,
                       "obs": "0"}]

# ------------------------------------------------------------------ scopes

HOSTILE_TYPES = ["Result", "Option", "String", "Vec", "Box", "Formatter", "Arguments"]
HOSTILE_VALUES = ["Ok", "Err", "Some", "None"]
HOSTILE_TRAITS = ["Debug", "Display", "From", "Into", "Error", "Default", "Copy", "Clone", "Sized", "Send", "Sync", "Unpin",
                  "Iterator", "IntoIterator", "FromStr", "TryFrom", "TryInto", "AsRef", "AsMut", "ToString", "ToOwned",
                  "Drop", "Fn", "FnMut", "FnOnce", "PartialEq", "Eq", "PartialOrd", "Ord", "Extend", "FromIterator",
                  "DoubleEndedIterator", "ExactSizeIterator",
                  "Add", "Sub", "Mul", "Div", "Rem", "Shl", "Shr", "BitAnd", "BitOr", "BitXor", "Not", "Neg",
                  "AddAssign", "SubAssign", "MulAssign", "DivAssign", "RemAssign", "ShlAssign", "ShrAssign",
                  "BitAndAssign", "BitOrAssign", "BitXorAssign", "Deref", "DerefMut", "Index", "IndexMut", "Sum", "Product",
                  "Binary", "Octal", "LowerHex", "UpperHex", "LowerExp", "UpperExp", "Pointer", "Write",
                  "BinaryError", "UnitError", "WrongVariantError", "FromStrError", "TryFromReprError", "TryIntoError",
                  "TryUnwrapError", "Backtrace", "Request", "PhantomData"]
HOSTILE_MACROS = ["panic", "write", "writeln", "format_args", "matches", "stringify", "unreachable", "assert", "assert_eq",
                  "assert_ne", "debug_assert", "todo", "unimplemented", "vec", "format", "concat", "print", "println",
                  "line", "file", "column", "cfg", "env", "include_str", "module_path", "compile_error"]
# lower-case modules / functions of the prelude
HOSTILE_FNS = ["drop", "core", "std", "alloc"]

MACRO_MARK = "C15-HOSTILE-MACRO"


def hostile_prelude():
    """items a hostile module defines before the user's types"""
    out = []
    for t in HOSTILE_TYPES + HOSTILE_VALUES:
        out.append("pub struct %s;" % t)
    for t in HOSTILE_TRAITS:
        out.append("pub trait %s {}" % t)
    for m in HOSTILE_MACROS:
        if m == "compile_error":
            continue
        out.append("macro_rules! %s { ($($t:tt)*) => { ::core::compile_error!(\"%s %s\") }; }" % (m, MACRO_MARK, m))
    out.append("pub fn drop() {}")
    out.append("pub mod core {} pub mod std {} pub mod alloc {}")
    return "\n".join(out)


def hostile_names():
    return set(HOSTILE_TYPES + HOSTILE_VALUES + HOSTILE_TRAITS + [m for m in HOSTILE_MACROS] + HOSTILE_FNS)


HELPERS = """
#[allow(dead_code)]
pub mod h {
    pub type Str = ::std::string::String;
    pub fn dbg<T: ::core::fmt::Debug + ?Sized>(t: &T) -> Str { format!("{:?}", t) }
    pub fn dbgp<T: ::core::fmt::Debug + ?Sized>(t: &T) -> Str { format!("{:#?}", t) }
    pub fn disp<T: ::core::fmt::Display + ?Sized>(t: &T) -> Str { format!("{}", t) }
    #[derive(Debug)]
    pub struct Other;
    impl ::core::fmt::Display for Other { fn fmt(&self, f: &mut ::core::fmt::Formatter<'_>) -> ::core::fmt::Result { f.write_str("OTHER") } }
    impl ::std::error::Error for Other {}
    pub static OTHER: Other = Other;

    /// A field / target type whose trait impls behave like `i32`, and which ALSO has inherent associated functions and methods
    /// named like every trait item the expansions call - all returning the poison value -999 / "POISON".  An expansion that
    /// reaches the item by name (`x.add(y)`, `<Px>::from(v)`, `Px::from_str(s)`) instead of through the trait path gets the poison.
    #[derive(Clone, Copy, PartialEq)]
    pub struct Px(pub i32);
    pub static POISON: i32 = -999;
    macro_rules! px_bin { ($($tr:ident $m:ident $op:tt;)*) => { $(
        impl ::core::ops::$tr for Px { type Output = Px; fn $m(self, o: Px) -> Px { Px(self.0 $op o.0) } }
        impl Px { pub fn $m(self, _o: Px) -> Px { Px(-999) } }
    )* } }
    px_bin! { Add add +; Sub sub -; BitAnd bitand &; BitOr bitor |; BitXor bitxor ^; }
    macro_rules! px_bin_assign { ($($tr:ident $m:ident $op:tt;)*) => { $(
        impl ::core::ops::$tr for Px { fn $m(&mut self, o: Px) { self.0 $op o.0; } }
        impl Px { pub fn $m(&mut self, _o: Px) { self.0 = -999; } }
    )* } }
    px_bin_assign! { AddAssign add_assign +=; SubAssign sub_assign -=; BitAndAssign bitand_assign &=; BitOrAssign bitor_assign |=; BitXorAssign bitxor_assign ^=; }
    macro_rules! px_scalar { ($($tr:ident $m:ident $op:tt;)*) => { $(
        impl ::core::ops::$tr<i32> for Px { type Output = Px; fn $m(self, o: i32) -> Px { Px(self.0 $op o) } }
        impl Px { pub fn $m(self, _o: i32) -> Px { Px(-999) } }
    )* } }
    px_scalar! { Mul mul *; Div div /; Rem rem %; Shr shr >>; Shl shl <<; }
    macro_rules! px_scalar_assign { ($($tr:ident $m:ident $op:tt;)*) => { $(
        impl ::core::ops::$tr<i32> for Px { fn $m(&mut self, o: i32) { self.0 $op o; } }
        impl Px { pub fn $m(&mut self, _o: i32) { self.0 = -999; } }
    )* } }
    px_scalar_assign! { MulAssign mul_assign *=; DivAssign div_assign /=; RemAssign rem_assign %=; ShrAssign shr_assign >>=; ShlAssign shl_assign <<=; }
    impl ::core::ops::Not for Px { type Output = Px; fn not(self) -> Px { Px(!self.0) } }
    impl ::core::ops::Neg for Px { type Output = Px; fn neg(self) -> Px { Px(-self.0) } }
    impl ::core::iter::Sum for Px { fn sum<I: Iterator<Item = Px>>(i: I) -> Px { Px(i.map(|p| p.0).sum()) } }
    impl ::core::iter::Product for Px { fn product<I: Iterator<Item = Px>>(i: I) -> Px { Px(i.map(|p| p.0).product()) } }
    impl ::core::convert::From<i32> for Px { fn from(v: i32) -> Px { Px(v) } }
    impl ::core::str::FromStr for Px { type Err = ::core::num::ParseIntError; fn from_str(s: &str) -> Result<Px, Self::Err> { s.parse().map(Px) } }
    impl ::core::ops::Deref for Px { type Target = i32; fn deref(&self) -> &i32 { &self.0 } }
    impl ::core::ops::DerefMut for Px { fn deref_mut(&mut self) -> &mut i32 { &mut self.0 } }
    impl ::core::ops::Index<usize> for Px { type Output = i32; fn index(&self, _i: usize) -> &i32 { &self.0 } }
    impl ::core::ops::IndexMut<usize> for Px { fn index_mut(&mut self, _i: usize) -> &mut i32 { &mut self.0 } }
    impl ::core::iter::IntoIterator for Px { type Item = i32; type IntoIter = ::core::array::IntoIter<i32, 1>; fn into_iter(self) -> Self::IntoIter { [self.0].into_iter() } }
    impl ::core::convert::AsRef<i32> for Px { fn as_ref(&self) -> &i32 { &self.0 } }
    impl ::core::convert::AsMut<i32> for Px { fn as_mut(&mut self) -> &mut i32 { &mut self.0 } }
    impl ::core::fmt::Display for Px { fn fmt(&self, f: &mut ::core::fmt::Formatter<'_>) -> ::core::fmt::Result { write!(f, "px{}", self.0) } }
    impl ::core::fmt::Debug for Px { fn fmt(&self, f: &mut ::core::fmt::Formatter<'_>) -> ::core::fmt::Result { write!(f, "Px({})", self.0) } }
    // the inherent namesakes (poison)
    impl Px {
        pub fn not(self) -> Px { Px(-999) }
        pub fn neg(self) -> Px { Px(-999) }
        pub fn sum<I: Iterator<Item = Px>>(_i: I) -> Px { Px(-999) }
        pub fn product<I: Iterator<Item = Px>>(_i: I) -> Px { Px(-999) }
        pub fn from(_v: i32) -> Px { Px(-999) }
        pub fn into(self) -> i32 { -999 }
        pub fn try_from(_v: i32) -> Result<Px, ()> { Ok(Px(-999)) }
        pub fn try_into(self) -> Result<i32, ()> { Ok(-999) }
        pub fn from_str(_s: &str) -> Result<Px, ::core::num::ParseIntError> { Ok(Px(-999)) }
        pub fn deref(&self) -> &i32 { &POISON }
        pub fn index(&self, _i: usize) -> &i32 { &POISON }
        pub fn into_iter(self) -> ::core::array::IntoIter<i32, 1> { [-999].into_iter() }
        pub fn as_ref(&self) -> &i32 { &POISON }
        pub fn fmt(&self, f: &mut ::core::fmt::Formatter<'_>) -> ::core::fmt::Result { f.write_str("POISON") }
        pub fn default() -> Px { Px(-999) }
        pub fn new() -> Px { Px(-999) }
        pub fn clone(&self) -> Px { Px(-999) }
        pub fn to_string(&self) -> Str { Str::from("POISON") }
    }
}
"""

SCOPES = ("pl", "np", "sh")


def module_source(c, scope):
    """contents of src/<scope>_<id>.rs"""
    body = "use ::derive_more;\n" + c["src"] + "\npub fn obs() -> crate::h::Str { crate::h::dbg(&(" + c["obs"] + ")) }\n"
    if scope == "sh":
        return hostile_prelude() + "\n" + body
    return body


def mod_decl(c, scope):
    attr = "#[no_implicit_prelude] " if scope == "np" else ""
    return "#[allow(dead_code, unused_macros, unused_imports, unused_variables, non_camel_case_types, unused_mut, unreachable_patterns, unreachable_code, non_snake_case)] %smod %s_%s;" % (
        attr, scope, c["id"])


def main_rs(active, crate_attrs=""):
    """active: list of (case, scope)"""
    lines = [crate_attrs, "#![allow(clippy::all)]", HELPERS]
    for c, s in active:
        lines.append(mod_decl(c, s))
    lines.append("fn main() {")
    for c, s in active:
        lines.append("    println!(\"{}\\t{}\\t{}\", \"%s\", \"%s\", %s_%s::obs());" % (c["id"], s, s, c["id"]))
    lines.append("}")
    return "\n".join(lines) + "\n"


def files_of(c):
    out = []
    for d in c["derives"]:
        for f in FILES[DERIVES[d]]:
            if f not in out:
                out.append(f)
    return out
